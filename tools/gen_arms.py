#!/usr/bin/env python3
"""Generator for units/arms.rs (committed output; this only saves typing the per-variant boilerplate).

For each Diff variant V in the table:
  * Call::<C>(..)            ghost record of one engine call
  * stub of the Model method (real signature, ASSUMED: Ok => the call is appended to the engine's call log, Err => log unchanged)
  * redo arm of apply_diff_list      — extracted verbatim, ensures log' == log + redo_V(fields)
  * undo arm of apply_undo_diff_list — extracted verbatim, ensures log' == log + undo_V(fields)
redo_V / undo_V are written from the meaning of the variant (what the operation did / its inverse), not from the code.
"""

# variant, pattern fields [(name, type as bound in the arm)], used-by-redo, used-by-undo, redo call, undo call
T = [
 ("SetCellValue", None, None, None, None),
]

VARS = [
 # name, fields (all fields of the variant: name, rust type of the binding), redo: (Call ctor, [exprs]), undo: (...)|None, arm kind
 dict(v="SetArrayValue", f=[("sheet","u32"),("row","i32"),("column","i32"),("width","i32"),("height","i32"),("new_value","String")],
      redo=("SetUserArrayFormula", ["*sheet","*row","*column","*width","*height","new_value@"]), undo=None),
 dict(v="SetColumnWidth", f=[("sheet","u32"),("column","i32"),("new_value","f64"),("old_value","f64")],
      redo=("SetColumnWidth", ["*sheet","*column","*new_value"]), undo=("SetColumnWidth", ["*sheet","*column","*old_value"])),
 dict(v="SetColumnHidden", f=[("sheet","u32"),("column","i32"),("new_value","bool"),("old_value","bool")],
      redo=("SetColumnHidden", ["*sheet","*column","*new_value"]), undo=("SetColumnHidden", ["*sheet","*column","*old_value"])),
 dict(v="SetRowHeight", f=[("sheet","u32"),("row","i32"),("new_value","f64"),("old_value","f64")],
      redo=("SetRowHeight", ["*sheet","*row","*new_value"]), undo=("SetRowHeight", ["*sheet","*row","*old_value"])),
 dict(v="SetRowHidden", f=[("sheet","u32"),("row","i32"),("new_value","bool"),("old_value","bool")],
      redo=("SetRowHidden", ["*sheet","*row","*new_value"]), undo=("SetRowHidden", ["*sheet","*row","*old_value"])),
 dict(v="InsertRows", f=[("sheet","u32"),("row","i32"),("count","i32")],
      redo=("InsertRows", ["*sheet","*row","*count"]), undo=("DeleteRows", ["*sheet","*row","*count"])),
 dict(v="InsertColumns", f=[("sheet","u32"),("column","i32"),("count","i32")],
      redo=("InsertColumns", ["*sheet","*column","*count"]), undo=("DeleteColumns", ["*sheet","*column","*count"])),
 dict(v="DeleteRows", f=[("sheet","u32"),("row","i32"),("count","i32")],
      redo=("DeleteRows", ["*sheet","*row","*count"]), undo=None),
 dict(v="DeleteColumns", f=[("sheet","u32"),("column","i32"),("count","i32")],
      redo=("DeleteColumns", ["*sheet","*column","*count"]), undo=None),
 dict(v="SetFrozenRowsCount", f=[("sheet","u32"),("new_value","i32"),("old_value","i32")],
      redo=("SetFrozenRows", ["*sheet","*new_value"]), undo=("SetFrozenRows", ["*sheet","*old_value"])),
 dict(v="SetFrozenColumnsCount", f=[("sheet","u32"),("new_value","i32"),("old_value","i32")],
      redo=("SetFrozenColumns", ["*sheet","*new_value"]), undo=("SetFrozenColumns", ["*sheet","*old_value"])),
 dict(v="RenameSheet", f=[("index","u32"),("old_value","String"),("new_value","String")],
      redo=("RenameSheet", ["*index","new_value@"]), undo=("RenameSheet", ["*index","old_value@"])),
 dict(v="SetSheetColor", f=[("index","u32"),("old_value","Color"),("new_value","Color")],
      redo=("SetSheetColor", ["*index","*new_value"]), undo=("SetSheetColor", ["*index","*old_value"])),
 dict(v="SetShowGridLines", f=[("sheet","u32"),("old_value","bool"),("new_value","bool")],
      redo=("SetShowGridLines", ["*sheet","*new_value"]), undo=("SetShowGridLines", ["*sheet","*old_value"])),
 dict(v="SetSheetState", f=[("index","u32"),("old_value","SheetState"),("new_value","SheetState")],
      redo=("SetSheetState", ["*index","*new_value"]), undo=("SetSheetState", ["*index","*old_value"])),
 dict(v="MoveColumns", f=[("sheet","u32"),("column","i32"),("column_count","i32"),("delta","i32")],
      redo=("MoveColumnsAction", ["*sheet","*column","*column_count","*delta"]),
      undo=("MoveColumnsAction", ["*sheet","(*column + *delta) as i32","*column_count","(-*delta) as i32"]), small=["column","delta"]),
 dict(v="MoveRows", f=[("sheet","u32"),("row","i32"),("row_count","i32"),("delta","i32")],
      redo=("MoveRowsAction", ["*sheet","*row","*row_count","*delta"]),
      undo=("MoveRowsAction", ["*sheet","(*row + *delta) as i32","*row_count","(-*delta) as i32"]), small=["row","delta"]),
 dict(v="SetLocale", f=[("old_value","String"),("new_value","String")],
      redo=("SetLocale", ["new_value@"]), undo=("SetLocale", ["old_value@"])),
 dict(v="SetTimezone", f=[("old_value","String"),("new_value","String")],
      redo=("SetTimezone", ["new_value@"]), undo=("SetTimezone", ["old_value@"])),
 dict(v="DeleteColumnStyle", f=[("sheet","u32"),("column","i32")],
      redo=("DeleteColumnStyle", ["*sheet","*column"]), undo=None),
 dict(v="DeleteRowStyle", f=[("sheet","u32"),("row","i32")],
      redo=("DeleteRowStyle", ["*sheet","*row"]), undo=None),
 dict(v="CreateDefinedName", f=[("name","String"),("scope","Option<u32>"),("value","String")],
      redo=("NewDefinedName", ["name@","*scope","value@"]), undo=("DeleteDefinedName", ["name@","*scope"])),
 dict(v="DeleteDefinedName", f=[("name","String"),("scope","Option<u32>"),("old_value","String")],
      redo=("DeleteDefinedName", ["name@","*scope"]), undo=("NewDefinedName", ["name@","*scope","old_value@"])),
 dict(v="UpdateDefinedName", f=[("name","String"),("scope","Option<u32>"),("old_formula","String"),("new_name","String"),("new_scope","Option<u32>"),("new_formula","String")],
      redo=("UpdateDefinedName", ["name@","*scope","new_name@","*new_scope","new_formula@"]),
      undo=("UpdateDefinedName", ["new_name@","*new_scope","name@","*scope","old_formula@"])),
]

CALLS = {
 "SetUserArrayFormula": ("set_user_array_formula", "base/src/model.rs", ["u32","i32","i32","i32","i32","Seq<char>"], ["sheet","row","column","width","height","value@"]),
 "SetColumnWidth": ("set_column_width", "base/src/model.rs", ["u32","i32","f64"], ["sheet","column","width"]),
 "SetColumnHidden": ("set_column_hidden", "base/src/model.rs", ["u32","i32","bool"], ["sheet","column","hidden"]),
 "SetRowHeight": ("set_row_height", "base/src/model.rs", ["u32","i32","f64"], ["sheet","column","height"]),
 "SetRowHidden": ("set_row_hidden", "base/src/model.rs", ["u32","i32","bool"], ["sheet","row","hidden"]),
 "InsertRows": ("insert_rows", "base/src/actions.rs", ["u32","i32","i32"], ["sheet","row","row_count"]),
 "DeleteRows": ("delete_rows", "base/src/actions.rs", ["u32","i32","i32"], ["sheet","row","row_count"]),
 "InsertColumns": ("insert_columns", "base/src/actions.rs", ["u32","i32","i32"], ["sheet","column","column_count"]),
 "DeleteColumns": ("delete_columns", "base/src/actions.rs", ["u32","i32","i32"], ["sheet","column","column_count"]),
 "SetFrozenRows": ("set_frozen_rows", "base/src/model.rs", ["u32","i32"], ["sheet","frozen_rows"]),
 "SetFrozenColumns": ("set_frozen_columns", "base/src/model.rs", ["u32","i32"], ["sheet","frozen_columns"]),
 "RenameSheet": ("rename_sheet_by_index", "base/src/new_empty.rs", ["u32","Seq<char>"], ["sheet_index","new_name@"]),
 "SetSheetColor": ("set_sheet_color", "base/src/model.rs", ["u32","Color"], ["sheet","*color"]),
 "SetShowGridLines": ("set_show_grid_lines", "base/src/model.rs", ["u32","bool"], ["sheet","show_grid_lines"]),
 "SetSheetState": ("set_sheet_state", "base/src/model.rs", ["u32","SheetState"], ["sheet","state"]),
 "MoveColumnsAction": ("move_columns_action", "base/src/actions.rs", ["u32","i32","i32","i32"], ["sheet","column","column_count","delta"]),
 "MoveRowsAction": ("move_rows_action", "base/src/actions.rs", ["u32","i32","i32","i32"], ["sheet","row","row_count","delta"]),
 "SetLocale": ("set_locale", "base/src/model.rs", ["Seq<char>"], ["locale_id@"]),
 "SetTimezone": ("set_timezone", "base/src/model.rs", ["Seq<char>"], ["timezone@"]),
 "DeleteColumnStyle": ("delete_column_style", "base/src/model.rs", ["u32","i32"], ["sheet","column"]),
 "DeleteRowStyle": ("delete_row_style", "base/src/model.rs", ["u32","i32"], ["sheet","row"]),
 "NewDefinedName": ("new_defined_name", "base/src/model.rs", ["Seq<char>","Option<u32>","Seq<char>"], ["name@","scope","formula@"]),
 "DeleteDefinedName": ("delete_defined_name", "base/src/model.rs", ["Seq<char>","Option<u32>"], ["name@","scope"]),
 "UpdateDefinedName": ("update_defined_name", "base/src/model.rs", ["Seq<char>","Option<u32>","Seq<char>","Option<u32>","Seq<char>"], ["name@","scope","new_name@","new_scope","new_formula@"]),
 "MoveSheet": ("move_sheet", "base/src/new_empty.rs", ["u32","u32"], ["sheet_index","new_index"]),
 "DeleteSheet": ("delete_sheet", "base/src/new_empty.rs", ["u32"], ["sheet_index"]),
 "InsertSheet": ("insert_sheet", "base/src/new_empty.rs", ["Seq<char>","u32","Option<u32>"], ["sheet_name@","sheet_index","sheet_id"]),
}
EVAL = {"SetArrayValue", "InsertRows", "InsertColumns", "DeleteRows", "DeleteColumns", "MoveColumns", "MoveRows"}
GHOST_CALLS = ["SelectSheet(u32)"]

out = []
w = out.append
w(open("/verif/tools/arms_hdr.rs").read())
out_main = out
out = []
w = out.append
w("// ---- diff_meaning.rs (generated by tools/gen_arms.py): engine-call vocabulary and the meaning of each Diff variant ----")
w("/// ghost record of one call into the engine")
w("pub enum Call {")
for c, (_m, _f, tys, _a) in CALLS.items():
    w(f"    {c}({', '.join(tys)}),")
for gc in GHOST_CALLS:
    w(f"    {gc},")
w("}")
meaning_calls = out
out = out_main
w = out.append
w("//@include diff_meaning.rs")
w("impl<'a> Model<'a> {")
w("    /// the sequence of mutating engine calls performed so far (ghost; the engine state is a function of it: A-functional)")
w("    pub uninterp spec fn log(&self) -> Seq<Call>;")
for c, (meth, file, tys, args) in CALLS.items():
    w(f"//@stub {file} Model::{meth}")
    w(f"    ensures r.is_ok() ==> final(self).log() == old(self).log().push(Call::{c}({', '.join(args)})),")
    w(f"            r.is_err() ==> final(self).log() == old(self).log(),")
    w("//@end")
w("}")
w("")
out_main = out
out = meaning_calls
w = out.append
w("// ---- what redo / undo of each recorded diff must do to the engine (from the meaning of the variant) ----")
for d in VARS:
    v = d["v"]
    params = ", ".join(f"{n}: &{t}" for n, t in d["f"])
    c, a = d["redo"]
    w(f"pub open spec fn redo_{v}({params}) -> Seq<Call> {{ seq![Call::{c}({', '.join(a)})] }}")
    if d["undo"]:
        c, a = d["undo"]
        w(f"pub open spec fn undo_{v}({params}) -> Seq<Call> {{ seq![Call::{c}({', '.join(a)})] }}")
w("/// redo of a whole recorded diff (variants under contract; the rest are unconstrained)")
w("pub open spec fn small(x: int) -> bool { -4194304 <= x <= 4194304 }")
open("/verif/units/diff_meaning.rs", "w").write("\n".join(out) + "\n")
out = out_main
w = out.append
w("")
w("impl<'a> UserModel<'a> {")
for d in VARS:
    v = d["v"]
    params = ", ".join(f"{n}: &{t}" for n, t in d["f"])
    names = ", ".join(n for n, _ in d["f"])
    req = ""
    if d.get("small"):
        req = "    requires " + ", ".join(f"small(*{n} as int)" for n in d["small"]) + "\n"
    for kind, fn in (("redo", "apply_diff_list"), ("undo", "apply_undo_diff_list")):
        if kind == "undo" and not d["undo"]:
            continue
        w(f"pub fn {kind}_arm_{v}(&mut self, {params}) -> (r: Result<bool, String>)")
        if req:
            w(req.rstrip("\n"))
        w(f"    ensures r.is_ok() ==> final(self).model.log() == old(self).model.log() + {kind}_{v}({names}),")
        w(f"            final(self).history == old(self).history, final(self).send_queue == old(self).send_queue,")
        if v in EVAL:
            w(f"            r matches Ok(needs_evaluation) ==> needs_evaluation,   // contents or structure changed: the workbook is re-evaluated afterwards")
        w("{")
        w("    #[allow(unused_assignments, unused_variables, unused_mut)] let mut needs_evaluation = false;")
        w(f"//@arm base/src/user_model/undo_redo.rs UserModel::{fn} `Diff::{v} {{`")
        w("//@end")
        w("    ;")
        w("    Ok(needs_evaluation)")
        w("}")
w(open("/verif/tools/arms_extra.rs").read())
w("}")
w("")
w("} // verus!")
w("fn main() {}")
open("/verif/units/arms.rs", "w").write("\n".join(out) + "\n")
print("written")
