// ---- sheet-structure undo arms (hand-written section, tools/arms_extra.rs) ----
    // set_selected_sheet lives in ui.rs; here it only records which sheet is selected (ASSUMED: Ok => recorded, Err => nothing)
    #[verifier::external_body]
    pub fn set_selected_sheet(&mut self, sheet: u32) -> (r: Result<(), String>)
        ensures r.is_ok() ==> final(self).model.log() == old(self).model.log().push(Call::SelectSheet(sheet)),
                r.is_err() ==> final(self).model.log() == old(self).model.log(),
                final(self).history == old(self).history, final(self).send_queue == old(self).send_queue,
    { unimplemented!() }

/// undo of DuplicateSheet: the copy is deleted and the SOURCE sheet is selected again, whatever was selected meanwhile,
/// so the selection cannot be left pointing past the end (C28) and the pre-operation selection is restored (C01)
pub fn undo_duplicate_sheet_tail(&mut self, source_index: &u32, new_index: &u32) -> (r: Result<(), String>)
    ensures r.is_ok() ==> final(self).model.log() == old(self).model.log() + seq![Call::DeleteSheet(*new_index), Call::SelectSheet(*source_index)]
{
//@fragment base/src/user_model/undo_redo.rs UserModel::apply_undo_diff_list `self.model.delete_sheet(*new_index)?;` .. `self.set_selected_sheet(*source_index)`
//@end
    Ok(())
}

/// undo of DeleteSheet re-inserts the sheet under its OLD name, at its OLD index, with its OLD sheet id
/// (sheet-scoped defined names are bound by id)
pub fn undo_delete_sheet_head(&mut self, sheet: &u32, old_data: &Box<WorksheetShell>) -> (r: Result<(), String>)
    ensures r.is_ok() ==> final(self).model.log() == old(self).model.log() + seq![Call::InsertSheet(old_data.name@, *sheet, Some(old_data.sheet_id))]
{
//@fragment base/src/user_model/undo_redo.rs UserModel::apply_undo_diff_list `let sheet_name = &old_data.name.clone();` .. `.insert_sheet(`
//@end
    Ok(())
}

    // the selected sheet as the user model reads it (ui.rs; stub: an uninterpreted function of the engine's call log)
    pub uninterp spec fn selected(&self) -> u32;
    #[verifier::external_body]
    pub fn get_selected_sheet(&self) -> (r: u32) ensures r == self.selected() { unimplemented!() }

/// redo / undo of MoveSheet: the sheet is moved (back), and the selection follows the SAME sheet through the move
pub fn redo_move_sheet(&mut self, sheet_index: &u32, new_index: &u32) -> (r: Result<(), String>)
    requires old(self).selected() < 4294967295
    ensures r.is_ok() ==> final(self).model.log() == old(self).model.log()
        + seq![Call::MoveSheet(*sheet_index, *new_index), Call::SelectSheet(moved_index(old(self).selected() as int, *sheet_index as int, *new_index as int) as u32)]
{
    let ghost sel0 = self.selected();
//@arm base/src/user_model/undo_redo.rs UserModel::apply_diff_list `Diff::MoveSheet {`
//@after `let selected = self.get_selected_sheet();`
                    assert(selected == sel0);
//@end
    ;
    Ok(())
}
pub fn undo_move_sheet(&mut self, sheet_index: &u32, new_index: &u32) -> (r: Result<(), String>)
    requires old(self).selected() < 4294967295
    ensures r.is_ok() ==> final(self).model.log() == old(self).model.log()
        + seq![Call::MoveSheet(*new_index, *sheet_index), Call::SelectSheet(moved_index(old(self).selected() as int, *new_index as int, *sheet_index as int) as u32)]
{
//@arm base/src/user_model/undo_redo.rs UserModel::apply_undo_diff_list `Diff::MoveSheet {`
//@end
    ;
    Ok(())
}
