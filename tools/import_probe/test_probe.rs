use ironcalc::import::load_from_xlsx;
#[test]
fn probe_import() {
    for f in ["/repo/xlsx/tests/example.xlsx", "/tmp/import_probe/rgb.xlsx", "/tmp/import_probe/comment.xlsx", "/tmp/import_probe/sheetsdir.xlsx", "/tmp/import_probe/localsheet.xlsx", "/tmp/import_probe/nostyles.xlsx", "/tmp/import_probe/nofonts.xlsx", "/tmp/import_probe/nosheetdata.xlsx", "/tmp/import_probe/norel.xlsx"] {
        let r = std::panic::catch_unwind(|| load_from_xlsx(f, "en", "UTC", "en").map(|_| ()));
        match r {
            Ok(Ok(())) => println!("IMPORT {f}: loaded"),
            Ok(Err(e)) => println!("IMPORT {f}: error {e}"),
            Err(_) => println!("IMPORT {f}: PANIC"),
        }
    }
}
