#!/usr/bin/env python3
"""Builds, from /repo/xlsx/tests/example.xlsx, the unusual / malformed workbooks that made the xlsx import PANIC before the fix: commits of
2026-09-22 (see known_findings.txt, property C25).  usage: make_files.py <outdir>;  then run test_probe.rs (copy it to xlsx/tests/ of a scratch
worktree) to load each file under catch_unwind."""
import re, sys, zipfile
out = sys.argv[1]
z = zipfile.ZipFile(sys.argv[2] if len(sys.argv) > 2 else '/repo/xlsx/tests/example.xlsx')
files = {n: z.read(n) for n in z.namelist()}


def write(name, fs):
    with zipfile.ZipFile(f"{out}/{name}", 'w', zipfile.ZIP_DEFLATED) as o:
        for n, b in fs.items():
            o.writestr(n, b)


st = files['xl/styles.xml'].decode()
f = dict(files); f['xl/styles.xml'] = re.sub(r'rgb="[0-9A-Fa-f]{8}"', 'rgb="aéaaaaa"', st, count=1).encode('utf8'); write('rgb.xlsx', f)
cn = [n for n in files if 'comments' in n and n.endswith('.xml')][0]
f = dict(files); f[cn] = re.sub(r'<t[^>/]*>[^<]*</t>', '<t/>', f[cn].decode(), count=1).encode(); write('comment.xlsx', f)
f = {}
for n, b in files.items():
    if n.endswith('.rels') or n == '[Content_Types].xml':
        b = b.replace(b'worksheets/', b'sheets/')
    f[n.replace('xl/worksheets/', 'xl/sheets/')] = b
write('sheetsdir.xlsx', f)
f = dict(files); f['xl/workbook.xml'] = re.sub(r'localSheetId="\d+"', 'localSheetId="99"', f['xl/workbook.xml'].decode(), count=1).encode(); write('localsheet.xlsx', f)
f = dict(files); s2 = re.sub(r'<cellStyleXfs.*?</cellStyleXfs>', '', st, flags=re.S); f['xl/styles.xml'] = re.sub(r'<cellStyles.*?</cellStyles>', '', s2, flags=re.S).encode(); write('nostyles.xlsx', f)
f = dict(files); f['xl/styles.xml'] = re.sub(r'<fonts.*?</fonts>', '', st, flags=re.S).encode(); write('nofonts.xlsx', f)
n = [x for x in files if x.startswith('xl/worksheets/sheet')][0]
f = dict(files); f[n] = re.sub(r'<sheetData>.*?</sheetData>|<sheetData/>', '', f[n].decode(), flags=re.S).encode(); write('nosheetdata.xlsx', f)
f = dict(files); f['xl/_rels/workbook.xml.rels'] = re.sub(r'<Relationship [^>]*worksheets/sheet[^>]*/>', '', f['xl/_rels/workbook.xml.rels'].decode(), count=1).encode(); write('norel.xlsx', f)
