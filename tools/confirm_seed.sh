#!/bin/bash
# usage: tools/confirm_seed.sh <seed-out-dir (with patch.diff, demo.rs)> <name>
# Confirms in a scratch worktree: (1) demo passes without patch, (2) with patch: builds, demo fails, (3) existing lib tests pass with patch.
src=$1; name=$2
wt=/tmp/confirm/$name
mkdir -p /tmp/confirm
git -C /repo worktree add --detach $wt HEAD -q || exit 3
cd $wt
cp $src/demo.rs base/src/test/test_seed_demo.rs
echo "mod test_seed_demo;" >> base/src/test/mod.rs
export CARGO_TARGET_DIR=/tmp/confirm/target
r1=$(cargo test --offline -p ironcalc_base --lib test_seed_demo 2>&1 | grep "^test result" | head -1)
git apply $src/patch.diff || { echo "APPLY FAILED"; }
r2=$(cargo test --offline -p ironcalc_base --lib test_seed_demo 2>&1 | grep "^test result" | head -1)
# existing suite with patch, without demo
rm base/src/test/test_seed_demo.rs; git checkout -- base/src/test/mod.rs
r3=$(cargo test --offline -p ironcalc_base --lib 2>&1 | grep "^test result" | head -1)
echo "{\"seed\": \"$name\", \"demo_without_patch\": \"$r1\", \"demo_with_patch\": \"$r2\", \"suite_with_patch\": \"$r3\"}"
cd /; git -C /repo worktree remove --force $wt
