#!/usr/bin/env python3
"""usage: tools/confirm_batch.py <P><tag> ...      e.g.  tools/confirm_batch.py C10r6 C32r6
Confirms the seeds /tmp/seed/out/<P><tag>/{a,b} in ONE scratch worktree of /repo HEAD with N+1 builds instead of 3N:
  build 0: clean tree + every demo (each as its own module)      -> every demo test must pass
  build k: patch k + every demo                                  -> the WHOLE lib suite runs; exactly the tests of demo k may fail (they must),
                                                                     every test of the existing suite must pass
Writes one JSON line per seed to /tmp/confirm_<P><tag>.log in the format tools/store_seeds.py reads."""
import json, os, re, subprocess, sys
WT = "/tmp/confirm/batch"
TARGET = "/tmp/confirm/target"
os.makedirs("/tmp/confirm", exist_ok=True)
subprocess.run(["git", "-C", "/repo", "worktree", "remove", "--force", WT], capture_output=True)
subprocess.run(["git", "-C", "/repo", "worktree", "add", "--detach", WT, "HEAD", "-q"], check=True)
seeds = []
for name in sys.argv[1:]:
    for x in "ab":
        d = f"/tmp/seed/out/{name}/{x}"
        if os.path.exists(f"{d}/patch.diff") and os.path.exists(f"{d}/demo.rs"):
            seeds.append((f"{name}-{x}", d))
mods = []
for (sid, d) in seeds:
    mod = "seed_demo_" + re.sub(r"\W", "_", sid).lower()
    open(f"{WT}/base/src/test/{mod}.rs", "w").write(open(f"{d}/demo.rs").read())
    mods.append(mod)
with open(f"{WT}/base/src/test/mod.rs", "a") as fh:
    for m in mods:
        fh.write(f"mod {m};\n")
env = dict(os.environ, CARGO_TARGET_DIR=TARGET, CARGO_NET_OFFLINE="true")


def run_suite():
    p = subprocess.run(["cargo", "test", "--offline", "-p", "ironcalc_base", "--lib", "--no-fail-fast"], cwd=WT, env=env, capture_output=True, text=True)
    out = p.stdout + p.stderr
    failed = set(re.findall(r"^test (\S+) \.\.\. FAILED", out, re.M))
    passed = set(re.findall(r"^test (\S+) \.\.\. ok", out, re.M))
    summary = (re.findall(r"^test result: .*$", out, re.M) or ["no test result (build error?)\n" + out[-400:]])[0]
    return passed, failed, summary


p0, f0, s0 = run_suite()
print("clean tree + all demos:", s0)
for (sid, d), mod in zip(seeds, mods):
    demo_pass0 = {t for t in p0 if f"::{mod}::" in t}
    demo_fail0 = {t for t in f0 if f"::{mod}::" in t}
    a = subprocess.run(["git", "apply", f"{d}/patch.diff"], cwd=WT, capture_output=True, text=True)
    if a.returncode != 0:
        rec = dict(seed=sid, demo_without_patch=f"test result: {'ok' if demo_pass0 and not demo_fail0 else 'FAILED'}. {len(demo_pass0)} passed; {len(demo_fail0)} failed",
                   demo_with_patch="APPLY FAILED", suite_with_patch="APPLY FAILED")
    else:
        p1, f1, s1 = run_suite()
        demo_fail1 = {t for t in f1 if f"::{mod}::" in t}
        other_fail1 = {t for t in f1 if "::seed_demo_" not in t}      # the EXISTING suite (another seed's demo may legitimately notice this patch too)
        rec = dict(seed=sid,
                   demo_without_patch=f"test result: {'ok' if demo_pass0 and not demo_fail0 else 'FAILED'}. {len(demo_pass0)} passed; {len(demo_fail0)} failed",
                   demo_with_patch=f"test result: {'FAILED' if demo_fail1 else 'ok'}. {len(demo_pass0) - len(demo_fail1)} passed; {len(demo_fail1)} failed",
                   suite_with_patch=(f"test result: ok. {len(p1)} passed; 0 failed outside the demo" if not other_fail1 else
                                     f"test result: FAILED. other tests fail with the patch: {sorted(other_fail1)[:4]}"))
        subprocess.run(["git", "apply", "-R", f"{d}/patch.diff"], cwd=WT, check=True)
    name = sid.rsplit("-", 1)[0]
    with open(f"/tmp/confirm_{name}.log", "a") as fh:
        fh.write(json.dumps(rec) + "\n")
    print(json.dumps(rec)[:260])
subprocess.run(["git", "-C", "/repo", "worktree", "remove", "--force", WT], capture_output=True)
print("BATCH-DONE")
