#!/usr/bin/env python3
"""Generator for units/nav.rs: the four arrow-key navigation fragments (same shape, different axis/direction)."""
hdr = '''// Keyboard navigation: the row/column an arrow key selects lies on the grid (hidden lines are skipped, and running off the
// grid selects nothing).   (C28)
use vstd::prelude::*;
verus! {
pub mod constants {
    #[allow(unused_imports)] use super::*;
//@type base/src/constants.rs LAST_COLUMN
//@type base/src/constants.rs LAST_ROW
}
pub use constants::{LAST_COLUMN, LAST_ROW};
//@type base/src/types.rs WorksheetView
//@fn base/src/expressions/utils/mod.rs is_valid_column_number
//@spec
    ensures r == (1 <= column <= 16384)
//@rewrite `-> bool` => `-> (r: bool)`
//@end
//@fn base/src/expressions/utils/mod.rs is_valid_row
//@spec
    ensures r == (1 <= row <= 1048576)
//@rewrite `-> bool` => `-> (r: bool)`
//@end
// ---- context shells (D5) ----
#[verifier::external_body] pub struct Worksheet { _o: u8 }
#[verifier::external_body] pub struct WorkbookRest { _o: u8 }
#[verifier::external_body] pub struct ModelRest { _o: u8 }
pub struct Workbook { pub rest: WorkbookRest }
pub struct Model { pub workbook: Workbook, pub rest: ModelRest }
pub struct UserModel { pub model: Model }
impl Workbook {
    #[verifier::external_body]
    pub fn worksheet(&self, worksheet_index: u32) -> (r: Result<&Worksheet, String>) { unimplemented!() }
}
impl Worksheet {
//@stub base/src/worksheet.rs Worksheet::is_row_hidden
//@end
//@stub base/src/worksheet.rs Worksheet::is_column_hidden
//@end
}
pub open spec fn on_grid(view: &WorksheetView) -> bool { 1 <= view.row <= 1048576 && 1 <= view.column <= 16384 }

impl UserModel {
'''
body = ''
for (fn, var, init, valid, lo, hi, dec) in [
    ("on_arrow_right", "new_column", "let mut new_column = view.column + 1;", "if !is_valid_column_number(new_column) {", 1, 16384, "16385 - new_column"),
    ("on_arrow_left", "new_column", "let mut new_column = view.column - 1;", "if !is_valid_column_number(new_column) {", 1, 16384, "new_column"),
    ("on_arrow_up", "new_row", "let mut new_row = view.row - 1;", "if !is_valid_row(new_row) {", 1, 1048576, "new_row"),
    ("on_arrow_down", "new_row", "let mut new_row = view.row + 1;", "if !is_valid_row(new_row) {", 1, 1048576, "1048577 - new_row"),
]:
    body += f'''
/// {fn}: the line that gets selected (None: nothing is selected, the selection stays where it was)
pub fn {fn}_target(&self, sheet: u32, view: &WorksheetView) -> (r: Result<Option<i32>, String>)
    requires on_grid(view)
    ensures r matches Ok(Some(x)) ==> {lo} <= x <= {hi}
{{
//@fragment base/src/user_model/ui.rs UserModel::{fn} `{init}` ..< `// if the `
//@loop 1
            invariant 0 <= {var} <= {hi} + 1
            decreases {dec}
//@rewrite `return Ok(());` => `return Ok(None);`
//@end
    Ok(Some({var}))
}}
'''
open("/verif/units/nav.rs", "w").write(hdr + body + "}\n\n} // verus!\nfn main() {}\n")
print("written")
