#!/usr/bin/env python3
"""dev helper: tools/unit.py <unit> [--canary]  — weave + verify one unit against /repo's working tree, print failures"""
import sys, os, json
sys.path.insert(0, os.path.dirname(os.path.dirname(os.path.abspath(__file__))))
os.environ.setdefault("VERIF_EVIDENCE_DIR", "/tmp/verif_seed_evidence")
from vf import run
u = sys.argv[1]
r = run.verify_unit(u, "quick", do_canary="--canary" in sys.argv)
print("status", r["status"], "reason", r.get("reason"), "verified", r.get("verified"), "obligations", len(r.get("obligations", [])),
      "wall", round(r.get("wall", 0), 1), "canary", r.get("canary"))
for f in r.get("failures", []):
    print("FAIL", f["id"], "::", f["message"], "::", f["text"][:160])
    if "-v" in sys.argv:
        print(f.get("rendered", "")[:1500])
if r["status"] == "undecided" and "-v" in sys.argv:
    print(json.dumps({k: v for k, v in r.items() if k in ("diag", "log", "stderr")}, indent=1)[:4000])
