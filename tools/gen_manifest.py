#!/usr/bin/env python3
"""Regenerates MANIFEST.json from vf/props.py (claimed checks) and tools/not_applicable.json."""
import json, os, sys
ROOT = os.path.dirname(os.path.dirname(os.path.abspath(__file__)))
sys.path.insert(0, ROOT)
from vf import props
ids = [json.loads(l)["id"] for l in open(os.path.join(ROOT, "properties.jsonl"))]
na = json.load(open(os.path.join(ROOT, "tools", "not_applicable.json")))
checks = []
for pid in ids:
    if pid not in props.PROPS:
        continue
    P = props.PROPS[pid]
    checks.append({
        "property_id": pid,
        "quick_cmd": f"./check {pid} --tier quick",
        "thorough_cmd": f"./check {pid} --tier thorough",
        "evidence_file": f"/verif/evidence/{pid}.json",
        "replay_cmd_template": f"./check {pid} --replay {{path}}",
        "engine": "verus-contracts",
        "level_claimed": {"category": P.get("level", "proof"),
                          "text": P["claim"] + " — decided for all inputs by Verus discharging every obligation generated from the functions extracted verbatim from /repo's current tree. Not decided (residual): " + (P.get("residual") or "none"),
                          "design_ref": "DESIGN.md §5-§6"},
        "level_note": "Trusted: Verus/Z3, the extractor (hashes + `ensures false` canaries), and: " + "; ".join(P.get("assumptions", [])),
        "technique": P.get("technique", "contract-based deductive verification (Verus) of the real functions, extracted on every run"),
    })
m = {
    "version": 1,
    "setup_cmd": "true",
    "hooks": {"guard": "kani", "enable": "none needed: Verus reads /repo's source text; Kani harnesses (thorough tier) are injected into a scratch copy, never into /repo",
              "baseline_off_cmd": "cd /repo && cargo test --workspace --no-fail-fast --offline", "source_commits": [], "add_only": True},
    "engines": [{"name": "verus-contracts", "path": "/verif/check", "serves_properties": [c["property_id"] for c in checks],
                 "kind_free_text": "Verus 0.2026.09.13 on functions extracted verbatim from /repo on every run, contracts woven in from units/*.rs"}],
    "checks": checks,
    "not_applicable": [{"property_id": i, "reason": na.get(i, "not yet built")} for i in ids if i not in props.PROPS],
    "notes": "exit 0 = all obligations discharged; exit 1 + VIOLATION line = a named obligation refuted; exit 2 = undecided (lost anchor, unsupported construct, solver limit, vacuity canary) — never an alarm.",
}
json.dump(m, open(os.path.join(ROOT, "MANIFEST.json"), "w"), indent=1)
print("claimed:", [c["property_id"] for c in checks])
