#!/usr/bin/env python3
"""Prints the current property -> units table (markdown) from vf/props.py, for DESIGN.md §11.2b."""
import sys
sys.path.insert(0, "/verif")
from vf import props
print("| property | units (Verus) | scans | first sentence of the claim |")
print("|---|---|---|---|")
for pid in sorted(props.PROPS):
    P = props.PROPS[pid]
    claim = P["claim"].split(". ")[0].split("; ")[0]
    if len(claim) > 260:
        claim = claim[:257] + "..."
    print(f"| {pid} | {', '.join(P['units'])} | {', '.join(P.get('scans', [])) or '—'} | {claim} |")
