#!/usr/bin/env python3
"""usage: tools/seed_prompt.py <round-tag> <property-id>...
Creates, for each property, a scratch worktree /tmp/seed/<P><tag> of /repo HEAD and a prompt file
/tmp/seed/out/<P><tag>.prompt.txt for an independent sub-agent.  The prompt contains ONLY the property text
(nothing from /verif).  The agent writes /tmp/seed/out/<P><tag>/{a,b}/{patch.diff,demo.rs,notes.md}."""
import json, os, subprocess, sys
tag = sys.argv[1]
props = {json.loads(l)["id"]: json.loads(l) for l in open("/verif/properties.jsonl")}
os.makedirs("/tmp/seed/out", exist_ok=True)
for pid in sys.argv[2:]:
    p = props[pid]
    name = f"{pid}{tag}"
    wt = f"/tmp/seed/{name}"
    if not os.path.exists(wt):
        subprocess.run(["git", "-C", "/repo", "worktree", "add", "--detach", wt, "HEAD", "-q"], check=True)
    out = f"/tmp/seed/out/{name}"
    os.makedirs(out + "/a", exist_ok=True)
    os.makedirs(out + "/b", exist_ok=True)
    text = f"""You are helping to evaluate how well a spreadsheet engine's semantic properties are guarded. The engine is IronCalc
(Rust). You have your own scratch git worktree of it at {wt} (work ONLY there; never touch /repo or /verif, and do not read
anything under /verif). There is no network; build with `cargo ... --offline` and always
`export CARGO_TARGET_DIR={wt}/target`.

Here is a semantic property the engine is supposed to have:

  {p['id']} — {p['title']}
  {p['statement']}

Your task: produce TWO different, independent changes (call them a and b) to the engine's source, each of which
  * breaks this property (some input / sequence of operations now violates the statement),
  * still compiles, and still passes the existing test suite of the base crate
    (`cargo test --offline -p ironcalc_base --lib` must report 0 failed with the change applied),
  * is realistic: the kind of slip a maintainer could make in a refactor or a "small improvement" (an off-by-one at a
    boundary, a wrong variable of the same type, a swapped argument, a missing case, a condition checked too late, a
    stale value reused, an update applied to one of two cooperating sites only), not sabotage, not a new feature flag,
  * needs something SPECIFIC to manifest: an unusual input, a boundary position, a multi-step sequence of operations,
    a particular state (hidden rows, multi-column descriptors, several sheets, undo followed by redo, ...), or two sites
    that each look fine alone. A change that ordinary use would expose at once is not wanted.
Prefer changes in the code that implements the mechanism of the property (look for it; the code base is under
{wt}/base/src), spread a and b over different functions/files, and keep each patch small (a few lines).

For each change X in {{a, b}} write three files into {out}/X/ :
  patch.diff  — `git diff` of the change against the worktree HEAD (source files only, no tests), applicable with `git apply`
  demo.rs     — a self-contained Rust test module that will be placed at base/src/test/test_seed_demo.rs (and registered with
                `mod test_seed_demo;` in base/src/test/mod.rs). It starts with `#![allow(clippy::unwrap_used)]` and
                `use crate::...` imports, contains #[test] functions that PASS on the unmodified tree and FAIL with the patch
                applied, and asserts exactly what the property promises (not incidental behaviour).
  notes.md    — 5-15 lines: what the change is, why it breaks the property, and a section headed
                "What is needed to manifest" describing the specific input/sequence/state.
Verify all of it yourself before finishing: (1) on the clean worktree the demo passes
(`cargo test --offline -p ironcalc_base --lib test_seed_demo`), (2) with the patch the demo fails, (3) with the patch and
WITHOUT the demo files the whole lib suite passes. Leave the worktree clean (`git checkout -- . && git clean -fd base/src`) when done,
and finally delete {wt}/target to free disk space.
Report briefly what you produced and the three verification results for each change. If you really cannot find a second
change, deliver one and say so.
"""
    open(f"/tmp/seed/out/{name}.prompt.txt", "w").write(text)
    print(name, wt)
