// U-rowops: row descriptors of a worksheet against the abstract view.   (C29, C27)
use vstd::prelude::*;
use vstd::std_specs::ops::*;
use vstd::std_specs::cmp::*;
use vstd::std_specs::iter::IteratorSpec;
use std::collections::HashMap;
verus! {
//@include std_f64.rs
//@include std_specs.rs
//@include std_iter.rs
//@include ws_types.rs

pub open spec fn rows_wf(v: Seq<Row>) -> bool {
    forall|i: int, j: int| 0 <= i < j < v.len() ==> (#[trigger] v[i]).r != (#[trigger] v[j]).r
}
/// every row descriptor with r != except occurs unchanged in w
#[verifier::opaque]
pub open spec fn rows_sub(v: Seq<Row>, w: Seq<Row>, except: int) -> bool {
    forall|i: int| 0 <= i < v.len() && (#[trigger] v[i]).r != except ==> exists|j: int| 0 <= j < w.len() && #[trigger] w[j] == v[i]
}
pub open spec fn rows_same_except(v: Seq<Row>, w: Seq<Row>, except: int) -> bool {
    rows_sub(v, w, except) && rows_sub(w, v, except)
}
pub open spec fn has_row(v: Seq<Row>, x: int) -> bool { exists|i: int| 0 <= i < v.len() && (#[trigger] v[i]).r == x }
pub open spec fn row_idx(v: Seq<Row>, x: int) -> int { choose|i: int| 0 <= i < v.len() && (#[trigger] v[i]).r == x }
pub open spec fn row_at(v: Seq<Row>, x: int) -> Row { v[row_idx(v, x)] }

pub proof fn lemma_row_unique(v: Seq<Row>, x: int, i: int)
    requires rows_wf(v), 0 <= i < v.len(), v[i].r == x
    ensures has_row(v, x), row_idx(v, x) == i
{
    let j = row_idx(v, x);
    if j < i { assert(v[j].r != v[i].r); }
    if i < j { assert(v[i].r != v[j].r); }
}
pub proof fn lemma_rows_update(v: Seq<Row>, w: Seq<Row>, k: int, row: int)
    requires
        rows_wf(v), 0 <= k < v.len(), w.len() == v.len(), v[k].r == row, w[k].r == row,
        forall|i: int| 0 <= i < v.len() && i != k ==> w[i] == v[i],
    ensures rows_wf(w), rows_same_except(v, w, row), has_row(w, row), row_idx(w, row) == k, has_row(v, row), row_idx(v, row) == k
{
    reveal(rows_sub);
    assert forall|i: int, j: int| 0 <= i < j < w.len() implies (#[trigger] w[i]).r != (#[trigger] w[j]).r by {
        assert(v[i].r != v[j].r);
    }
    assert forall|i: int| 0 <= i < v.len() && (#[trigger] v[i]).r != row implies exists|j: int| 0 <= j < w.len() && #[trigger] w[j] == v[i] by {
        assert(w[i] == v[i]);
    }
    assert forall|i: int| 0 <= i < w.len() && (#[trigger] w[i]).r != row implies exists|j: int| 0 <= j < v.len() && #[trigger] v[j] == w[i] by {
        assert(v[i] == w[i]);
    }
    lemma_row_unique(w, row, k);
    lemma_row_unique(v, row, k);
}
pub proof fn lemma_rows_push(v: Seq<Row>, w: Seq<Row>, nr: Row)
    requires rows_wf(v), w =~= v.push(nr), forall|i: int| 0 <= i < v.len() ==> (#[trigger] v[i]).r != nr.r
    ensures rows_wf(w), rows_same_except(v, w, nr.r as int), has_row(w, nr.r as int), row_at(w, nr.r as int) == nr, !has_row(v, nr.r as int)
{
    reveal(rows_sub);
    assert forall|i: int| 0 <= i < v.len() && (#[trigger] v[i]).r != nr.r implies exists|j: int| 0 <= j < w.len() && #[trigger] w[j] == v[i] by {
        assert(w[i] == v[i]);
    }
    assert forall|i: int| 0 <= i < w.len() && (#[trigger] w[i]).r != nr.r implies exists|j: int| 0 <= j < v.len() && #[trigger] v[j] == w[i] by {
        assert(i < v.len()); assert(v[i] == w[i]);
    }
    lemma_row_unique(w, nr.r as int, v.len() as int);
}
pub proof fn lemma_rows_same(v: Seq<Row>, row: int)
    ensures rows_same_except(v, v, row)
{ reveal(rows_sub); }

impl Worksheet {
