#!/bin/bash
# runs every claimed check on the clean tree (rewrites evidence/); prints one line per property
cd /verif
git -C /repo status --short | grep -q . && { echo "/repo working tree is not clean"; exit 3; }
for id in $(python3 -c "import json;print(' '.join(c['property_id'] for c in json.load(open('MANIFEST.json'))['checks']))"); do ./check $id --tier ${1:-quick} | tail -1; done
