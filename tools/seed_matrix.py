#!/usr/bin/env python3
"""Runs every stored seed against the check of the property it breaks (and any extra properties given in
seeded/<id>/meta.json 'also_check'), records detection in meta.json, prints a table.  /repo is restored after each."""
import glob, json, os, subprocess, sys
os.environ["VERIF_EVIDENCE_DIR"] = "/tmp/verif_seed_evidence"
ROOT = "/verif"
# MATRIX_REPO=<scratch worktree of /repo HEAD>: patch and check THAT tree (with its own work directory), so /repo stays free for other work
REPO = os.environ.get("MATRIX_REPO", "/repo")
if REPO != "/repo":
    os.environ["VERIF_REPO"] = REPO
    os.environ["VERIF_WORK"] = os.path.join(os.path.dirname(REPO.rstrip("/")), "work")
    os.makedirs(os.environ["VERIF_WORK"], exist_ok=True)
only = sys.argv[1:]
rows = []
for d in sorted(glob.glob(f"{ROOT}/seeded/*")):
    name = os.path.basename(d)
    if only and name not in only:
        continue
    meta = json.load(open(f"{d}/meta.json"))
    props = [meta["breaks_property"]] + meta.get("also_check", [])
    subprocess.run(["git", "-C", REPO, "checkout", "--", "."], check=True)
    if REPO != "/repo":
        # follow /repo: the scratch tree is moved to /repo's current HEAD before every patch, so units and tree never drift apart
        head = subprocess.run(["git", "-C", "/repo", "rev-parse", "HEAD"], capture_output=True, text=True).stdout.strip()
        subprocess.run(["git", "-C", REPO, "checkout", "-q", "--detach", head], check=True)
    r = subprocess.run(["git", "-C", REPO, "apply", f"{d}/patch.diff"], capture_output=True, text=True)
    if r.returncode != 0:
        rows.append((name, "patch does not apply", ""))
        continue
    res = {}
    try:
        for p in props:
            c = subprocess.run([f"{ROOT}/check", p], capture_output=True, text=True, cwd=ROOT)
            ob = [l for l in c.stdout.splitlines() if l.startswith("FAILED-OBLIGATION") or l.startswith("UNDECIDED")]
            res[p] = dict(exit=c.returncode, detail=(ob[0][:300] if ob else ""))
    finally:
        subprocess.run(["git", "-C", REPO, "checkout", "--", "."], check=True)
    det = [p for p, v in res.items() if v["exit"] == 1]
    meta["checks_run"] = {p: v for p, v in res.items()}
    meta["detected_by"] = det
    meta["status"] = "detected" if det else ("undecided (exit 2)" if any(v["exit"] == 2 for v in res.values()) else "missed")
    json.dump(meta, open(f"{d}/meta.json", "w"), indent=1)
    rows.append((name, meta["status"], "; ".join(f"{p}:{v['detail'][:110]}" for p, v in res.items() if v["detail"])))
for r in rows:
    print("%-8s %-20s %s" % r)
