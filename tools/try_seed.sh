#!/bin/bash
# usage: tools/try_seed.sh <patch.diff> <property-id>...   — applies the patch to /repo, runs the checks, undoes it
p=$1; shift
cd /repo && git apply "$p" || { echo "patch does not apply"; exit 3; }
cd /verif
export VERIF_EVIDENCE_DIR=/tmp/verif_seed_evidence
for id in "$@"; do ./check $id | tail -4; echo "exit($id)=${PIPESTATUS[0]}"; done
git -C /repo checkout -- .
