#!/usr/bin/env python3
"""Generator for units/delegates.rs: the one-line Model delegates for row/column attributes pass their own arguments,
unchanged and in order, to the Worksheet method of the sheet they were given."""
MP = {"get_column_width": ["column"], "set_column_width": ["column","width"], "set_column_hidden": ["column","hidden"],
      "set_row_hidden": ["row","hidden"], "is_column_hidden": ["column"], "is_row_hidden": ["row"], "get_row_height": ["row"],
      "set_row_height": ["column","height"], "delete_column_style": ["column"], "delete_row_style": ["row"]}
D = [  # model fn, worksheet fn, [(param, type)], mutable
 ("get_column_width", "get_column_width", [("column","i32")], False),
 ("set_column_width", "set_column_width", [("column","i32"),("width","f64")], True),
 ("set_column_hidden", "set_column_hidden", [("column","i32"),("hidden","bool")], True),
 ("set_row_hidden", "set_row_hidden", [("row","i32"),("hidden","bool")], True),
 ("is_column_hidden", "is_column_hidden", [("column","i32")], False),
 ("is_row_hidden", "is_row_hidden", [("row","i32")], False),
 ("get_row_height", "row_height", [("row","i32")], False),
 ("set_row_height", "set_row_height", [("row","i32"),("height","f64")], True),
 ("delete_column_style", "delete_column_style", [("column","i32")], True),
 ("delete_row_style", "delete_row_style", [("row","i32")], True),
]
o = []
w = o.append
w('''// Model's one-line delegates for row/column attributes: each passes its own arguments, unchanged and in order, to the
// Worksheet method it is named after, on the sheet it was given.  With units cols/rows this lifts the whole-view contracts of
// the Worksheet setters to the Model API that the user model and the undo/redo arms call.   (C29, C01, C02)
use vstd::prelude::*;
verus! {
#[verifier::external_body] pub struct Worksheet { _o: u8 }
#[verifier::external_body] pub struct WorkbookRest { _o: u8 }
#[verifier::external_body] pub struct ModelRest { _o: u8 }
pub struct Workbook { pub rest: WorkbookRest }
pub struct Model { pub workbook: Workbook, pub rest: ModelRest }
// the call being delegated (ghost constants the stubs can refer to)
pub uninterp spec fn g_sheet() -> u32;
pub uninterp spec fn g_line() -> i32;     // the row or column
pub uninterp spec fn g_f64() -> f64;      // the width / height
pub uninterp spec fn g_bool() -> bool;    // the hidden flag
impl Workbook {
    #[verifier::external_body]
    pub fn worksheet(&self, worksheet_index: u32) -> (r: Result<&Worksheet, String>) requires worksheet_index == g_sheet() { unimplemented!() }
    #[verifier::external_body]
    pub fn worksheet_mut(&mut self, worksheet_index: u32) -> (r: Result<&mut Worksheet, String>) requires worksheet_index == g_sheet() { unimplemented!() }
}
impl Worksheet {''')
seen = set()
for (mf, wf, ps, mut) in D:
    if wf in seen:
        continue
    seen.add(wf)
    reqs = []
    for (p, t) in ps:
        reqs.append(f"{p} == " + {"i32": "g_line()", "f64": "g_f64()", "bool": "g_bool()"}[t])
    w(f"//@stub base/src/worksheet.rs Worksheet::{wf}")
    w("    requires " + ", ".join(reqs))
    w("//@end")
w("}")
w("impl Model {")
for (mf, wf, ps, mut) in D:
    reqs = ["sheet == g_sheet()"]
    for (p, t) in ps:
        # the Model fn may name the parameter differently (set_row_height calls it `column`): use positional names from the table only in the stub
        pass
    w(f"//@fn base/src/model.rs Model::{mf}")
    w("//@spec")
    gl = {"i32": "g_line()", "f64": "g_f64()", "bool": "g_bool()"}
    w("    requires sheet == g_sheet(), " + ", ".join(f"{mp} == {gl[t]}" for mp, (_p, t) in zip(MP[mf], ps)))
    w("//@end")
w("}")
w("")
w("} // verus!")
w("fn main() {}")
open("/verif/units/delegates.rs", "w").write("\n".join(o) + "\n")
print("written")
