#!/usr/bin/env python3
"""Applies every behaviour-preserving refactoring under /verif/harmless/*.diff to /repo in turn and runs EVERY claimed check (quick tier).
A check may answer OK (exit 0) or UNDECIDED (exit 2: a lost anchor); exit 1 on a harmless change is a FALSE ALARM."""
import glob, json, os, subprocess, sys
# MATRIX_REPO=<scratch worktree of /repo HEAD>: patch and check THAT tree (own work directory), so /repo stays free
REPO = os.environ.get("MATRIX_REPO", "/repo")
if REPO != "/repo":
    os.environ["VERIF_REPO"] = REPO
    os.environ["VERIF_WORK"] = os.path.join(os.path.dirname(REPO.rstrip("/")), "work")
    os.makedirs(os.environ["VERIF_WORK"], exist_ok=True)
os.environ["VERIF_EVIDENCE_DIR"] = "/tmp/verif_seed_evidence"
ROOT = "/verif"
ids = [c["property_id"] for c in json.load(open(f"{ROOT}/MANIFEST.json"))["checks"]]
only = sys.argv[1:]
files_of = {}
for p in ids:
    try:
        e = json.load(open(f"{ROOT}/evidence/{p}.json"))
        files_of[p] = set(x.split("::")[0] for x in e["coverage"]["functions_under_contract"])
    except Exception:
        files_of[p] = set()
res = {}
for d in sorted(glob.glob(f"{ROOT}/harmless/*.diff")):
    name = os.path.basename(d)[:-5]
    if only and name not in only:
        continue
    subprocess.run(["git", "-C", REPO, "checkout", "--", "."], check=True)
    if REPO != "/repo":
        # follow /repo: the scratch tree is moved to /repo's current HEAD before every patch, so units and tree never drift apart
        head = subprocess.run(["git", "-C", "/repo", "rev-parse", "HEAD"], capture_output=True, text=True).stdout.strip()
        subprocess.run(["git", "-C", REPO, "checkout", "-q", "--detach", head], check=True)
    r = subprocess.run(["git", "-C", REPO, "apply", d], capture_output=True, text=True)
    if r.returncode != 0:
        res[name] = "patch does not apply"
        print(name, res[name]); continue
    # which properties to run: those whose units extract from a file the patch touches (cheap pre-filter), else all
    touched = set(l[6:].strip() for l in open(d) if l.startswith("+++ b/"))
    run_ids = [p for p in ids if touched & files_of.get(p, set())] or ids
    out = {}
    try:
        for p in run_ids:
            c = subprocess.run([f"{ROOT}/check", p], capture_output=True, text=True, cwd=ROOT)
            if c.returncode != 0:
                line = [l for l in c.stdout.splitlines() if l.startswith(("FAILED-OBLIGATION", "UNDECIDED"))]
                out[p] = (c.returncode, line[0][:200] if line else "")
    finally:
        subprocess.run(["git", "-C", REPO, "checkout", "--", "."], check=True)
    alarms = {p: v for p, v in out.items() if v[0] == 1}
    und = {p: v for p, v in out.items() if v[0] == 2}
    res[name] = dict(false_alarms=alarms, undecided=und)
    print(name, "FALSE-ALARM" if alarms else ("undecided:" + ",".join(und) if und else "ok"), " | ".join(f"{p}:{v[1][:140]}" for p, v in list(alarms.items()) + list(und.items())[:2]))
# merge into the stored results (a partial run updates its own entries only)
try:
    allres = json.load(open(f"{ROOT}/harmless/results.json"))
except Exception:
    allres = {}
allres.update(res)
json.dump(allres, open(f"{ROOT}/harmless/results.json", "w"), indent=1)
