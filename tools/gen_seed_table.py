#!/usr/bin/env python3
"""Prints a markdown summary of every stored seed (seeded/*/meta.json): per property counts and one line per seed with the obligation that caught it."""
import glob, json, os, re, collections
rows = []
for d in sorted(glob.glob("/verif/seeded/*")):
    m = json.load(open(d + "/meta.json"))
    name = os.path.basename(d)
    st = m.get("status", "not run")
    det = ""
    for p, v in (m.get("checks_run") or {}).items():
        if v.get("detail"):
            mm = re.search(r"unit=(\S+) (?:obligation=(\S+)|reason=(.{0,80}))", v["detail"])
            if mm:
                det = f"{mm.group(1)}: {mm.group(2) or mm.group(3)}"
    rows.append((name, m.get("breaks_property"), st, det))
cnt = collections.Counter()
per = collections.defaultdict(collections.Counter)
for n, p, st, d in rows:
    k = "detected" if st == "detected" else ("undecided" if st.startswith("undecided") else ("missed" if st == "missed" else st))
    cnt[k] += 1
    per[p][k] += 1
print(f"{len(rows)} seeds: " + ", ".join(f"{v} {k}" for k, v in cnt.most_common()))
print()
print("| property | seeds | detected | undecided | missed |")
print("|---|---|---|---|---|")
for p in sorted(per):
    c = per[p]
    print(f"| {p} | {sum(c.values())} | {c['detected']} | {c['undecided']} | {c['missed']} |")
print()
print("| seed | result | caught by (unit: obligation) |")
print("|---|---|---|")
for n, p, st, d in rows:
    print(f"| {n} | {st} | {d} |")
