#!/usr/bin/env python3
"""Copies confirmed seeds from /tmp/seed/out/<P>/<x>/ into /verif/seeded/<P>-<x>/ with meta.json (confirmation results from /tmp/confirm_*.log)."""
import glob, json, os, re, shutil
conf = {}
for f in glob.glob("/tmp/confirm_*.log"):
    for ln in open(f):
        ln = ln.strip()
        if ln.startswith("{"):
            try:
                d = json.loads(ln)
                conf[d["seed"]] = d
            except Exception:
                pass
for d in sorted(glob.glob("/tmp/seed/out/C*/[ab]")):
    pdir, x = d.split("/")[-2:]
    name = f"{pdir}-{x}"
    prop = re.sub(r"r\d+$", "", pdir)
    c = conf.get(name)
    if not c:
        print("no confirmation yet:", name)
        continue
    ok = c["demo_without_patch"].startswith("test result: ok") and "FAILED" in c["demo_with_patch"] and c["suite_with_patch"].startswith("test result: ok")
    if not ok:
        print("NOT a valid seed on the current tree (dropped):", name, c["demo_with_patch"][:40])
        continue
    dst = f"/verif/seeded/{name}"
    os.makedirs(dst, exist_ok=True)
    for fn in ("patch.diff", "demo.rs", "notes.md"):
        shutil.copy(os.path.join(d, fn), os.path.join(dst, fn))
    notes = open(os.path.join(d, "notes.md")).read()
    meta_p = os.path.join(dst, "meta.json")
    meta = json.load(open(meta_p)) if os.path.exists(meta_p) else {}
    meta.update(dict(seed=name, breaks_property=prop, source="independent sub-agent given only the property text and a scratch worktree",
                     needs_to_manifest=(re.search(r"(?is)(what.*?needed.*?|how it manifests.*?|input.*?needed.*?)\n(.*?)(\n#|\n\*\*|\Z)", notes) or [None, "", "see notes.md"])[2].strip()[:600] or "see notes.md",
                     confirmed_by_me=dict(how="tools/confirm_seed.sh in a scratch worktree of /repo HEAD: demo placed as base/src/test/test_seed_demo.rs",
                                          demo_without_patch=c["demo_without_patch"], demo_with_patch=c["demo_with_patch"],
                                          existing_lib_suite_with_patch=c["suite_with_patch"])))
    json.dump(meta, open(meta_p, "w"), indent=1)
    print("stored", name)
