// U-arms: each redo arm of apply_diff_list and each undo arm of apply_undo_diff_list performs exactly the engine calls
// that redo / undo of the recorded diff means (right method, right argument order, old vs new value).   (C01, C02, C03)
use vstd::prelude::*;
verus! {
// ---- context shells (D5) ----
#[verifier::external_body] pub struct Color { _o: u8 }
//@type base/src/types.rs SheetState
impl Clone for SheetState { #[verifier::external_body] fn clone(&self) -> (r: Self) ensures r == *self { unimplemented!() } }
#[verifier::external_body] pub struct Diff { _o: u8 }
impl Clone for Diff { #[verifier::external_body] fn clone(&self) -> (r: Self) ensures r == *self { unimplemented!() } }
//@type base/src/user_model/history.rs DiffList
//@type base/src/user_model/history.rs History
//@type base/src/user_model/history.rs DiffType
//@type base/src/user_model/history.rs QueueDiffs
#[verifier::external_body] pub struct Model<'a> { _p: core::marker::PhantomData<&'a u8> }
//@type base/src/user_model/common.rs UserModel
// the two fields of the deleted worksheet that the DeleteSheet undo arm reads first (D5)
pub struct WorksheetShell { pub name: String, pub sheet_id: u32 }
/// position of the sheet that was at index x after the sheet at `from` is removed and re-inserted at `to`
pub open spec fn moved_index(x: int, from: int, to: int) -> int {
    if x == from { to } else {
        let a = if x > from { x - 1 } else { x };
        if a >= to { a + 1 } else { a }
    }
}
//@fn base/src/user_model/common.rs selected_sheet_after_move
//@spec
    requires selected < 4294967295
    ensures r == moved_index(selected as int, from as int, to as int)
//@rewrite `-> u32 {` => `-> (r: u32) {`
//@end
