#!/usr/bin/env python3
"""One-off generator for units/rows.rs (the template is committed; this only saves typing)."""
def fmt(t, **kw):
    for k, v in kw.items():
        t = t.replace("{" + k + "}", v)
    return t

inv='''            invariant
                oc.len() == ROWS@.len(),
                forall|i: int| 0 <= i < it.index@ ==> ROWS@[i] == oc[i],
                forall|i: int| 0 <= i < it.index@ ==> (#[trigger] oc[i]).r != row,
                it.iter.remaining().len() + it.index@ == oc.len(),
                forall|j: int| 0 <= j < it.iter.remaining().len() ==> *#[trigger] it.iter.remaining()[j] == oc[it.index@ + j],
                forall|j: int| 0 <= j < it.iter.remaining().len() ==> *final(#[trigger] it.iter.remaining()[j]) == ROWS@[it.index@ + j],
'''
ret_proof='''                proof {
                    let k = it.index@;
                    axiom_iter_mut_dropped(&it.iter);
                    assert(it.iter.remaining().len() >= 1);
                    assert forall|j: int| k < j < oc.len() implies ROWS@[j] == oc[j] by {
                        let t = it.iter.remaining()[j - k];
                    }
                    assert(oc[k].r == row);
                    lemma_rows_update(oc, ROWS@, k, row as int);
                }
'''
hdr=open('/verif/tools/rows_hdr.rs').read()
getter='''
//@fn base/src/worksheet.rs Worksheet::{name}
//@attr
#[verifier::loop_isolation(false)]
//@spec
    requires rows_wf(self.rows@)
    ensures
        r.is_err() <==> !(1 <= row <= 1048576),
{post}
//@rewrite `{ret}` => `-> (r: {rty})`
//@after `let rows = &self.rows;`
        proof { broadcast use group_f64_total; }
//@loop 1 it
            invariant
                forall|k: int| 0 <= k < it.index@ ==> (#[trigger] rows@[k]).r != row,
//@after `if r.r == row {`
                proof { lemma_row_unique(rows@, row as int, it.index@); }
//@end
'''
s=hdr
s+=fmt(getter,name="is_row_hidden",ret="-> Result<bool, String>",rty="Result<bool, String>",
   post="        r.is_ok() ==> r.unwrap() == (if has_row(self.rows@, row as int) { row_at(self.rows@, row as int).hidden } else { false }),")
s+=fmt(getter,name="row_height",ret="-> Result<f64, String>",rty="Result<f64, String>",
   post="        r.is_ok() ==> (if !has_row(self.rows@, row as int) { r.unwrap() == constants::DEFAULT_ROW_HEIGHT } else if row_at(self.rows@, row as int).hidden { r.unwrap() == 0.0f64 } else { mul_ensures::<f64>(row_at(self.rows@, row as int).height, constants::ROW_HEIGHT_FACTOR, r.unwrap()) }),")

setter='''
//@fn base/src/worksheet.rs Worksheet::{name}
//@attr
#[verifier::loop_isolation(false)]
#[verifier::spinoff_prover]
//@spec
    requires rows_wf(old(self).rows@)
    ensures
        rows_wf(final(self).rows@),
        r.is_err() ==> final(self).rows@ =~= old(self).rows@,
{post}
//@rewrite `-> Result<(), String>` => `-> (r: Result<(), String>)`
{pre_loop}
//@loop 1 it
'''+inv+'''//@before `return Ok(());`
'''+ret_proof+'''{after}
//@end
'''
ghost_rows_mut='''//@after `let rows = &mut self.rows;`
        let ghost oc = rows@;
        proof { broadcast use group_f64_total; }'''
ghost_rows_self='''//@before `for r in self.rows.iter_mut()`
        let ghost oc = self.rows@;
        proof { broadcast use group_f64_total; }'''
R='row_at(final(self).rows@, row as int)'
O='row_at(old(self).rows@, row as int)'
s+=fmt(setter,name="set_row_style",
  post=f'''        r.is_ok(),
        rows_same_except(old(self).rows@, final(self).rows@, row as int),
        has_row(final(self).rows@, row as int),
        {R}.s == style_index && {R}.custom_format == (style_index != 0),
        has_row(old(self).rows@, row as int) ==> {R}.height == {O}.height && {R}.custom_height == {O}.custom_height && {R}.hidden == {O}.hidden,
        !has_row(old(self).rows@, row as int) ==> !{R}.custom_height && !{R}.hidden,''',
  pre_loop=ghost_rows_self,
  after='''//@before `self.rows.push(Row {`
        assert(self.rows@ =~= oc);
//@before#2 `Ok(())`
        proof { lemma_rows_push(oc, self.rows@, self.rows@[oc.len() as int]); }''').replace("ROWS@","self.rows@")
s+=fmt(setter,name="set_row_hidden",
  post=f'''        r.is_err() <==> !(1 <= row <= 1048576),
        r.is_ok() ==> rows_same_except(old(self).rows@, final(self).rows@, row as int)
            && has_row(final(self).rows@, row as int) && {R}.hidden == hidden,
        r.is_ok() && has_row(old(self).rows@, row as int) ==> {R}.height == {O}.height && {R}.custom_height == {O}.custom_height
            && {R}.s == {O}.s && {R}.custom_format == {O}.custom_format,
        r.is_ok() && !has_row(old(self).rows@, row as int) ==> !{R}.custom_height && !{R}.custom_format && {R}.s == 0,''',
  pre_loop=ghost_rows_mut,
  after='''//@before `rows.push(Row {`
        assert(rows@ =~= oc);
//@before#2 `Ok(())`
        proof { lemma_rows_push(oc, rows@, rows@[oc.len() as int]); }''').replace("ROWS@","rows@")
s+=fmt(setter,name="set_row_height",
  post=f'''        r.is_err() ==> !(1 <= row <= 1048576) || lt_ensures::<f64>(height, 0.0f64, true),
        r.is_ok() ==> 1 <= row <= 1048576 && lt_ensures::<f64>(height, 0.0f64, false),
        r.is_ok() ==> rows_same_except(old(self).rows@, final(self).rows@, row as int)
            && has_row(final(self).rows@, row as int) && {R}.custom_height
            && div_ensures::<f64>(height, constants::ROW_HEIGHT_FACTOR, {R}.height),
        r.is_ok() && has_row(old(self).rows@, row as int) ==> {R}.hidden == {O}.hidden && {R}.s == {O}.s && {R}.custom_format == {O}.custom_format,
        r.is_ok() && !has_row(old(self).rows@, row as int) ==> !{R}.hidden && !{R}.custom_format && {R}.s == 0,''',
  pre_loop=ghost_rows_mut,
  after='''//@before `rows.push(Row {`
        assert(rows@ =~= oc);
//@before#2 `Ok(())`
        proof { lemma_rows_push(oc, rows@, rows@[oc.len() as int]); }''').replace("ROWS@","rows@")
s+='''
//@fn base/src/worksheet.rs Worksheet::delete_row_style
//@spec
    requires rows_wf(old(self).rows@)
    ensures
        rows_wf(final(self).rows@), r.is_ok(),
        rows_same_except(old(self).rows@, final(self).rows@, row as int),
        has_row(final(self).rows@, row as int) == has_row(old(self).rows@, row as int),
        has_row(old(self).rows@, row as int) ==> RNEW.s == 0 && !RNEW.custom_format
            && RNEW.height == ROLD.height && RNEW.custom_height == ROLD.custom_height && RNEW.hidden == ROLD.hidden,
//@rewrite `-> Result<(), String>` => `-> (r: Result<(), String>)`
//@rewrite `let mut index = None;` => `let mut index: Option<usize> = None;`
//@rewrite `for (i, r) in self.rows.iter().enumerate() {` => `let mut __i: usize = 0; while __i < self.rows.len() { let i = __i; let r = &self.rows[__i]; __i += 1;`
//@loop 1
            invariant_except_break
                index.is_none(),
                forall|k: int| 0 <= k < __i ==> (#[trigger] self.rows@[k]).r != row,
            invariant
                __i <= self.rows@.len(), self.rows@ == old(self).rows@, rows_wf(self.rows@),
            ensures
                self.rows@ == old(self).rows@,
                index.is_some() ==> index.unwrap() < self.rows@.len() && self.rows@[index.unwrap() as int].r == row,
                index.is_none() ==> forall|k: int| 0 <= k < self.rows@.len() ==> (#[trigger] self.rows@[k]).r != row,
            decreases self.rows@.len() - __i
//@before `if let Some(i) = index {`
        let ghost oc = self.rows@;
//@before `Ok(())`
        proof {
            if index.is_some() {
                lemma_rows_update(oc, self.rows@, index.unwrap() as int, row as int);
            } else {
                lemma_rows_same(oc, row as int);
                assert(!has_row(oc, row as int));
            }
        }
//@end
'''.replace("RNEW", R).replace("ROLD", O)
s+='''}

} // verus!
fn main() {}
'''
open('/verif/units/rows.rs','w').write(s)
