// Validation-before-mutation inside the engine's structural edits: every Err exit of the validated prefix of
// insert/delete rows/columns comes BEFORE the first mutation, and move_{rows,columns}_action hand only in-grid source and
// target lines to the unchecked single-line move.   (C04, C15, C27)
use vstd::prelude::*;
verus! {
pub mod constants {
    #[allow(unused_imports)] use super::*;
//@type base/src/constants.rs LAST_COLUMN
//@type base/src/constants.rs LAST_ROW
}
pub use constants::{LAST_COLUMN, LAST_ROW};
// ---- context shells (D5) ----
#[verifier::external_body] pub struct Worksheet { _o: u8 }
#[verifier::external_body] pub struct WorkbookRest { _o: u8 }
#[verifier::external_body] pub struct ModelRest { _o: u8 }
pub struct Workbook { pub worksheets: Vec<Worksheet>, pub rest: WorkbookRest }
pub struct Model { pub workbook: Workbook, pub rest: ModelRest }
//@type base/src/worksheet.rs WorksheetDimension
pub open spec fn small(x: int) -> bool { -4194304 <= x <= 4194304 }


// ---- block moves (C15): the order in which move_{rows,columns}_action performs the single moves composes to the block permutation ----
pub open spec fn move1(x: int, m: int, d: int) -> int {
    if x == m { m + d } else if d > 0 && m < x <= m + d { x - 1 } else if d < 0 && m + d <= x < m { x + 1 } else { x }
}
/// from the statement: the block [m, m+n-1] lands d further, the lines in between shift by the block size, everything else stays
pub open spec fn moveblk(x: int, m: int, n: int, d: int) -> int {
    if m <= x <= m + n - 1 { x + d }
    else if d > 0 && m + n - 1 < x <= m + n - 1 + d { x - n }
    else if d < 0 && m + d <= x < m { x + n }
    else { x }
}
pub open spec fn apply_moves(x: int, s: Seq<(int, int)>) -> int
    decreases s.len()
{
    if s.len() == 0 { x } else { move1(apply_moves(x, s.drop_last()), s.last().0, s.last().1) }
}
/// the moves the code performs: last line first when moving forward, first line first when moving backward
pub open spec fn block_moves(m: int, n: int, d: int, j: int) -> Seq<(int, int)>
    decreases j
{
    if j <= 0 { Seq::empty() } else { block_moves(m, n, d, j - 1).push((if d > 0 { m + n - j } else { m + j - 1 }, d)) }
}
pub open spec fn partial_blk(x: int, m: int, n: int, d: int, j: int) -> int {
    if d > 0 {
        if m + n - j <= x <= m + n - 1 { x + d } else if m + n - 1 < x <= m + n - 1 + d { x - j } else { x }
    } else {
        if m <= x <= m + j - 1 { x + d } else if m + d <= x < m { x + j } else { x }
    }
}
pub proof fn lemma_block_moves(x: int, m: int, n: int, d: int, j: int)
    requires 0 <= j <= n, d != 0
    ensures apply_moves(x, block_moves(m, n, d, j)) == partial_blk(x, m, n, d, j)
    decreases j
{
    if j > 0 {
        lemma_block_moves(x, m, n, d, j - 1);
        let s = block_moves(m, n, d, j);
        assert(s.drop_last() =~= block_moves(m, n, d, j - 1));
    }
}
/// C15: after all n single moves every line sits where the block permutation of the statement puts it
pub proof fn lemma_block_move_is_permutation(x: int, m: int, n: int, d: int)
    requires n > 0, d != 0
    ensures apply_moves(x, block_moves(m, n, d, n)) == moveblk(x, m, n, d)
{
    lemma_block_moves(x, m, n, d, n);
}

impl Workbook {
    pub uninterp spec fn sheet_exists(&self, i: u32) -> bool;
    #[verifier::external_body]
    pub fn worksheet(&self, worksheet_index: u32) -> (r: Result<&Worksheet, String>)
        ensures r.is_ok() == self.sheet_exists(worksheet_index)
    { unimplemented!() }
}
impl Worksheet {
    #[verifier::external_body]
    pub fn dimension(&self) -> (r: WorksheetDimension)
        ensures 1 <= r.max_row <= 1048576, 1 <= r.max_column <= 16384
    { unimplemented!() }
}
impl Model {
// A-atomic for the first mutation; the read-only can_* pre-checks cannot change anything (&self)
//@stub base/src/model.rs Model::reset_dynamic_array_spills
    ensures r.is_err() ==> *final(self) == *old(self), final(self).moves() == old(self).moves(),
            forall|i: u32| final(self).workbook.sheet_exists(i) == old(self).workbook.sheet_exists(i)   // it never adds or removes sheets
//@end
//@stub base/src/actions.rs Model::can_insert_rows
//@end
//@stub base/src/actions.rs Model::can_insert_columns
//@end
//@stub base/src/actions.rs Model::can_delete_rows
//@end
//@stub base/src/actions.rs Model::can_delete_columns
//@end
//@stub base/src/actions.rs Model::can_move_columns_action
//@end
//@stub base/src/actions.rs Model::can_move_rows_action
//@end
// the unchecked single-line moves require what their name says the caller has checked: source and target on the grid
    /// ghost: the single-line moves performed so far, in order
    pub uninterp spec fn moves(&self) -> Seq<(int, int)>;
//@stub base/src/actions.rs Model::move_column_unchecked
    requires 1 <= column <= 16384, 1 <= column + delta <= 16384
    ensures r.is_ok() ==> final(self).moves() == old(self).moves().push((column as int, delta as int))
//@end
//@stub base/src/actions.rs Model::move_row_unchecked
    requires 1 <= row <= 1048576, 1 <= row + delta <= 1048576
    ensures r.is_ok() ==> final(self).moves() == old(self).moves().push((row as int, delta as int))
//@end

pub fn insert_rows_validated_prefix(&mut self, sheet: u32, row: i32, row_count: i32) -> (r: Result<(), String>)
    requires small(row_count as int), small(row as int)
    ensures r.is_err() ==> *final(self) == *old(self),
        // the inserted block lies on the sheet: it is exactly what the undo (delete_rows of the same block) accepts (C01)
        r.is_ok() ==> row_count > 0 && 1 <= row && row + row_count - 1 <= 1048576,
{
//@fragment base/src/actions.rs Model::insert_rows `if row_count <= 0 {` .. `let worksheet = &self.workbook.worksheet(sheet)?;`
//@end
    Ok(())
}
pub fn insert_columns_validated_prefix(&mut self, sheet: u32, column: i32, column_count: i32) -> (r: Result<(), String>)
    requires small(column_count as int), small(column as int)
    ensures r.is_err() ==> *final(self) == *old(self),
        r.is_ok() ==> column_count > 0 && 1 <= column && column + column_count - 1 <= 16384,
{
//@fragment base/src/actions.rs Model::insert_columns `if column_count <= 0 {` .. `let worksheet = self.workbook.worksheet(sheet)?;`
//@end
    Ok(())
}
pub fn delete_rows_validated_prefix(&mut self, sheet: u32, row: i32, row_count: i32) -> (r: Result<(), String>)
    requires small(row_count as int), small(row as int)
    ensures
        r.is_err() ==> *final(self) == *old(self),
        // the band handed to the rest of the function lies on the grid
        r.is_ok() ==> row_count > 0 && 1 <= row && row + row_count - 1 <= 1048576,
{
//@fragment base/src/actions.rs Model::delete_rows `if row_count <= 0 {` .. `self.reset_dynamic_array_spills(sheet)?;`
//@end
    Ok(())
}
pub fn delete_columns_validated_prefix(&mut self, sheet: u32, column: i32, column_count: i32) -> (r: Result<(), String>)
    requires small(column_count as int), small(column as int)
    ensures
        r.is_err() ==> *final(self) == *old(self),
        r.is_ok() ==> column_count > 0 && 1 <= column && column + column_count - 1 <= 16384,
{
//@fragment base/src/actions.rs Model::delete_columns `if column_count <= 0 {` .. `self.reset_dynamic_array_spills(sheet)?;`
//@end
    Ok(())
}

//@fn base/src/actions.rs Model::move_columns_action
//@attr
#[verifier::loop_isolation(false)]
//@spec
    requires small(column as int), small(column_count as int), small(delta as int)
    ensures r.is_ok() && column_count > 0 && delta != 0 ==> final(self).moves() =~= old(self).moves() + block_moves(column as int, column_count as int, delta as int, column_count as int)
//@loop 1 it
                invariant self.moves() =~= old(self).moves() + block_moves(column as int, column_count as int, delta as int, it.index@)
//@loop 2 it
                invariant self.moves() =~= old(self).moves() + block_moves(column as int, column_count as int, delta as int, it.index@)
//@rewrite `) -> Result<(), String> {` => `) -> (r: Result<(), String>) {`
//@end
//@fn base/src/actions.rs Model::move_rows_action
//@attr
#[verifier::loop_isolation(false)]
//@spec
    requires small(row as int), small(row_count as int), small(delta as int)
    ensures r.is_ok() && row_count > 0 && delta != 0 ==> final(self).moves() =~= old(self).moves() + block_moves(row as int, row_count as int, delta as int, row_count as int)
//@loop 1 it
                invariant self.moves() =~= old(self).moves() + block_moves(row as int, row_count as int, delta as int, it.index@)
//@loop 2 it
                invariant self.moves() =~= old(self).moves() + block_moves(row as int, row_count as int, delta as int, it.index@)
//@rewrite `) -> Result<(), String> {` => `) -> (r: Result<(), String>) {`
//@end
    #[verifier::external_body]
    pub fn reset_parsed_structures(&mut self) ensures final(self).workbook == old(self).workbook { unimplemented!() }

// sheet deletion / move in the engine: validation first, then exactly one sheet is removed / re-positioned (every other sheet, hence
// every sheet id, is kept: C27), and an Err leaves the sheet list alone (C04)
//@fn base/src/new_empty.rs Model::delete_sheet
//@spec
    ensures
        r.is_err() ==> final(self).workbook == old(self).workbook,
        r.is_ok() ==> old(self).workbook.worksheets@.len() > 1 && sheet_index < old(self).workbook.worksheets@.len()
            && final(self).workbook.worksheets@ =~= old(self).workbook.worksheets@.remove(sheet_index as int),
//@rewrite `-> Result<(), String> {` => `-> (r: Result<(), String>) {`
//@end
//@fn base/src/new_empty.rs Model::move_sheet
//@spec
    ensures
        r.is_err() ==> final(self).workbook == old(self).workbook,
        r.is_ok() ==> sheet_index < old(self).workbook.worksheets@.len() && new_index < old(self).workbook.worksheets@.len()
            && (sheet_index == new_index ==> final(self).workbook.worksheets@ =~= old(self).workbook.worksheets@)
            && (sheet_index != new_index ==> final(self).workbook.worksheets@ =~= old(self).workbook.worksheets@.remove(sheet_index as int).insert(new_index as int, old(self).workbook.worksheets@[sheet_index as int])),
//@rewrite `-> Result<(), String> {` => `-> (r: Result<(), String>) {`
//@end
}

} // verus!
fn main() {}
