// Validation-before-mutation inside the engine's structural edits: every Err exit of the validated prefix of
// insert/delete rows/columns comes BEFORE the first mutation, and move_{rows,columns}_action hand only in-grid source and
// target lines to the unchecked single-line move.   (C04, C15, C27)
use vstd::prelude::*;
verus! {
pub mod constants {
    #[allow(unused_imports)] use super::*;
//@type base/src/constants.rs LAST_COLUMN
//@type base/src/constants.rs LAST_ROW
}
pub use constants::{LAST_COLUMN, LAST_ROW};
// ---- context shells (D5) ----
#[verifier::external_body] pub struct Worksheet { _o: u8 }
#[verifier::external_body] pub struct WorkbookRest { _o: u8 }
#[verifier::external_body] pub struct ModelRest { _o: u8 }
pub struct Workbook { pub rest: WorkbookRest }
pub struct Model { pub workbook: Workbook, pub rest: ModelRest }
//@type base/src/worksheet.rs WorksheetDimension
pub open spec fn small(x: int) -> bool { -4194304 <= x <= 4194304 }

impl Workbook {
    pub uninterp spec fn sheet_exists(&self, i: u32) -> bool;
    #[verifier::external_body]
    pub fn worksheet(&self, worksheet_index: u32) -> (r: Result<&Worksheet, String>)
        ensures r.is_ok() == self.sheet_exists(worksheet_index)
    { unimplemented!() }
}
impl Worksheet {
    #[verifier::external_body]
    pub fn dimension(&self) -> (r: WorksheetDimension)
        ensures 1 <= r.max_row <= 1048576, 1 <= r.max_column <= 16384
    { unimplemented!() }
}
impl Model {
// A-atomic for the first mutation; the read-only can_* pre-checks cannot change anything (&self)
//@stub base/src/model.rs Model::reset_dynamic_array_spills
    ensures r.is_err() ==> *final(self) == *old(self),
            forall|i: u32| final(self).workbook.sheet_exists(i) == old(self).workbook.sheet_exists(i)   // it never adds or removes sheets
//@end
//@stub base/src/actions.rs Model::can_insert_rows
//@end
//@stub base/src/actions.rs Model::can_insert_columns
//@end
//@stub base/src/actions.rs Model::can_delete_rows
//@end
//@stub base/src/actions.rs Model::can_delete_columns
//@end
//@stub base/src/actions.rs Model::can_move_columns_action
//@end
//@stub base/src/actions.rs Model::can_move_rows_action
//@end
// the unchecked single-line moves require what their name says the caller has checked: source and target on the grid
//@stub base/src/actions.rs Model::move_column_unchecked
    requires 1 <= column <= 16384, 1 <= column + delta <= 16384
//@end
//@stub base/src/actions.rs Model::move_row_unchecked
    requires 1 <= row <= 1048576, 1 <= row + delta <= 1048576
//@end

pub fn insert_rows_validated_prefix(&mut self, sheet: u32, row: i32, row_count: i32) -> (r: Result<(), String>)
    requires small(row_count as int)
    ensures r.is_err() ==> *final(self) == *old(self)
{
//@fragment base/src/actions.rs Model::insert_rows `if row_count <= 0 {` .. `let worksheet = &self.workbook.worksheet(sheet)?;`
//@end
    Ok(())
}
pub fn insert_columns_validated_prefix(&mut self, sheet: u32, column: i32, column_count: i32) -> (r: Result<(), String>)
    requires small(column_count as int)
    ensures r.is_err() ==> *final(self) == *old(self)
{
//@fragment base/src/actions.rs Model::insert_columns `if column_count <= 0 {` .. `let worksheet = self.workbook.worksheet(sheet)?;`
//@end
    Ok(())
}
pub fn delete_rows_validated_prefix(&mut self, sheet: u32, row: i32, row_count: i32) -> (r: Result<(), String>)
    requires small(row_count as int), small(row as int)
    ensures
        r.is_err() ==> *final(self) == *old(self),
        // the band handed to the rest of the function lies on the grid
        r.is_ok() ==> row_count > 0 && 1 <= row && row + row_count - 1 <= 1048576,
{
//@fragment base/src/actions.rs Model::delete_rows `if row_count <= 0 {` .. `self.reset_dynamic_array_spills(sheet)?;`
//@end
    Ok(())
}
pub fn delete_columns_validated_prefix(&mut self, sheet: u32, column: i32, column_count: i32) -> (r: Result<(), String>)
    requires small(column_count as int), small(column as int)
    ensures
        r.is_err() ==> *final(self) == *old(self),
        r.is_ok() ==> column_count > 0 && 1 <= column && column + column_count - 1 <= 16384,
{
//@fragment base/src/actions.rs Model::delete_columns `if column_count <= 0 {` .. `self.reset_dynamic_array_spills(sheet)?;`
//@end
    Ok(())
}

//@fn base/src/actions.rs Model::move_columns_action
//@attr
#[verifier::loop_isolation(false)]
//@spec
    requires small(column as int), small(column_count as int), small(delta as int)
//@rewrite `) -> Result<(), String> {` => `) -> (r: Result<(), String>) {`
//@end
//@fn base/src/actions.rs Model::move_rows_action
//@attr
#[verifier::loop_isolation(false)]
//@spec
    requires small(row as int), small(row_count as int), small(delta as int)
//@rewrite `) -> Result<(), String> {` => `) -> (r: Result<(), String>) {`
//@end
}

} // verus!
fn main() {}
