// Model::rename_sheet_by_index (whole function): validation comes before any mutation; every stored formula is re-parsed in
// the context of the sheet it lives on UNDER ITS OLD NAME and rewritten by rename_sheet_in_node with (sheet_index, new_name);
// only then does the sheet get its new name.   (C17, C04)
use vstd::prelude::*;
use vstd::std_specs::iter::IteratorSpec;
verus! {
//@include std_iter.rs
#[verifier::external_body] pub struct Node { _o: u8 }
#[verifier::external_body] pub struct Locale { _o: u8 }
#[verifier::external_body] pub struct Language { _o: u8 }
#[verifier::external_body] pub struct WorksheetRest { _o: u8 }
#[verifier::external_body] pub struct WorkbookRest { _o: u8 }
#[verifier::external_body] pub struct ModelRest { _o: u8 }
#[verifier::external_body] pub struct Parser { _o: u8 }
pub enum LexerMode { A1, R1C1 }
//@type base/src/expressions/types.rs CellReferenceRC
//@type base/src/types.rs DefinedName
pub struct Worksheet { pub shared_formulas: Vec<String>, pub rest: WorksheetRest }
pub struct Workbook { pub worksheets: Vec<Worksheet>, pub defined_names: Vec<DefinedName>, pub rest: WorkbookRest }
pub struct Model<'a> { pub workbook: Workbook, pub parser: Parser, pub locale: &'a Locale, pub language: &'a Language, pub rest: ModelRest }

pub uninterp spec fn rest_name(r: WorksheetRest) -> Seq<char>;
/// the names the sheets had when the operation started
pub uninterp spec fn g_old_names() -> Seq<Seq<char>>;
pub uninterp spec fn g_index() -> u32;
pub uninterp spec fn g_new_name() -> Seq<char>;
pub open spec fn is_old_name(s: Seq<char>) -> bool { exists|i: int| 0 <= i < g_old_names().len() && #[trigger] g_old_names()[i] == s }

impl Worksheet {
    pub open spec fn wname(&self) -> Seq<char> { rest_name(self.rest) }
    #[verifier::external_body]
    pub fn get_name(&self) -> (r: String) ensures r@ == self.wname() { unimplemented!() }
    #[verifier::external_body]
    pub fn set_name(&mut self, name: &str)
        ensures final(self).wname() == name@, final(self).shared_formulas == old(self).shared_formulas
    { unimplemented!() }
}
impl Workbook {
    #[verifier::external_body]
    pub fn worksheet(&self, worksheet_index: u32) -> (r: Result<&Worksheet, String>)
        ensures r.is_ok() ==> worksheet_index < self.worksheets@.len() && *r.unwrap() == self.worksheets@[worksheet_index as int]
    { unimplemented!() }
    #[verifier::external_body]
    pub fn worksheet_mut(&mut self, worksheet_index: u32) -> (r: Result<&mut Worksheet, String>)
        requires worksheet_index == g_index()      // the only sheet that is renamed is the one asked for
        ensures r.is_ok() <==> worksheet_index < old(self).worksheets@.len()
    { unimplemented!() }
}
pub uninterp spec fn english_locale() -> &'static Locale;
pub uninterp spec fn english_language() -> &'static Language;
#[verifier::external_body] pub fn get_default_locale() -> (r: &'static Locale) ensures r == english_locale() { unimplemented!() }
#[verifier::external_body] pub fn get_default_language() -> (r: &'static Language) ensures r == english_language() { unimplemented!() }
impl Parser {
    /// the locale / language the parser is set to
    pub uninterp spec fn loc(&self) -> &Locale;
    pub uninterp spec fn lang(&self) -> &Language;
    #[verifier::external_body]
    pub fn set_lexer_mode(&mut self, mode: LexerMode) ensures final(self).loc() == old(self).loc(), final(self).lang() == old(self).lang() { unimplemented!() }
    #[verifier::external_body]
    pub fn set_locale(&mut self, locale: &Locale) ensures final(self).loc() == locale, final(self).lang() == old(self).lang() { unimplemented!() }
    #[verifier::external_body]
    pub fn set_language(&mut self, language: &Language) ensures final(self).lang() == language, final(self).loc() == old(self).loc() { unimplemented!() }
    // every stored formula is parsed in the context of a sheet UNDER ITS OLD NAME, by a parser set to the ENGLISH locale and language (C10: stored
    // formulas are English whatever the display language is)
    #[verifier::external_body]
    pub fn parse(&mut self, formula: &str, context: &CellReferenceRC) -> (r: Node)
        requires is_old_name(context.sheet@), old(self).loc() == english_locale(), old(self).lang() == english_language()
        ensures final(self).loc() == old(self).loc(), final(self).lang() == old(self).lang()
    { unimplemented!() }
}
#[verifier::external_body] pub fn to_english_string(node: &Node, context: &CellReferenceRC) -> String { unimplemented!() }
#[verifier::external_body]
pub fn rename_sheet_in_node(node: &mut Node, sheet_index: u32, new_name: &str)
    requires sheet_index == g_index(), new_name@ == g_new_name()
{ unimplemented!() }
#[verifier::external_body] pub fn to_rc_format(node: &Node) -> String { unimplemented!() }
#[verifier::external_body] pub fn to_localized_string(node: &Node, context: &CellReferenceRC, locale: &Locale, language: &Language) -> String { unimplemented!() }
#[verifier::external_body] pub fn is_valid_sheet_name(name: &str) -> bool { unimplemented!() }

impl<'a> Model<'a> {
    #[verifier::external_body] pub fn get_sheet_index_by_name(&self, name: &str) -> Option<u32> { unimplemented!() }
    #[verifier::external_body] pub fn reset_parsed_structures(&mut self) ensures final(self).workbook == old(self).workbook, final(self).parser.loc() == old(self).parser.loc(), final(self).parser.lang() == old(self).parser.lang() { unimplemented!() }

//@fn base/src/new_empty.rs Model::rename_sheet_by_index
//@attr
#[verifier::loop_isolation(false)]
#[verifier::exec_allows_no_decreases_clause]
//@spec
    requires
        sheet_index == g_index(), new_name@ == g_new_name(),
        old(self).workbook.worksheets@.len() == g_old_names().len(),
        forall|i: int| 0 <= i < old(self).workbook.worksheets@.len() ==> (#[trigger] old(self).workbook.worksheets@[i]).wname() == g_old_names()[i],
    ensures
        // C04: nothing is touched when the request is refused
        r.is_err() ==> final(self).workbook == old(self).workbook,
        // the parser is handed back set to the model's own locale and language
        r.is_ok() ==> final(self).parser.loc() == old(self).locale && final(self).parser.lang() == old(self).language,
//@rewrite `) -> Result<(), String> {` => `) -> (r: Result<(), String>) {`
//@rewrite `for worksheet in &mut self.workbook.worksheets {` => `for worksheet in self.workbook.worksheets.iter_mut() {`
//@before `for worksheet in self.workbook.worksheets.iter_mut() {`
        let ghost oc = self.workbook.worksheets@;
        assert(is_old_name(old_name@)) by { assert(g_old_names()[sheet_index as int] == old_name@); }
//@loop 1 it
            invariant
                self.parser.loc() == english_locale(), self.parser.lang() == english_language(),
                oc.len() == self.workbook.worksheets@.len(),
                it.iter.remaining().len() + it.index@ == oc.len(),
                forall|j: int| 0 <= j < it.iter.remaining().len() ==> *#[trigger] it.iter.remaining()[j] == oc[it.index@ + j],
//@loop 2
                invariant self.parser.loc() == english_locale(), self.parser.lang() == english_language(),
//@loop 3
            invariant self.parser.loc() == english_locale(), self.parser.lang() == english_language(),
//@before#1 `let cell_reference = &CellReferenceRC {`
            assert(it.iter.remaining().len() >= 1);
            assert(*worksheet == oc[it.index@]);
            assert(is_old_name(worksheet.wname())) by { assert(g_old_names()[it.index@] == worksheet.wname()); }
//@end
}

} // verus!
fn main() {}
