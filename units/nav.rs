// Keyboard navigation: the row/column an arrow key selects lies on the grid (hidden lines are skipped, and running off the
// grid selects nothing).   (C28)
use vstd::prelude::*;
verus! {
pub mod constants {
    #[allow(unused_imports)] use super::*;
//@type base/src/constants.rs LAST_COLUMN
//@type base/src/constants.rs LAST_ROW
}
pub use constants::{LAST_COLUMN, LAST_ROW};
//@type base/src/types.rs WorksheetView
//@fn base/src/expressions/utils/mod.rs is_valid_column_number
//@spec
    ensures r == (1 <= column <= 16384)
//@rewrite `-> bool` => `-> (r: bool)`
//@end
//@fn base/src/expressions/utils/mod.rs is_valid_row
//@spec
    ensures r == (1 <= row <= 1048576)
//@rewrite `-> bool` => `-> (r: bool)`
//@end
// ---- context shells (D5) ----
#[verifier::external_body] pub struct Worksheet { _o: u8 }
#[verifier::external_body] pub struct WorkbookRest { _o: u8 }
#[verifier::external_body] pub struct ModelRest { _o: u8 }
pub struct Workbook { pub rest: WorkbookRest }
pub struct Model { pub workbook: Workbook, pub rest: ModelRest }
pub struct UserModel { pub model: Model }
impl Workbook {
    #[verifier::external_body]
    pub fn worksheet(&self, worksheet_index: u32) -> (r: Result<&Worksheet, String>) { unimplemented!() }
}
impl Worksheet {
//@stub base/src/worksheet.rs Worksheet::is_row_hidden
//@end
//@stub base/src/worksheet.rs Worksheet::is_column_hidden
//@end
}
pub open spec fn on_grid(view: &WorksheetView) -> bool { 1 <= view.row <= 1048576 && 1 <= view.column <= 16384 }

impl UserModel {

/// on_arrow_right: the line that gets selected (None: nothing is selected, the selection stays where it was)
pub fn on_arrow_right_target(&self, sheet: u32, view: &WorksheetView) -> (r: Result<Option<i32>, String>)
    requires on_grid(view)
    ensures r matches Ok(Some(x)) ==> 1 <= x <= 16384
{
//@fragment base/src/user_model/ui.rs UserModel::on_arrow_right `let mut new_column = view.column + 1;` ..< `// if the `
//@loop 1
            invariant 0 <= new_column <= 16384 + 1
            decreases 16385 - new_column
//@rewrite `return Ok(());` => `return Ok(None);`
//@end
    Ok(Some(new_column))
}

/// on_arrow_left: the line that gets selected (None: nothing is selected, the selection stays where it was)
pub fn on_arrow_left_target(&self, sheet: u32, view: &WorksheetView) -> (r: Result<Option<i32>, String>)
    requires on_grid(view)
    ensures r matches Ok(Some(x)) ==> 1 <= x <= 16384
{
//@fragment base/src/user_model/ui.rs UserModel::on_arrow_left `let mut new_column = view.column - 1;` ..< `// if the `
//@loop 1
            invariant 0 <= new_column <= 16384 + 1
            decreases new_column
//@rewrite `return Ok(());` => `return Ok(None);`
//@end
    Ok(Some(new_column))
}

/// on_arrow_up: the line that gets selected (None: nothing is selected, the selection stays where it was)
pub fn on_arrow_up_target(&self, sheet: u32, view: &WorksheetView) -> (r: Result<Option<i32>, String>)
    requires on_grid(view)
    ensures r matches Ok(Some(x)) ==> 1 <= x <= 1048576
{
//@fragment base/src/user_model/ui.rs UserModel::on_arrow_up `let mut new_row = view.row - 1;` ..< `// if the `
//@loop 1
            invariant 0 <= new_row <= 1048576 + 1
            decreases new_row
//@rewrite `return Ok(());` => `return Ok(None);`
//@end
    Ok(Some(new_row))
}

/// on_arrow_down: the line that gets selected (None: nothing is selected, the selection stays where it was)
pub fn on_arrow_down_target(&self, sheet: u32, view: &WorksheetView) -> (r: Result<Option<i32>, String>)
    requires on_grid(view)
    ensures r matches Ok(Some(x)) ==> 1 <= x <= 1048576
{
//@fragment base/src/user_model/ui.rs UserModel::on_arrow_down `let mut new_row = view.row + 1;` ..< `// if the `
//@loop 1
            invariant 0 <= new_row <= 1048576 + 1
            decreases 1048577 - new_row
//@rewrite `return Ok(());` => `return Ok(None);`
//@end
    Ok(Some(new_row))
}
}

} // verus!
fn main() {}
