// Typing a value over a cell (C18): in Model::set_user_input a value that does not start with a quote is stored with the cell's style WITHOUT the quote
// prefix — the same style in every branch of the recognition cascade (boolean, error value, text) — so a boolean typed over quote-prefixed text is not shown
// with a leading quote and re-entering what the editor shows keeps its type.  Fragments of set_user_input, verbatim.
use vstd::prelude::*;
verus! {
#[verifier::external_body] pub struct WorksheetRest { _o: u8 }
#[verifier::external_body] pub struct ModelRest { _o: u8 }
#[verifier::external_body] pub struct Language { _o: u8 }
#[verifier::external_body] pub struct Error { _o: u8 }
pub struct Worksheet { pub rest: WorksheetRest }
pub struct Styles { pub rest: ModelRest }
pub struct Workbook { pub styles: Styles, pub ws: Worksheet }
pub struct Model<'a> { pub workbook: Workbook, pub language: &'a Language, pub rest: ModelRest }
pub assume_specification [str::to_uppercase] (s: &str) -> (r: String);
/// "the style this value must be stored with": uninterpreted, so a setter can only be called with the very index the head fragment computed
pub uninterp spec fn g_style() -> i32;
pub uninterp spec fn quote_prefixed(s: Styles, i: i32) -> bool;
impl Styles {
    #[verifier::external_body] pub fn style_is_quote_prefix(&self, i: i32) -> (r: bool) ensures r == quote_prefixed(*self, i) { unimplemented!() }
    #[verifier::external_body] pub fn get_style_without_quote_prefix(&mut self, i: i32) -> (r: Result<i32, String>)
        ensures r matches Ok(j) ==> !quote_prefixed(*final(self), j)
    { unimplemented!() }
}
pub struct Style { pub num_fmt: String, pub rest: WorksheetRest }
pub uninterp spec fn date_like(fmt: Seq<char>) -> bool;
pub uninterp spec fn fmt_of(s: Styles, i: i32) -> Seq<char>;
pub uninterp spec fn with_format(i: i32, fmt: Seq<char>) -> i32;
pub uninterp spec fn g_num_style() -> i32;
#[verifier::external_body] pub fn is_likely_date_number_format(format: &str) -> (r: bool) ensures r == date_like(format@) { unimplemented!() }
impl Styles {
    #[verifier::external_body] pub fn get_style(&self, i: i32) -> (r: Result<Style, String>) ensures r matches Ok(st) ==> st.num_fmt@ == fmt_of(*self, i) { unimplemented!() }
    #[verifier::external_body] pub fn get_style_with_format(&mut self, i: i32, fmt: &str) -> (r: Result<i32, String>)
        ensures r matches Ok(j) ==> j == with_format(i, fmt@) { unimplemented!() }
}
impl Worksheet {
    #[verifier::external_body] pub fn set_cell_with_number(&mut self, row: i32, column: i32, v: f64, style: i32) -> (r: Result<(), String>) requires style == g_num_style() { unimplemented!() }
    #[verifier::external_body] pub fn set_cell_with_boolean(&mut self, row: i32, column: i32, v: bool, style: i32) -> (r: Result<(), String>) requires style == g_style() { unimplemented!() }
    #[verifier::external_body] pub fn set_cell_with_error(&mut self, row: i32, column: i32, e: Error, style: i32) -> (r: Result<(), String>) requires style == g_style() { unimplemented!() }
}
impl Workbook {
    #[verifier::external_body] pub fn worksheet_mut(&mut self, sheet: u32) -> (r: Result<&mut Worksheet, String>) { unimplemented!() }
}
#[verifier::external_body] pub fn get_error_by_name(name: &str, language: &Language) -> Option<Error> { unimplemented!() }
impl<'a> Model<'a> {
    #[verifier::external_body] fn parse_boolean(&self, value: &str) -> Option<bool> { unimplemented!() }
    #[verifier::external_body] fn set_cell_with_string(&mut self, sheet: u32, row: i32, column: i32, value: &str, style: i32) -> (r: Result<(), String>) requires style == g_style() { unimplemented!() }
    #[verifier::external_body] fn auto_link_cell(&mut self, sheet: u32, row: i32, column: i32, value: &str) -> (r: Result<(), String>) { unimplemented!() }

    /// the style a typed (not quote-prefixed) value is stored with: the cell's style without the quote prefix
    pub fn entry_style(&mut self, style_index: i32) -> (r: Result<i32, String>)
        ensures r matches Ok(j) ==> !quote_prefixed(final(self).workbook.styles, j) || (j == style_index && !quote_prefixed(old(self).workbook.styles, style_index))
    {
//@fragment base/src/model.rs Model::set_user_input `let mut new_style_index = style_index;` ..< `if let Some(formula) = self.formula_without_prefix(&value) {`
//@end
        Ok(new_style_index)
    }
    /// the number branch: the recognised format (percent, currency, grouped, exponent, date) is applied to the cell's style — except that a date typed into
    /// a cell that already shows dates keeps the cell's own date format (C19: "get a format of that kind"; C18: re-entering a date keeps its format)
    pub fn entry_number(&mut self, sheet: u32, row: i32, column: i32, v: f64, number_format: Option<String>, new_style_index0: i32) -> (r: Result<(), String>)
        requires g_num_style() == (match number_format {
            None => new_style_index0,
            Some(f) => if date_like(fmt_of(old(self).workbook.styles, new_style_index0)) && date_like(f@) { new_style_index0 } else { with_format(new_style_index0, f@) },
        })
    {
        let mut new_style_index = new_style_index0;
//@fragment base/src/model.rs Model::set_user_input `if let Some(num_fmt) = number_format {` .. `worksheet.set_cell_with_number(row, column, v, new_style_index)?;`
//@end
        Ok(())
    }
    /// the tail of the cascade: boolean, error value, text — every branch stores with new_style_index
    pub fn entry_tail(&mut self, sheet: u32, row: i32, column: i32, value: String, style_index: i32, new_style_index: i32) -> (r: Result<(), String>)
        requires new_style_index == g_style()
    {
//@fragment base/src/model.rs Model::set_user_input `if let Some(v) = self.parse_boolean(&value) {` .. `self.auto_link_cell(sheet, row, column, &value)?;`
//@end
        Ok(())
    }
}
} // verus!
fn main() {}
