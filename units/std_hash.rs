// ---- std_hash.rs: assumed specification of HashMap::get_mut (vstd has none for the hash map; its BTreeMap one has this shape) ----
// Documented std behaviour: Some(&mut v) iff the key is present, v is the stored value, and when the borrow ends the map is the
// old map with that one key re-bound to the final value of v; None leaves the map alone.   (needs #![feature(allocator_api)])
pub uninterp spec fn hm_mutated<K, V, Q: ?Sized>(a: Map<K, V>, b: Map<K, V>, k: &Q, v: V) -> bool;
#[verifier::external_body]
pub broadcast proof fn axiom_hm_mutated_deref<K, V>(a: Map<K, V>, b: Map<K, V>, k: &K, v: V)
    ensures #[trigger] hm_mutated::<K, V, K>(a, b, k, v) == (b == a.insert(*k, v))
{}
pub assume_specification<'a, K, V, S, A, Q> [std::collections::HashMap::<K, V, S, A>::get_mut] (m: &'a mut std::collections::HashMap<K, V, S, A>, k: &Q) -> (r: std::option::Option<&'a mut V>)
    where
    A: std::alloc::Allocator,
    K: std::cmp::Eq + std::hash::Hash + std::borrow::Borrow<Q>,
    Q: std::marker::MetaSized + std::hash::Hash + std::cmp::Eq + ?Sized,
    S: std::hash::BuildHasher,
    ensures
        obeys_key_model::<K>() && builds_valid_hashers::<S>() ==> match r {
            Some(v) => contains_borrowed_key(old(m)@, k) && maps_borrowed_key_to_value(old(m)@, k, *v) && hm_mutated(old(m)@, final(m)@, k, *final(v)),
            None => !contains_borrowed_key(old(m)@, k) && final(m)@ == old(m)@,
        };
