// ---- std_text.rs: byte-offset slicing of text (trusted base, R3).  `s[a..b]` on a str/String panics unless both offsets are char
// boundaries (and a <= b <= len).  Verus has no byte model of str, so "offset i is a char boundary of s" is the uninterpreted
// predicate text_boundary; it is ESTABLISHED only by the shims below (documented std facts) and REQUIRED by every slice.
pub uninterp spec fn text_boundary(s: Seq<char>, i: int) -> bool;
/// offsets 0 is always a boundary (std: is_char_boundary(0) == true)
#[verifier::external_body]
pub broadcast proof fn axiom_text_boundary_zero(s: Seq<char>) ensures #[trigger] text_boundary(s, 0) {}
#[verifier::external_body]
pub fn text_slice_from<'a>(s: &'a str, a: usize) -> (r: &'a str) requires text_boundary(s@, a as int) { &s[a..] }
#[verifier::external_body]
pub fn text_slice_to<'a>(s: &'a str, b: usize) -> (r: &'a str) requires text_boundary(s@, b as int) { &s[..b] }
#[verifier::external_body]
pub fn text_slice<'a>(s: &'a str, a: usize, b: usize) -> (r: &'a str) requires text_boundary(s@, a as int), text_boundary(s@, b as int), a <= b { &s[a..b] }
/// str::starts_with(prefix): when it holds, the prefix occupies the first prefix.len() bytes; an ASCII prefix has one byte per char
#[verifier::external_body]
pub fn text_starts_with(s: &str, p: &str) -> (r: bool) ensures r && p.is_ascii() ==> text_boundary(s@, p@.len() as int) { s.starts_with(p) }
// total std functions of text (no panic for any argument; results unspecified)
pub assume_specification [str::trim] (s: &str) -> (r: &str);
pub assume_specification [str::to_lowercase] (s: &str) -> (r: String);
pub assume_specification [str::to_uppercase] (s: &str) -> (r: String);
pub assume_specification [str::eq_ignore_ascii_case] (s: &str, o: &str) -> (r: bool);
pub assume_specification [String::len] (s: &String) -> (r: usize);
pub trait VerifParse { fn verif_parse_i32(&self) -> Result<i32, ()>; }
impl VerifParse for str { #[verifier::external_body] fn verif_parse_i32(&self) -> Result<i32, ()> { self.parse::<i32>().map_err(|_| ()) } }
