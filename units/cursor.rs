// Formula completion: the text handed to the parser is the first `cursor` CHARACTERS of the formula; `cursor` is a character
// offset, so it must never be used as a byte offset into the text.   (C11)
use vstd::prelude::*;
verus! {
//@include std_text.rs
/// `formula.chars().take(cursor).collect()`: total for every text and every cursor (iterator adapters are outside Verus)
#[verifier::external_body]
pub fn shim_take_chars(formula: &str, cursor: usize) -> (r: String)
    ensures r@ =~= formula@.take(if cursor <= formula@.len() { cursor as int } else { formula@.len() as int })
{ formula.chars().take(cursor).collect() }

pub fn parse_at_cursor_head(formula: &str, cursor: usize)
{
//@fragment base/src/expressions/parser/mod.rs Parser::parse_at_cursor `let head` ..< `let node = self.parse(`
//@strslice formula str
//@rewrite* `formula.chars().take(cursor).collect()` => `shim_take_chars(formula, cursor)`
//@end
    // what the parser is given is a prefix of the formula, cut at a CHARACTER position
    assert(head@ =~= formula@.take(if cursor <= formula@.len() { cursor as int } else { formula@.len() as int }));
}
} // verus!
fn main() {}
