// The formula lexer's error-name scanner (consume_error) in every language: whatever error it answers, that error's LOCALIZED name was
// really there, and the token covers exactly the characters of the name — not its bytes (C23: localized error names read back as the same
// error, also when more input follows); the cursor stays inside the text (C11).
use vstd::prelude::*;
verus! {
#[verifier::external_body] pub struct Locale { _o: u8 }
#[verifier::external_body] pub struct LanguageRest { _o: u8 }
#[verifier::external_body] pub struct LexerMode { _o: u8 }
//@type base/src/language/mod.rs Errors
pub struct Language { pub errors: Errors, pub rest: LanguageRest }      // context shell (D5)
//@type base/src/expressions/token.rs Error
pub enum TokenType { Error(Error), Spill, Other }                          // context shell (D5): the two answers of consume_error
//@type base/src/expressions/lexer/mod.rs LexerError
//@type base/src/expressions/lexer/mod.rs Lexer
pub assume_specification [String::len] (s: &String) -> (r: usize);          // BYTES: unrelated to the number of characters
pub open spec fn is_prefix(p: Seq<char>, s: Seq<char>) -> bool { p.len() <= s.len() && s.subrange(0, p.len() as int) =~= p }
/// `self.chars[a..b].iter().collect::<String>()`
#[verifier::external_body]
pub fn shim_string(cs: &[char]) -> (r: String) ensures r@ == cs@ { cs.iter().collect() }
/// `text.starts_with(&name)` for two Strings
#[verifier::external_body]
pub fn text_starts_with(s: &String, p: &String) -> (r: bool) ensures r == is_prefix(p@, s@) { s.starts_with(p.as_str()) }
/// `name.chars().count()`: the number of characters
#[verifier::external_body]
pub fn char_count(s: &String) -> (r: usize) ensures r == s@.len() { s.chars().count() }

/// the localized name of an error kind
pub open spec fn name_of(e: Errors, k: Error) -> Seq<char> {
    match k {
        Error::REF => e.r#ref@, Error::NAME => e.name@, Error::VALUE => e.value@, Error::DIV => e.div@, Error::NA => e.na@, Error::NUM => e.num@,
        Error::ERROR => e.error@, Error::NIMPL => e.nimpl@, Error::SPILL => e.spill@, Error::CALC => e.calc@, Error::NULL => e.null@, Error::CIRC => e.circ@,
    }
}
pub open spec fn names_nonempty(e: Errors) -> bool {
    e.r#ref@.len() > 0 && e.name@.len() > 0 && e.value@.len() > 0 && e.div@.len() > 0 && e.na@.len() > 0 && e.num@.len() > 0
        && e.error@.len() > 0 && e.nimpl@.len() > 0 && e.spill@.len() > 0 && e.calc@.len() > 0 && e.null@.len() > 0 && e.circ@.len() > 0
}
impl<'a> Lexer<'a> {
    pub open spec fn wf(&self) -> bool { self.len == self.chars@.len() && self.position <= self.len }
//@fn base/src/expressions/lexer/mod.rs Lexer::consume_error
//@spec
    requires old(self).wf(), old(self).position >= 1,        // called after the '#' was read
        names_nonempty(old(self).language.errors),              // data invariant of the language tables (every error name starts with '#')
    ensures final(self).wf(), final(self).position >= old(self).position,
        r matches TokenType::Error(k) ==> ({
            let rest = old(self).chars@.subrange(old(self).position - 1, old(self).len as int);
            let nm = name_of(old(self).language.errors, k);
            is_prefix(nm, rest) && final(self).position == old(self).position + nm.len() - 1
        }),
        r is Spill ==> final(self).position == old(self).position,
//@rewrite `-> TokenType {` => `-> (r: TokenType) {`
//@rewrite* `self.chars[self.position - 1..self.len].iter().collect();` => `shim_string(&self.chars[self.position - 1..self.len]);`
//@rewrite* `rest_of_formula.starts_with(&errors.` => `text_starts_with(&rest_of_formula, &errors.`
//@rewrite* `.chars().count()` => `.verif_count()`
//@end
}
pub trait VerifCount { spec fn vc_len(&self) -> nat; fn verif_count(&self) -> (r: usize) ensures r == self.vc_len(); }
impl VerifCount for String {
    open spec fn vc_len(&self) -> nat { self@.len() }
    #[verifier::external_body] fn verif_count(&self) -> (r: usize) { self.chars().count() }
}
} // verus!
fn main() {}
