// Array literals are printed row by row (C09, C10, C16): the ArrayKind arms of stringify (display) and to_string_moved (cut and paste), verbatim —
// every element in order, the element separator between two elements of a row, the row separator between two rows, nothing else, one pair of braces.
// (Unit separators proves that the parser of the same locale reads these two characters as its element / row separator tokens.)
// The `String` the arms build is read as the item-recording type Txt; `format!("{{{matrix_string}}}")` as "wrap in braces".
use vstd::prelude::*;
verus! {
#[verifier::external_body] pub struct ArrayNode { _o: u8 }
#[verifier::external_body] pub struct LocaleRest { _o: u8 }
#[verifier::external_body] pub struct Language { _o: u8 }
//@type base/src/locale/mod.rs NumbersSymbols
pub struct NumbersProperties { pub symbols: NumbersSymbols, pub rest: LocaleRest }     // context shell (D5)
pub struct Locale { pub numbers: NumbersProperties, pub rest: LocaleRest }             // context shell (D5)
pub trait VerifIs { fn verif_is(&self, lit: &str) -> (r: bool); }
impl VerifIs for String {
    #[verifier::external_body]
    fn verif_is(&self, lit: &str) -> (r: bool) ensures r == (self@ == lit@) { self == lit }
}
pub enum Item { Sep(char), El(ArrayNode) }
pub struct Txt { pub items: Ghost<Seq<Item>> }
pub struct Braced { pub items: Ghost<Seq<Item>> }
impl Txt {
    pub fn new() -> (r: Txt) ensures r.items@ == Seq::<Item>::empty() { Txt { items: Ghost(Seq::empty()) } }
    pub fn push(&mut self, c: char) ensures final(self).items@ == old(self).items@.push(Item::Sep(c)) { self.items = Ghost(self.items@.push(Item::Sep(c))); }
    pub fn push_str(&mut self, s: &Txt) ensures final(self).items@ == old(self).items@ + s.items@ { self.items = Ghost(self.items@ + s.items@); }
}
pub fn braces(t: Txt) -> (r: Braced) ensures r.items@ == t.items@ { Braced { items: Ghost(t.items@) } }
#[verifier::external_body]
pub fn to_string_array_node(node: &ArrayNode, locale: &Locale, language: &Language) -> (r: Txt) ensures r.items@ == seq![Item::El(*node)] { unimplemented!() }

pub open spec fn row_items(row: Seq<ArrayNode>, n: int, cs: char) -> Seq<Item>
    decreases n
{
    if n <= 0 { Seq::empty() } else if n == 1 { seq![Item::El(row[0])] } else { row_items(row, n - 1, cs) + seq![Item::Sep(cs), Item::El(row[n - 1])] }
}
pub open spec fn matrix_items(rows: Seq<Vec<ArrayNode>>, m: int, rs: char, cs: char) -> Seq<Item>
    decreases m
{
    if m <= 0 { Seq::empty() } else if m == 1 { row_items(rows[0]@, rows[0]@.len() as int, cs) }
    else { matrix_items(rows, m - 1, rs, cs) + seq![Item::Sep(rs)] + row_items(rows[m - 1]@, rows[m - 1]@.len() as int, cs) }
}
pub open spec fn dot(l: &Locale) -> bool { l.numbers.symbols.decimal@ == "."@ }
pub open spec fn row_sep(l: &Locale) -> char { if dot(l) { ';' } else { '\\' } }
pub open spec fn col_sep(l: &Locale) -> char { if dot(l) { ',' } else { ';' } }

#[verifier::loop_isolation(false)]
pub fn stringify_array(args: &Vec<Vec<ArrayNode>>, locale: &Locale, language: &Language) -> (r: Braced)
    ensures r.items@ =~= matrix_items(args@, args@.len() as int, row_sep(locale), col_sep(locale))
//@arm base/src/expressions/parser/stringify.rs stringify `ArrayKind(args) =>`
//@rewritex2 `String::new()` => `Txt::new()`
//@rewrite* `symbols.decimal == "."` => `symbols.decimal.verif_is(".")`
//@rewrite `for row in args {` => `for row in it: args.iter() {`
//@rewrite `for el in row {` => `for el in it2: row.iter() {`
//@rewrite `format!("{{{matrix_string}}}")` => `braces(matrix_string)`
//@loop 1
                invariant first_row == (it.index@ == 0), matrix_string.items@ =~= matrix_items(args@, it.index@, row_sep(locale), col_sep(locale))
//@loop 2
                    invariant first_column == (it2.index@ == 0), row_string.items@ =~= row_items(row@, it2.index@, col_sep(locale))
//@end
#[verifier::loop_isolation(false)]
pub fn moved_array(args: &Vec<Vec<ArrayNode>>, locale: &Locale, language: &Language) -> (r: Braced)
    ensures r.items@ =~= matrix_items(args@, args@.len() as int, row_sep(locale), col_sep(locale))
//@arm base/src/expressions/parser/move_formula.rs to_string_moved `ArrayKind(args) =>`
//@rewritex2 `String::new()` => `Txt::new()`
//@rewrite* `symbols.decimal == "."` => `symbols.decimal.verif_is(".")`
//@rewrite `for row in args {` => `for row in it: args.iter() {`
//@rewrite `for el in row {` => `for el in it2: row.iter() {`
//@rewrite `format!("{{{matrix_string}}}")` => `braces(matrix_string)`
//@loop 1
                invariant first_row == (it.index@ == 0), matrix_string.items@ =~= matrix_items(args@, it.index@, row_sep(locale), col_sep(locale))
//@loop 2
                    invariant first_col == (it2.index@ == 0), row_string.items@ =~= row_items(row@, it2.index@, col_sep(locale))
//@end
} // verus!
fn main() {}
