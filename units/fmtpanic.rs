// Panic freedom of the digit-slicing tail of get_fract_part (number formatter): for ANY digit vector of length >= 2 and
// ANY integer-part length the slice bounds are in range.   (C11)
use vstd::prelude::*;
use vstd::slice::*;
verus! {
pub assume_specification<T: Clone> [<[T]>::to_vec] (s: &[T]) -> (r: Vec<T>) ensures r@.len() == s@.len();
pub fn fract_tail(b: Vec<char>, int_len: usize) -> (r: Vec<char>)
    requires b@.len() >= 2      // "0." plus the requested number of decimals: format!("{:.N}") always yields at least "0." / "0" + digits
{
//@fragment base/src/formatter/format.rs get_fract_part `let l = b.len() - 1;` .. `b[2..last_non_zero].to_vec()`
//@loop 1
        invariant l == b@.len() - 1, last_non_zero <= b@.len(), l >= 1
//@end
}
} // verus!
fn main() {}
