// U-colset / U-colget / U-colops: column descriptors of a worksheet against the abstract view.   (C29, C27, C04)
use vstd::prelude::*;
use vstd::std_specs::ops::*;
use vstd::std_specs::cmp::*;
use vstd::std_specs::iter::IteratorSpec;
use std::collections::HashMap;
verus! {
//@include std_f64.rs
//@include std_iter.rs
//@include ws_types.rs
//@include cols_vocab.rs

impl Worksheet {
//@fn base/src/worksheet.rs Worksheet::set_column_width_and_style
//@attr
#[verifier::loop_isolation(false)]
//@spec
    requires cols_wf(old(self).cols@)
    ensures
        cols_wf(final(self).cols@),
        r.is_err() ==> final(self).cols@ =~= old(self).cols@,
        r.is_err() ==> !(1 <= column <= 16384) || lt_ensures::<f64>(width, 0.0f64, true),
        r.is_ok() ==> 1 <= column <= 16384 && lt_ensures::<f64>(width, 0.0f64, false),
        // every other column keeps every attribute (and stays undescribed if it was)
        r.is_ok() ==> same_view_except(old(self).cols@, final(self).cols@, column as int),
        // exactly the requested attributes at `column`
        r.is_ok() ==> exists|j: int| 0 <= j < final(self).cols@.len() && covers(#[trigger] final(self).cols@[j], column as int)
            && final(self).cols@[j].style == style && final(self).cols@[j].hidden == hidden
            && div_ensures::<f64>(width, constants::COLUMN_WIDTH_FACTOR, final(self).cols@[j].width)
            && ne_ensures::<f64>(width, constants::DEFAULT_COLUMN_WIDTH, final(self).cols@[j].custom_width),
//@rewrite `-> Result<(), String>` => `-> (r: Result<(), String>)`
//@after `let cols = &mut self.cols;`
        let ghost oc = cols@;
        assert(oc.len() == cols.len());
        proof { broadcast use group_f64_total; }
//@loop 1 it
            invariant_except_break
                split == false,
            invariant
                index == it.index@,
                oc.len() <= usize::MAX,
                col.min == column && col.max == column && col.style == style && col.hidden == hidden,
                div_ensures::<f64>(width, constants::COLUMN_WIDTH_FACTOR, col.width),
                ne_ensures::<f64>(width, constants::DEFAULT_COLUMN_WIDTH, col.custom_width),
                oc.len() == cols@.len(),
                forall|i: int| 0 <= i < it.index@ ==> cols@[i] == oc[i],
                forall|i: int| 0 <= i < it.index@ ==> (#[trigger] oc[i]).max < column,
                it.iter.remaining().len() + it.index@ == oc.len(),
                forall|j: int| 0 <= j < it.iter.remaining().len() ==> *#[trigger] it.iter.remaining()[j] == oc[it.index@ + j],
                forall|j: int| 0 <= j < it.iter.remaining().len() ==> *final(#[trigger] it.iter.remaining()[j]) == cols@[it.index@ + j],
            ensures
                index <= oc.len(),
                cols@ =~= oc,
                split ==> index < oc.len() && covers(oc[index as int], column as int) && !(oc[index as int].min == column && oc[index as int].max == column),
                !split ==> index == oc.len() || column < oc[index as int].min,
//@before `let min = c.min;`
                assert(it.iter.remaining().len() >= 1);
                assert(*c == oc[index as int]);
//@before `return Ok(());`
                    proof {
                        axiom_iter_mut_dropped(&it.iter);
                        assert forall|j: int| index < j < oc.len() implies cols@[j] == oc[j] by {
                            let t = it.iter.remaining()[j - index];
                        }
                        assert(cols@[index as int].min == column && cols@[index as int].max == column);
                        lemma_update_same_range(oc, cols@, index as int, column as int);
                    }
//@before `let min = cols[index].min;`
            let ghost k = index as int;
//@before `cols.remove(index);`
            assert(cols@ =~= oc);
//@before `} else {`
            proof {
                let mids = (if column != min { seq![pre] } else { Seq::<Col>::empty() }).push(col)
                    + (if column != max { seq![post] } else { Seq::<Col>::empty() });
                assert(cols@ =~= oc.subrange(0, k) + mids + oc.subrange(k + 1, oc.len() as int));
                lemma_split(oc, cols@, k, column as int, pre, col, post);
            }
//@after `} else {`
            proof {
                assert(cols@ =~= oc);
            }
//@before#2 `Ok(())`
        proof {
            if !split {
                lemma_insert_fresh(oc, cols@, index as int, col, column as int);
            }
        }
//@before `split = true;`
                proof {
                    axiom_iter_mut_dropped(&it.iter);
                    assert forall|j: int| index < j < oc.len() implies cols@[j] == oc[j] by {
                        let t = it.iter.remaining()[j - index];
                    }
                }
//@before#2 `break;`
                proof {
                    axiom_iter_mut_dropped(&it.iter);
                    assert forall|j: int| index < j < oc.len() implies cols@[j] == oc[j] by {
                        let t = it.iter.remaining()[j - index];
                    }
                }
//@end
}

} // verus!
fn main() {}
