// U-colset / U-colget / U-colops: column descriptors of a worksheet against the abstract view.   (C29, C27, C04)
use vstd::prelude::*;
use vstd::std_specs::ops::*;
use vstd::std_specs::cmp::*;
use vstd::std_specs::iter::IteratorSpec;
use std::collections::HashMap;
verus! {
pub mod f64_m {
    #[allow(unused_imports)] use super::*;
//@include std_f64.rs
}
pub use f64_m::*;
// f64 `/` and `*` never panic: available in EVERY function, wherever the arithmetic sits (not only after a hint anchored in today's text)
broadcast use f64_m::group_f64_total;
//@include std_specs.rs
//@include std_iter.rs
//@include ws_types.rs
//@include cols_vocab.rs

impl Worksheet {

//@fn base/src/worksheet.rs Worksheet::get_column_style
//@attr
#[verifier::loop_isolation(false)]
//@spec
    ensures
        r.is_err() <==> !(1 <= column <= 16384),
        r.is_ok() ==> r.unwrap() == style_at(self.cols@, column as int),
//@rewrite `-> Result<Option<i32>, String>` => `-> (r: Result<Option<i32>, String>)`
//@after `let cols = &self.cols;`
        proof { broadcast use group_f64_total; }
//@loop 1 it
            invariant
                forall|k: int| 0 <= k < it.index@ ==> !covers(#[trigger] cols@[k], column as int),
//@after `let max = col.max;`
            proof {
                if column >= min && column <= max {
                    assert(is_first_cover(cols@, column as int, it.index@));
                    lemma_first_cover_unique(cols@, column as int, it.index@);
                }
            }
//@before `Ok(None)`
        proof { lemma_no_cover(cols@, column as int); }
//@end

//@fn base/src/worksheet.rs Worksheet::is_column_hidden
//@attr
#[verifier::loop_isolation(false)]
//@spec
    ensures
        r.is_err() <==> !(1 <= column <= 16384),
        r.is_ok() ==> r.unwrap() == hidden_at(self.cols@, column as int),
//@rewrite `-> Result<bool, String>` => `-> (r: Result<bool, String>)`
//@after `let cols = &self.cols;`
        proof { broadcast use group_f64_total; }
//@loop 1 it
            invariant
                forall|k: int| 0 <= k < it.index@ ==> !covers(#[trigger] cols@[k], column as int),
//@after `let max = col.max;`
            proof {
                if column >= min && column <= max {
                    assert(is_first_cover(cols@, column as int, it.index@));
                    lemma_first_cover_unique(cols@, column as int, it.index@);
                }
            }
//@before `Ok(false)`
        proof { lemma_no_cover(cols@, column as int); }
//@end

//@fn base/src/worksheet.rs Worksheet::get_actual_column_width
//@attr
#[verifier::loop_isolation(false)]
//@spec
    ensures
        r.is_err() <==> !(1 <= column <= 16384),
        r.is_ok() ==> actual_width_rel(self.cols@, column as int, r.unwrap()),
//@rewrite `-> Result<f64, String>` => `-> (r: Result<f64, String>)`
//@after `let cols = &self.cols;`
        proof { broadcast use group_f64_total; }
//@loop 1 it
            invariant
                forall|k: int| 0 <= k < it.index@ ==> !covers(#[trigger] cols@[k], column as int),
//@after `let max = col.max;`
            proof {
                if column >= min && column <= max {
                    assert(is_first_cover(cols@, column as int, it.index@));
                    lemma_first_cover_unique(cols@, column as int, it.index@);
                }
            }
//@before `Ok(constants::DEFAULT_COLUMN_WIDTH)`
        proof { if !(exists|i: int| is_first_cover(cols@, column as int, i)) { } }
//@end

//@fn base/src/worksheet.rs Worksheet::get_column_width
//@attr
#[verifier::loop_isolation(false)]
//@spec
    ensures
        r.is_err() <==> !(1 <= column <= 16384),
        r.is_ok() ==> (if hidden_at(self.cols@, column as int) { r.unwrap() == 0.0f64 } else { actual_width_rel(self.cols@, column as int, r.unwrap()) }),
//@rewrite `-> Result<f64, String>` => `-> (r: Result<f64, String>)`
//@after `let cols = &self.cols;`
        proof { broadcast use group_f64_total; }
//@loop 1 it
            invariant
                forall|k: int| 0 <= k < it.index@ ==> !covers(#[trigger] cols@[k], column as int),
//@after `let max = col.max;`
            proof {
                if column >= min && column <= max {
                    assert(is_first_cover(cols@, column as int, it.index@));
                    lemma_first_cover_unique(cols@, column as int, it.index@);
                }
            }
//@before `Ok(constants::DEFAULT_COLUMN_WIDTH)`
        proof { if !(exists|i: int| is_first_cover(cols@, column as int, i)) { } }
//@end
//@fn base/src/worksheet.rs Worksheet::set_column_width_and_style
//@attr
#[verifier::loop_isolation(false)]
#[verifier::spinoff_prover]
//@spec
    requires cols_wf(old(self).cols@)
    ensures
        cols_wf(final(self).cols@),
        r.is_err() ==> final(self).cols@ =~= old(self).cols@,
        r.is_err() ==> !(1 <= column <= 16384) || lt_ensures::<f64>(width, 0.0f64, true),
        r.is_ok() ==> 1 <= column <= 16384 && lt_ensures::<f64>(width, 0.0f64, false),
        // every other column keeps every attribute (and stays undescribed if it was)
        r.is_ok() ==> same_view_except(old(self).cols@, final(self).cols@, column as int),
        // exactly the requested attributes at `column`
        r.is_ok() ==> exists|j: int| 0 <= j < final(self).cols@.len() && covers(#[trigger] final(self).cols@[j], column as int)
            && final(self).cols@[j].style == style && final(self).cols@[j].hidden == hidden
            && div_ensures::<f64>(width, constants::COLUMN_WIDTH_FACTOR, final(self).cols@[j].width)
            && ne_ensures::<f64>(width, constants::DEFAULT_COLUMN_WIDTH, final(self).cols@[j].custom_width),
//@rewrite `-> Result<(), String>` => `-> (r: Result<(), String>)`
//@after `let cols = &mut self.cols;`
        let ghost oc = cols@;
        assert(oc.len() == cols.len());
        proof { broadcast use group_f64_total; }
//@loop 1 it
            invariant_except_break
                split == false,
            invariant
                index == it.index@,
                oc.len() <= usize::MAX,
                col.min == column && col.max == column && col.style == style && col.hidden == hidden,
                div_ensures::<f64>(width, constants::COLUMN_WIDTH_FACTOR, col.width),
                ne_ensures::<f64>(width, constants::DEFAULT_COLUMN_WIDTH, col.custom_width),
                oc.len() == cols@.len(),
                forall|i: int| 0 <= i < it.index@ ==> cols@[i] == oc[i],
                forall|i: int| 0 <= i < it.index@ ==> (#[trigger] oc[i]).max < column,
                it.iter.remaining().len() + it.index@ == oc.len(),
                forall|j: int| 0 <= j < it.iter.remaining().len() ==> *#[trigger] it.iter.remaining()[j] == oc[it.index@ + j],
                forall|j: int| 0 <= j < it.iter.remaining().len() ==> *final(#[trigger] it.iter.remaining()[j]) == cols@[it.index@ + j],
            ensures
                index <= oc.len(),
                cols@ =~= oc,
                split ==> index < oc.len() && covers(oc[index as int], column as int) && !(oc[index as int].min == column && oc[index as int].max == column),
                !split ==> index == oc.len() || column < oc[index as int].min,
//@before `let min = c.min;`
                assert(it.iter.remaining().len() >= 1);
                assert(*c == oc[index as int]);
//@before `return Ok(());`
                    proof {
                        axiom_iter_mut_dropped(&it.iter);
                        assert forall|j: int| index < j < oc.len() implies cols@[j] == oc[j] by {
                            let t = it.iter.remaining()[j - index];
                        }
                        assert(cols@[index as int].min == column && cols@[index as int].max == column);
                        lemma_update_same_range(oc, cols@, index as int, column as int);
                    }
//@before `let min = cols[index].min;`
            let ghost k = index as int;
//@before `cols.remove(index);`
            assert(cols@ =~= oc);
//@before `} else {`
            proof {
                assert(cols@ =~= oc.subrange(0, k) + split_mids(oc[k], column as int, pre, col, post, true) + oc.subrange(k + 1, oc.len() as int));
                lemma_split(oc, cols@, k, column as int, pre, col, post, true);
            }
//@after `} else {`
            proof {
                assert(cols@ =~= oc);
            }
//@before#2 `Ok(())`
        proof {
            if !split {
                lemma_insert_fresh(oc, cols@, index as int, col, column as int);
            }
        }
//@before `split = true;`
                proof {
                    axiom_iter_mut_dropped(&it.iter);
                    assert forall|j: int| index < j < oc.len() implies cols@[j] == oc[j] by {
                        let t = it.iter.remaining()[j - index];
                    }
                }
//@before#2 `break;`
                proof {
                    axiom_iter_mut_dropped(&it.iter);
                    assert forall|j: int| index < j < oc.len() implies cols@[j] == oc[j] by {
                        let t = it.iter.remaining()[j - index];
                    }
                }
//@end

//@fn base/src/worksheet.rs Worksheet::set_column_width
//@attr
#[verifier::spinoff_prover]
//@spec
    requires cols_wf(old(self).cols@)
    ensures
        cols_wf(final(self).cols@),
        r.is_err() ==> final(self).cols@ =~= old(self).cols@,
        r.is_ok() ==> 1 <= column <= 16384
            && same_view_except(old(self).cols@, final(self).cols@, column as int)
            && style_at(final(self).cols@, column as int) == style_at(old(self).cols@, column as int)
            && hidden_at(final(self).cols@, column as int) == hidden_at(old(self).cols@, column as int)
            && stores_width(final(self).cols@, column as int, width),
//@rewrite `-> Result<(), String>` => `-> (r: Result<(), String>)`
//@rewrite `self.set_column_width_and_style(column, width, hidden, style)` => `let r = self.set_column_width_and_style(column, width, hidden, style); proof { lemma_after_set(old(self).cols@, self.cols@, column as int, r.is_ok()); } r`
//@end

//@fn base/src/worksheet.rs Worksheet::set_column_hidden
//@attr
#[verifier::spinoff_prover]
//@spec
    requires cols_wf(old(self).cols@)
    ensures
        cols_wf(final(self).cols@),
        r.is_err() ==> final(self).cols@ =~= old(self).cols@,
        r.is_ok() ==> 1 <= column <= 16384
            && same_view_except(old(self).cols@, final(self).cols@, column as int)
            && style_at(final(self).cols@, column as int) == style_at(old(self).cols@, column as int)
            && hidden_at(final(self).cols@, column as int) == hidden
            && (exists|a: f64| actual_width_rel(old(self).cols@, column as int, a) && stores_width(final(self).cols@, column as int, a)),
//@rewrite `-> Result<(), String>` => `-> (r: Result<(), String>)`
//@rewrite `self.set_column_width_and_style(column, width, hidden, style)` => `let r = self.set_column_width_and_style(column, width, hidden, style); proof { lemma_after_set(old(self).cols@, self.cols@, column as int, r.is_ok()); } r`
//@end

//@fn base/src/worksheet.rs Worksheet::set_column_style
//@attr
#[verifier::spinoff_prover]
//@spec
    requires cols_wf(old(self).cols@)
    ensures
        cols_wf(final(self).cols@),
        r.is_err() ==> final(self).cols@ =~= old(self).cols@,
        r.is_ok() ==> 1 <= column <= 16384
            && same_view_except(old(self).cols@, final(self).cols@, column as int)
            && style_at(final(self).cols@, column as int) == Some(style_index)
            && hidden_at(final(self).cols@, column as int) == hidden_at(old(self).cols@, column as int)
            && (exists|a: f64| actual_width_rel(old(self).cols@, column as int, a) && stores_width(final(self).cols@, column as int, a)),
//@rewrite `-> Result<(), String>` => `-> (r: Result<(), String>)`
//@rewrite `self.set_column_width_and_style(column, width, hidden, Some(style_index))` => `let r = self.set_column_width_and_style(column, width, hidden, Some(style_index)); proof { lemma_after_set(old(self).cols@, self.cols@, column as int, r.is_ok()); } r`
//@end


//@fn base/src/worksheet.rs Worksheet::delete_column_style
//@attr
#[verifier::loop_isolation(false)]
#[verifier::spinoff_prover]
//@spec
    requires cols_wf(old(self).cols@)
    ensures
        cols_wf(final(self).cols@),
        r.is_err() <==> !(1 <= column <= 16384),
        r.is_err() ==> final(self).cols@ =~= old(self).cols@,
        r.is_ok() ==> same_view_except(old(self).cols@, final(self).cols@, column as int)
            && style_at(final(self).cols@, column as int) == None::<i32>
            && hidden_at(final(self).cols@, column as int) == hidden_at(old(self).cols@, column as int)
            && (forall|a: f64| actual_width_rel(old(self).cols@, column as int, a) <==> actual_width_rel(final(self).cols@, column as int, a)),
//@rewrite `-> Result<(), String>` => `-> (r: Result<(), String>)`
//@after `let cols = &mut self.cols;`
        let ghost oc = cols@;
        assert(oc.len() == cols.len());
//@loop 1 it
            invariant_except_break
                split == false,
            invariant
                index == it.index@,
                oc.len() <= usize::MAX,
                oc.len() == cols@.len(),
                forall|i: int| 0 <= i < it.index@ ==> cols@[i] == oc[i],
                forall|i: int| 0 <= i < it.index@ ==> (#[trigger] oc[i]).max < column,
                it.iter.remaining().len() + it.index@ == oc.len(),
                forall|j: int| 0 <= j < it.iter.remaining().len() ==> *#[trigger] it.iter.remaining()[j] == oc[it.index@ + j],
                forall|j: int| 0 <= j < it.iter.remaining().len() ==> *final(#[trigger] it.iter.remaining()[j]) == cols@[it.index@ + j],
            ensures
                index <= oc.len(),
                cols@ =~= oc,
                split ==> index < oc.len() && covers(oc[index as int], column as int),
                !split ==> index == oc.len() || column < oc[index as int].min,
//@before `let min = c.min;`
                assert(it.iter.remaining().len() >= 1);
                assert(*c == oc[index as int]);
//@before `split = true;`
                proof {
                    axiom_iter_mut_dropped(&it.iter);
                    assert forall|j: int| index < j < oc.len() implies cols@[j] == oc[j] by {
                        let t = it.iter.remaining()[j - index];
                    }
                }
//@before#2 `break;`
                proof {
                    axiom_iter_mut_dropped(&it.iter);
                    assert forall|j: int| index < j < oc.len() implies cols@[j] == oc[j] by {
                        let t = it.iter.remaining()[j - index];
                    }
                }
//@before `let min = cols[index].min;`
            let ghost k = index as int;
            proof { lemma_wf_cover(oc, column as int, k); }
//@before `cols.remove(index);`
            let ghost with_mid = custom_width || col.hidden;
//@before `Ok(())`
        proof {
            if split {
                let k = index as int;
                let c = oc[k];
                let pre = Col { min: c.min, max: (column - 1) as i32, width: c.width, custom_width: c.custom_width, style: c.style, hidden: c.hidden };
                let col = Col { min: column, max: column, width: c.width, custom_width: c.custom_width, style: None, hidden: c.hidden };
                let post = Col { min: (column + 1) as i32, max: c.max, width: c.width, custom_width: c.custom_width, style: c.style, hidden: c.hidden };
                let with_mid = c.custom_width || c.hidden;
                assert(cols@ =~= oc.subrange(0, k) + split_mids(c, column as int, pre, col, post, with_mid) + oc.subrange(k + 1, oc.len() as int));
                lemma_split(oc, cols@, k, column as int, pre, col, post, with_mid);
                if with_mid {
                    let j = choose|j: int| 0 <= j < cols@.len() && covers(#[trigger] cols@[j], column as int) && cols@[j] == col;
                    lemma_wf_cover(cols@, column as int, j);
                } else {
                    lemma_no_cover(cols@, column as int);
                }
            } else {
                assert(cols@ =~= oc);
                lemma_same_view_refl(oc, column as int);
                assert forall|j: int| 0 <= j < oc.len() implies !covers(#[trigger] oc[j], column as int) by {
                    if j < index { } else { assert(oc[index as int].min <= oc[j].min) by { if j > index { assert(oc[index as int].max < oc[j].min); } } }
                }
                lemma_no_cover(oc, column as int);
            }
        }
//@end

//@fn base/src/worksheet.rs Worksheet::set_style
//@spec
    ensures
        cols_wf(final(self).cols@), r.is_ok(),
        forall|x: int| 1 <= x <= 16384 ==> #[trigger] style_at(final(self).cols@, x) == Some(style_index),
//@rewrite `-> Result<(), String>` => `-> (r: Result<(), String>)`
//@before `Ok(())`
        proof {
            assert forall|x: int| 1 <= x <= 16384 implies #[trigger] style_at(self.cols@, x) == Some(style_index) by {
                assert(is_first_cover(self.cols@, x, 0));
                lemma_first_cover_unique(self.cols@, x, 0);
            }
        }
//@end
}

} // verus!
fn main() {}
