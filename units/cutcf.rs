// U-refarea + conditional-format ranges under cut: a CF range is carried along with a cut only if BOTH corners
// (row and column of each) lie inside the cut area, exactly the rule used for cell formulas.   (C33, C16 helper)
use vstd::prelude::*;
verus! {
//@type base/src/expressions/types.rs Area
//@type base/src/expressions/types.rs ParsedReference
pub open spec fn small(x: int) -> bool { -4194304 <= x <= 4194304 }
pub open spec fn area_small(a: &Area) -> bool { small(a.row as int) && small(a.column as int) && small(a.width as int) && small(a.height as int) }
pub open spec fn in_area(sheet: u32, row: int, column: int, a: &Area) -> bool {
    a.sheet == sheet && a.row <= row <= a.row + a.height - 1 && a.column <= column <= a.column + a.width - 1
}

//@fn base/src/expressions/parser/move_formula.rs ref_is_in_area
//@spec
    requires area_small(area)
    ensures r == in_area(sheet, row as int, column as int, area)
//@rewrite `-> bool {` => `-> (r: bool) {`
//@end

pub mod utils {
    use super::*;
    #[verifier::external_body]
    pub fn parse_reference_a1(r: &str) -> (res: Option<ParsedReference>)
        ensures res.is_some() ==> small(res.unwrap().row as int) && small(res.unwrap().column as int)
    { unimplemented!() }
    #[verifier::external_body]
    pub fn number_to_column(i: i32) -> (r: Option<String>) { unimplemented!() }
}

pub fn cf_two_corner_part(part: &str, segs: Vec<&str>, area: &Area, row_delta: i32, col_delta: i32) -> String
    requires segs@.len() == 2, area_small(area), small(row_delta as int), small(col_delta as int)
//@arm base/src/cut_paste.rs cf_range_part_update_for_cut `2 =>`
//@before `return format!(`
                        // the range moves only if it lies entirely inside the cut area
                        assert(in_area(area.sheet, r1.row as int, r1.column as int, area) && in_area(area.sheet, r2.row as int, r2.column as int, area));
//@end

/// range_link_diffs (the links recorded, and on replicas removed, by clear / delete operations): a link is taken exactly
/// when its cell lies inside the range
pub fn link_is_in_range(row: i32, column: i32, range: &Area) -> (r: bool)
    requires area_small(range), small(row as int), small(column as int)
    ensures r == in_area(range.sheet, row as int, column as int, range)
{
//@fragment base/src/user_model/common.rs UserModel::range_link_diffs `if row >= range.row` ..< `{`
//@rewrite `if row >= range.row` => `row >= range.row`
//@end
}

/// get_external_formula_updates_for_cut, phase 1: a formula cell is left out of the "outside observers" exactly when it lies
/// inside the cut area ON THE CUT SHEET (a cell at the same coordinates of another sheet is an observer like any other)
pub fn is_inside_cut_area(ws_idx_u32: u32, row: i32, col: i32, area: &Area) -> (r: bool)
    requires area_small(area), small(row as int), small(col as int)
    ensures r == in_area(ws_idx_u32, row as int, col as int, area)
{
//@fragment base/src/cut_paste.rs Model::get_external_formula_updates_for_cut `// skip cells inside the area being moved` ..< `{`
//@rewrite `if ` => ``
//@end
}

} // verus!
fn main() {}
