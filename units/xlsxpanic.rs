// xlsx import, text slices (C25): the two places that drop the alpha byte of a colour value with a BYTE slice — theme::format_hex (whole) and the rgb
// branch of util::get_color_indexed — cannot panic for ANY attribute text: the slice offset is a character boundary.  ("offset i is a char boundary"
// is the uninterpreted predicate of units/std_text.rs: only documented std facts establish it, every slice requires it.)
use vstd::prelude::*;
verus! {
//@include std_text.rs
/// std: in an ASCII text every byte is a character, so every offset up to the length is a char boundary
#[verifier::external_body]
pub broadcast proof fn axiom_ascii_boundaries(s: &str, i: int) requires s.is_ascii(), 0 <= i <= s@.len() ensures #[trigger] text_boundary(s@, i) {}
/// `<str>.len()` in BYTES; for an ASCII text it is the number of characters
pub trait VerifByteLen { fn verif_len(&self) -> (r: usize); }
impl VerifByteLen for str {
    #[verifier::external_body]
    fn verif_len(&self) -> (r: usize) ensures self.is_ascii() ==> r == self@.len() { self.len() }
}
pub trait VerifIsAscii { fn verif_is_ascii(&self) -> (r: bool); }
impl VerifIsAscii for str {
    #[verifier::external_body]
    fn verif_is_ascii(&self) -> (r: bool) ensures r == self.is_ascii() { self.is_ascii() }
}
/// `raw.trim_start_matches('#')`: some suffix of the text (total)
#[verifier::external_body] pub fn shim_trim_hash(s: &str) -> (r: &str) { s.trim_start_matches('#') }
pub assume_specification [str::to_ascii_uppercase] (s: &str) -> (r: String);
#[verifier::external_body] pub fn shim_hash_prefixed(s: String) -> (r: String) { unimplemented!() }   // format!("#{}", s)

//@fn xlsx/src/import/theme.rs format_hex
//@strslice trimmed str
//@rewrite `raw.trim_start_matches('#')` => `shim_trim_hash(raw)`
//@rewrite* `trimmed.len()` => `trimmed.verif_len()`
//@rewrite* `trimmed.is_ascii()` => `trimmed.verif_is_ascii()`
//@rewrite `format!("#{}", rgb.to_ascii_uppercase())` => `shim_hash_prefixed(rgb.to_ascii_uppercase())`
//@before `let rgb = if`
    broadcast use axiom_ascii_boundaries;
//@end

pub fn color_rgb_branch(raw: &str) -> (r: String)
{
    broadcast use axiom_ascii_boundaries;
//@fragment xlsx/src/import/util.rs get_color_indexed `let hex = if raw.len() == 8` .. `};`
//@strslice raw str
//@rewrite* `raw.len()` => `raw.verif_len()`
//@rewrite* `raw.is_ascii()` => `raw.verif_is_ascii()`
//@rewritex2 `format!("#{}", raw` => `shim_hash_prefixed(raw`
//@end
    hex
}
} // verus!
fn main() {}
