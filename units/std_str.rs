// ---- std_str.rs: assumed specifications of str/String/char functions (trusted base, R3) ----
pub assume_specification [<char>::is_ascii_uppercase] (c: &char) -> (r: bool)
    ensures r == ('A' <= *c <= 'Z');
pub assume_specification [String::insert] (s: &mut String, idx: usize, ch: char)
    requires idx <= old(s)@.len()
    ensures final(s)@ == old(s)@.insert(idx as int, ch);
