// U-selmove / U-seldel: the selected-sheet index after moving or deleting a sheet stays inside the workbook and
// follows the sheet by identity.   (C28)
use vstd::prelude::*;
verus! {

/// position of the sheet that was at index x after the sheet at `from` is removed and re-inserted at `to`
pub open spec fn moved_index(x: int, from: int, to: int) -> int {
    if x == from { to } else {
        let a = if x > from { x - 1 } else { x };
        if a >= to { a + 1 } else { a }
    }
}

//@fn base/src/user_model/common.rs selected_sheet_after_move
//@spec
    requires selected < 4294967295
    ensures
        r == moved_index(selected as int, from as int, to as int),
        // stays an existing sheet in a workbook of n sheets
        // stays an existing sheet: never beyond the largest of the three indices
        r <= selected || r <= from || r <= to,
//@rewrite `-> u32 {` => `-> (r: u32) {`
//@end

/// undo/redo of a move re-selects through the inverse move: the selection returns to the same sheet
pub proof fn lemma_move_roundtrip(x: int, from: int, to: int)
    requires 0 <= x, 0 <= from, 0 <= to
    ensures moved_index(moved_index(x, from, to), to, from) == x
{}
/// distinct sheets stay distinct (the selection map is a permutation of [0, n))
pub proof fn lemma_move_injective(x: int, y: int, from: int, to: int)
    requires 0 <= x, 0 <= y, 0 <= from, 0 <= to, moved_index(x, from, to) == moved_index(y, from, to)
    ensures x == y
{}

/// the map really is "where the same sheet goes" under Model::move_sheet (remove at `from`, insert at `to`; that shape is the
/// proved postcondition of Model::move_sheet in unit modelatomic): for every sheet list s, the sheet at x ends up at moved_index(x)
pub proof fn lemma_moved_index_tracks_sheet<T>(s: Seq<T>, x: int, from: int, to: int)
    requires 0 <= x < s.len(), 0 <= from < s.len(), 0 <= to < s.len(), from != to
    ensures
        0 <= moved_index(x, from, to) < s.len(),
        s.remove(from).insert(to, s[from])[moved_index(x, from, to)] == s[x],
{}
/// likewise for deletion: Model::delete_sheet removes index d; a selected sheet other than d is found again at the new index
pub proof fn lemma_delete_tracks_sheet<T>(s: Seq<T>, x: int, d: int)
    requires 0 <= x < s.len(), 0 <= d < s.len(), x != d
    ensures s.remove(d)[if x > d { x - 1 } else { x }] == s[x]
{}

//@fn base/src/user_model/common.rs selected_sheet_after_delete
//@spec
    ensures
        // C28: after deleting sheet `deleted` of `sheet_count` (> 1) sheets the selection is an existing sheet
        selected < sheet_count && deleted < sheet_count && sheet_count > 1 ==> r < sheet_count - 1,
        // the selection follows its sheet by identity when another sheet is deleted
        selected > deleted ==> r == selected - 1,
        selected < deleted ==> r == selected,
//@rewrite `-> u32 {` => `-> (r: u32) {`
//@end

} // verus!
fn main() {}
