// U-rename: rename_sheet_in_node, arm by arm.   (C17)
// References to the renamed sheet that carry an explicit sheet name get the new name; references to every other sheet and
// to sheets that do not exist keep theirs; every composite node passes the same (sheet_index, new_name) to all its children.
use vstd::prelude::*;
verus! {
#[verifier::external_body] pub struct Function { _o: u8 }
#[verifier::external_body] pub struct NamedVariable { _o: u8 }
#[verifier::external_body] pub struct ArrayNode { _o: u8 }
#[verifier::external_body] pub struct DefinedNameS { _o: u8 }
#[verifier::external_body] pub struct ExpectedTokens { _o: u8 }
#[verifier::external_body] pub struct OpCompare { _o: u8 }
#[verifier::external_body] pub struct OpUnary { _o: u8 }
pub mod token {
    #[allow(unused_imports)] use super::*;
    #[verifier::external_body] pub struct OpSum { _o: u8 }
    #[verifier::external_body] pub struct OpProduct { _o: u8 }
    #[verifier::external_body] pub struct Error { _o: u8 }
}
//@type base/src/expressions/parser/mod.rs Node

pub assume_specification [str::to_uppercase] (s: &str) -> (r: String);
pub assume_specification<T: Clone> [<T as ToOwned>::to_owned] (s: &T) -> (r: T) ensures r == *s;
pub open spec fn name_of(o: Option<String>) -> Option<Seq<char>> { match o { Some(s) => Some(s@), None => None } }

// ---- the four leaf arms ----
pub fn arm_reference(sheet_name: &mut Option<String>, index: &mut u32, sheet_index: u32, new_name: &str)
    ensures
        *final(index) == *old(index),
        *old(index) == sheet_index && old(sheet_name).is_some() ==> name_of(*final(sheet_name)) == Some(new_name@),
        !(*old(index) == sheet_index && old(sheet_name).is_some()) ==> name_of(*final(sheet_name)) == name_of(*old(sheet_name)),
//@arm base/src/expressions/parser/stringify.rs rename_sheet_in_node `Node::ReferenceKind {`
//@end
pub fn arm_range(sheet_name: &mut Option<String>, index: &mut u32, sheet_index: u32, new_name: &str)
    ensures
        *final(index) == *old(index),
        *old(index) == sheet_index && old(sheet_name).is_some() ==> name_of(*final(sheet_name)) == Some(new_name@),
        !(*old(index) == sheet_index && old(sheet_name).is_some()) ==> name_of(*final(sheet_name)) == name_of(*old(sheet_name)),
//@arm base/src/expressions/parser/stringify.rs rename_sheet_in_node `Node::RangeKind {`
//@end
// references to sheets that do not exist are unchanged
pub fn arm_wrong_reference(sheet_name: &mut Option<String>, sheet_index: u32, new_name: &str)
    ensures name_of(*final(sheet_name)) == name_of(*old(sheet_name)),
//@arm base/src/expressions/parser/stringify.rs rename_sheet_in_node `Node::WrongReferenceKind {`
//@end
pub fn arm_wrong_range(sheet_name: &mut Option<String>, sheet_index: u32, new_name: &str)
    ensures name_of(*final(sheet_name)) == name_of(*old(sheet_name)),
//@arm base/src/expressions/parser/stringify.rs rename_sheet_in_node `Node::WrongRangeKind {`
//@end

// ---- composite arms: every child is visited with the SAME sheet index and new name ----
pub uninterp spec fn g_idx() -> u32;
pub uninterp spec fn g_name() -> Seq<char>;
#[verifier::external_body]
pub fn rename_sheet_in_node(node: &mut Node, sheet_index: u32, new_name: &str)
    requires sheet_index == g_idx(), new_name@ == g_name()
{ unimplemented!() }
#[verifier::loop_isolation(false)]
#[verifier::exec_allows_no_decreases_clause]
pub fn arm_OpRangeKind(left: &mut Box<Node>, right: &mut Box<Node>, sheet_index: u32, new_name: &str)
    requires sheet_index == g_idx(), new_name@ == g_name()
//@arm base/src/expressions/parser/stringify.rs rename_sheet_in_node `Node::OpRangeKind { left, right }`
//@end
#[verifier::loop_isolation(false)]
#[verifier::exec_allows_no_decreases_clause]
pub fn arm_OpConcatenateKind(left: &mut Box<Node>, right: &mut Box<Node>, sheet_index: u32, new_name: &str)
    requires sheet_index == g_idx(), new_name@ == g_name()
//@arm base/src/expressions/parser/stringify.rs rename_sheet_in_node `Node::OpConcatenateKind { left, right }`
//@end
#[verifier::loop_isolation(false)]
#[verifier::exec_allows_no_decreases_clause]
pub fn arm_OpSumKind(left: &mut Box<Node>, right: &mut Box<Node>, sheet_index: u32, new_name: &str)
    requires sheet_index == g_idx(), new_name@ == g_name()
//@arm base/src/expressions/parser/stringify.rs rename_sheet_in_node `Node::OpSumKind {`
//@end
#[verifier::loop_isolation(false)]
#[verifier::exec_allows_no_decreases_clause]
pub fn arm_OpProductKind(left: &mut Box<Node>, right: &mut Box<Node>, sheet_index: u32, new_name: &str)
    requires sheet_index == g_idx(), new_name@ == g_name()
//@arm base/src/expressions/parser/stringify.rs rename_sheet_in_node `Node::OpProductKind {`
//@end
#[verifier::loop_isolation(false)]
#[verifier::exec_allows_no_decreases_clause]
pub fn arm_OpPowerKind(left: &mut Box<Node>, right: &mut Box<Node>, sheet_index: u32, new_name: &str)
    requires sheet_index == g_idx(), new_name@ == g_name()
//@arm base/src/expressions/parser/stringify.rs rename_sheet_in_node `Node::OpPowerKind { left, right }`
//@end
#[verifier::loop_isolation(false)]
#[verifier::exec_allows_no_decreases_clause]
pub fn arm_FunctionKind(args: &mut Vec<Node>, sheet_index: u32, new_name: &str)
    requires sheet_index == g_idx(), new_name@ == g_name()
//@arm base/src/expressions/parser/stringify.rs rename_sheet_in_node `Node::FunctionKind { kind: _, args }`
//@end
#[verifier::loop_isolation(false)]
#[verifier::exec_allows_no_decreases_clause]
pub fn arm_NamedFunctionKind(args: &mut Vec<Node>, sheet_index: u32, new_name: &str)
    requires sheet_index == g_idx(), new_name@ == g_name()
//@arm base/src/expressions/parser/stringify.rs rename_sheet_in_node `Node::NamedFunctionKind {`
//@end
#[verifier::loop_isolation(false)]
#[verifier::exec_allows_no_decreases_clause]
pub fn arm_CompareKind(left: &mut Box<Node>, right: &mut Box<Node>, sheet_index: u32, new_name: &str)
    requires sheet_index == g_idx(), new_name@ == g_name()
//@arm base/src/expressions/parser/stringify.rs rename_sheet_in_node `Node::CompareKind {`
//@end
#[verifier::loop_isolation(false)]
#[verifier::exec_allows_no_decreases_clause]
pub fn arm_UnaryKind(right: &mut Box<Node>, sheet_index: u32, new_name: &str)
    requires sheet_index == g_idx(), new_name@ == g_name()
//@arm base/src/expressions/parser/stringify.rs rename_sheet_in_node `Node::UnaryKind { kind: _, right }`
//@end
#[verifier::loop_isolation(false)]
#[verifier::exec_allows_no_decreases_clause]
pub fn arm_ImplicitIntersection(child: &mut Box<Node>, sheet_index: u32, new_name: &str)
    requires sheet_index == g_idx(), new_name@ == g_name()
//@arm base/src/expressions/parser/stringify.rs rename_sheet_in_node `Node::ImplicitIntersection {`
//@end
#[verifier::loop_isolation(false)]
#[verifier::exec_allows_no_decreases_clause]
pub fn arm_SpillRangeOperator(child: &mut Box<Node>, sheet_index: u32, new_name: &str)
    requires sheet_index == g_idx(), new_name@ == g_name()
//@arm base/src/expressions/parser/stringify.rs rename_sheet_in_node `Node::SpillRangeOperator { child }`
//@end
#[verifier::loop_isolation(false)]
#[verifier::exec_allows_no_decreases_clause]
pub fn arm_LambdaDefKind(body: &mut Box<Node>, sheet_index: u32, new_name: &str)
    requires sheet_index == g_idx(), new_name@ == g_name()
//@arm base/src/expressions/parser/stringify.rs rename_sheet_in_node `Node::LambdaDefKind {`
//@end
#[verifier::loop_isolation(false)]
#[verifier::exec_allows_no_decreases_clause]
pub fn arm_LambdaCallKind(lambda: &mut Box<Node>, args: &mut Vec<Node>, sheet_index: u32, new_name: &str)
    requires sheet_index == g_idx(), new_name@ == g_name()
//@arm base/src/expressions/parser/stringify.rs rename_sheet_in_node `Node::LambdaCallKind { lambda, args }`
//@end

} // verus!
fn main() {}
