// Number-format code lexer (formatter/lexer.rs): the cursor primitives and scanners keep position <= len == chars.len(),
// so no index is out of range for ANY format string.   (C11)
use vstd::prelude::*;
verus! {
//@type base/src/formatter/lexer.rs Lexer
//@include std_text.rs
pub assume_specification [<char>::is_ascii_digit] (c: &char) -> (r: bool);
pub assume_specification [<char>::eq_ignore_ascii_case] (c: &char, o: &char) -> (r: bool);
// chars.parse::<f64>() has no Verus spec: the final parse of the collected digits is read as this total shim
#[verifier::external_body]
pub fn shim_parse_f64(s: &String) -> Option<f64> { s.parse::<f64>().ok() }

impl Lexer {
    // len < usize::MAX: a Vec<char> holds at most isize::MAX / 4 elements (assumed; needed for `position + 1 < len`)
    pub open spec fn wf(&self) -> bool { self.len == self.chars@.len() && self.position <= self.len && self.len < usize::MAX }

//@fn base/src/formatter/lexer.rs Lexer::peek_char
//@spec
    requires self.wf()
//@end
//@fn base/src/formatter/lexer.rs Lexer::read_next_char
//@spec
    requires old(self).wf()
    ensures final(self).wf(), final(self).len == old(self).len,
        r.is_some() ==> final(self).position == old(self).position + 1,
        r.is_none() ==> final(self).position == old(self).position,
//@rewrite `-> Option<char> {` => `-> (r: Option<char>) {`
//@end
//@fn base/src/formatter/lexer.rs Lexer::set_error
//@spec
    requires old(self).wf()
    ensures final(self).wf()
//@end
//@fn base/src/formatter/lexer.rs Lexer::consume_string
//@spec
    requires old(self).wf()
    ensures final(self).wf()
//@loop 1
            invariant self.wf(), len == self.len, position <= len
            decreases len - position
//@end
//@fn base/src/formatter/lexer.rs Lexer::consume_number
//@spec
    requires old(self).wf()
    ensures final(self).wf()
//@rewrite `chars.parse::<f64>().ok()` => `shim_parse_f64(&chars)`
//@loop 1
            invariant self.wf(), len == self.len, position <= len
            decreases len - position
//@loop 2
            invariant self.wf(), len == self.len, position <= len
            decreases len - position
//@loop 3
            invariant self.wf(), len == self.len, position <= len
            decreases len - position
//@end
// [Color n] / [Red]: the bracket text is the user's; `chars[5..]` is a BYTE offset and is reached only behind starts_with("Color")
// (R: the colour-name table lookup, an iterator adapter with a closure, is read as a total shim; it does not touch `chars`)
//@fn base/src/formatter/lexer.rs Lexer::consume_color
//@spec
    requires old(self).wf()
    ensures final(self).wf()
//@strslice chars string
//@rewrite* `colors.iter().position(|&x| x == lc)` => `shim_color_index(&lc)`
//@rewrite* `chars.starts_with("Color")` => `text_starts_with(chars.as_str(), "Color")`
//@rewrite* `.parse::<i32>()` => `.verif_parse_i32()`
//@loop 1
            invariant self.wf()
            decreases self.len - self.position
//@before? `if !text_starts_with(`
                proof { reveal_strlit("Color"); }
//@end
}
#[verifier::external_body]
pub fn shim_color_index(lc: &String) -> Option<usize> { ["black", "white", "red", "green", "blue", "yellow", "magenta"].iter().position(|&x| x == lc) }
} // verus!
fn main() {}
