// U-inscols / U-delcols: the column-descriptor list after insert_columns / delete_columns.   (C27, C12, C13, C14)
// Every descriptor interval goes through the same `shift` as references do; descriptors whose columns are all deleted vanish;
// sortedness / disjointness / min <= max are preserved; inserting k columns at p and deleting them again restores the list.
use vstd::prelude::*;
use vstd::std_specs::iter::IteratorSpec;
use std::collections::HashMap;
verus! {
//@include std_iter.rs
//@include ws_types.rs
impl Clone for Col { #[verifier::external_body] fn clone(&self) -> (r: Self) ensures r == *self { unimplemented!() } }

pub open spec fn small(x: int) -> bool { -4194304 <= x <= 4194304 }
/// sorted, non-overlapping, non-degenerate (the part of C27 about column descriptors)
pub open spec fn cols_sorted(v: Seq<Col>) -> bool {
    &&& forall|i: int| 0 <= i < v.len() ==> (#[trigger] v[i]).min <= v[i].max && small(v[i].min as int) && small(v[i].max as int)
    &&& forall|i: int, j: int| 0 <= i < j < v.len() ==> (#[trigger] v[i]).max < (#[trigger] v[j]).min
}
pub open spec fn same_attrs(a: Col, b: Col) -> bool { a.width == b.width && a.custom_width == b.custom_width && a.hidden == b.hidden && a.style == b.style }
// insertion of k columns at p: both ends of every descriptor go through shift(x, p, +k)
pub open spec fn ins(x: int, p: int, k: int) -> int { if x >= p { x + k } else { x } }
pub open spec fn inserted(c: Col, d: Col, p: int, k: int) -> bool {
    same_attrs(c, d) && d.min == ins(c.min as int, p, k) && d.max == ins(c.max as int, p, k)
}
// deletion of the band [s, s+k-1]: the surviving columns of a descriptor, shifted
pub open spec fn del_min(x: int, s: int, k: int) -> int { if x < s { x } else if x <= s + k - 1 { s } else { x - k } }
pub open spec fn del_max(x: int, s: int, k: int) -> int { if x < s { x } else if x <= s + k - 1 { s - 1 } else { x - k } }
pub open spec fn survives(c: Col, s: int, k: int) -> bool { del_min(c.min as int, s, k) <= del_max(c.max as int, s, k) }
pub open spec fn deleted_image(c: Col, d: Col, s: int, k: int) -> bool {
    same_attrs(c, d) && d.min == del_min(c.min as int, s, k) && d.max == del_max(c.max as int, s, k)
}
/// the descriptors of v that survive the deletion, in order, each mapped to its image
pub open spec fn del_list(v: Seq<Col>, s: int, k: int) -> Seq<Col>
    decreases v.len()
{
    if v.len() == 0 { Seq::empty() } else {
        let rest = del_list(v.drop_last(), s, k);
        let c = v.last();
        if survives(c, s, k) { rest.push(Col { min: del_min(c.min as int, s, k) as i32, max: del_max(c.max as int, s, k) as i32, width: c.width, custom_width: c.custom_width, hidden: c.hidden, style: c.style }) } else { rest }
    }
}

#[verifier::loop_isolation(false)]
pub fn insert_columns_descriptors(worksheet: &mut Worksheet, column: i32, column_count: i32)
    requires cols_sorted(old(worksheet).cols@), small(column as int), 0 < column_count, small(column_count as int)
    ensures
        final(worksheet).cols@.len() == old(worksheet).cols@.len(),
        forall|i: int| 0 <= i < old(worksheet).cols@.len() ==> inserted(old(worksheet).cols@[i], #[trigger] final(worksheet).cols@[i], column as int, column_count as int),
        forall|i: int| 0 <= i < final(worksheet).cols@.len() ==> (#[trigger] final(worksheet).cols@[i]).min <= final(worksheet).cols@[i].max,
        forall|i: int, j: int| 0 <= i < j < final(worksheet).cols@.len() ==> (#[trigger] final(worksheet).cols@[i]).max < (#[trigger] final(worksheet).cols@[j]).min,
{
    let ghost oc = worksheet.cols@;
//@fragment base/src/actions.rs Model::insert_columns `let mut new_columns = Vec::new();` .. `worksheet.cols = new_columns;`
//@loop 1 it
            invariant
                new_columns@.len() == it.index@,
                forall|i: int| 0 <= i < it.index@ ==> inserted(oc[i], #[trigger] new_columns@[i], column as int, column_count as int),
                it.iter.remaining().len() + it.index@ == oc.len(),
                forall|j: int| 0 <= j < it.iter.remaining().len() ==> *#[trigger] it.iter.remaining()[j] == oc[it.index@ + j],
//@before `let min = col.min;`
            assert(it.iter.remaining().len() >= 1);
            assert(*col == oc[it.index@]);
//@end
    proof {
        let w = worksheet.cols@;
        assert forall|i: int, j: int| 0 <= i < j < w.len() implies (#[trigger] w[i]).max < (#[trigger] w[j]).min by {
            assert(oc[i].max < oc[j].min);
        }
    }
}

#[verifier::loop_isolation(false)]
pub fn delete_columns_descriptors(worksheet: &mut Worksheet, column_start: i32, column_end: i32, column_count: i32)
    requires cols_sorted(old(worksheet).cols@), small(column_start as int), 0 < column_count, small(column_count as int), column_end == column_start + column_count - 1
    ensures
        final(worksheet).cols@ =~= del_list(old(worksheet).cols@, column_start as int, column_count as int),
{
    let ghost oc = worksheet.cols@;
//@fragment base/src/actions.rs Model::delete_columns `let mut new_columns = Vec::new();` .. `worksheet.cols = new_columns;`
//@loop 1 it
            invariant
                new_columns@ =~= del_list(oc.subrange(0, it.index@), column_start as int, column_count as int),
                it.iter.remaining().len() + it.index@ == oc.len(),
                forall|j: int| 0 <= j < it.iter.remaining().len() ==> *#[trigger] it.iter.remaining()[j] == oc[it.index@ + j],
//@before `let min = col.min;`
            assert(it.iter.remaining().len() >= 1);
            assert(*col == oc[it.index@]);
            proof {
                let pre = oc.subrange(0, it.index@);
                let cur = oc.subrange(0, it.index@ + 1);
                let c = oc[it.index@];
                let (s, k) = (column_start as int, column_count as int);
                assert(cur.drop_last() =~= pre);
                assert(cur.last() == c);
                assert(small(c.min as int) && small(c.max as int) && c.min <= c.max);
                assert(del_list(cur, s, k) == (if survives(c, s, k) { del_list(pre, s, k).push(Col { min: del_min(c.min as int, s, k) as i32, max: del_max(c.max as int, s, k) as i32, width: c.width, custom_width: c.custom_width, hidden: c.hidden, style: c.style }) } else { del_list(pre, s, k) }));
            }
//@before#1 `new_columns.push(new_column);`
                    proof {
                        let c = oc[it.index@];
                        let (s, k) = (column_start as int, column_count as int);
                        assert(survives(c, s, k));
                        assert(new_column.min == del_min(c.min as int, s, k) && new_column.max == del_max(c.max as int, s, k));
                    }
//@before#2 `new_columns.push(new_column);`
                    proof {
                        let c = oc[it.index@];
                        let (s, k) = (column_start as int, column_count as int);
                        assert(survives(c, s, k));
                        assert(new_column.min == del_min(c.min as int, s, k) && new_column.max == del_max(c.max as int, s, k));
                    }
//@before#3 `new_columns.push(new_column);`
                    proof {
                        let c = oc[it.index@];
                        let (s, k) = (column_start as int, column_count as int);
                        assert(survives(c, s, k));
                        assert(new_column.min == del_min(c.min as int, s, k) && new_column.max == del_max(c.max as int, s, k));
                    }
//@before#4 `new_columns.push(new_column);`
                    proof {
                        let c = oc[it.index@];
                        let (s, k) = (column_start as int, column_count as int);
                        assert(survives(c, s, k));
                        assert(new_column.min == del_min(c.min as int, s, k) && new_column.max == del_max(c.max as int, s, k));
                    }
//@before `new_columns.push(col.clone());`
                proof {
                    let c = oc[it.index@];
                    let (s, k) = (column_start as int, column_count as int);
                    assert(survives(c, s, k));
                    assert(c.min == del_min(c.min as int, s, k) && c.max == del_max(c.max as int, s, k));
                }
//@before `// skip this, we are deleting the whole range`
                    proof { assert(!survives(oc[it.index@], column_start as int, column_count as int)); }
//@end
    proof { assert(oc.subrange(0, oc.len() as int) =~= oc); }
}

pub proof fn lemma_del_order(x: int, y: int, s: int, k: int)
    requires k > 0
    ensures x < y ==> del_max(x, s, k) < del_min(y, s, k), x <= y ==> del_max(x, s, k) <= del_max(y, s, k)
{}
/// deletion keeps the list sorted, disjoint and non-degenerate (C27)
pub proof fn lemma_del_list_sorted(v: Seq<Col>, s: int, k: int)
    requires cols_sorted(v), k > 0, small(s), small(k)
    ensures
        forall|i: int| 0 <= i < del_list(v, s, k).len() ==> (#[trigger] del_list(v, s, k)[i]).min <= del_list(v, s, k)[i].max,
        forall|i: int, j: int| 0 <= i < j < del_list(v, s, k).len() ==> (#[trigger] del_list(v, s, k)[i]).max < (#[trigger] del_list(v, s, k)[j]).min,
        forall|i: int| 0 <= i < del_list(v, s, k).len() ==> v.len() > 0 && (#[trigger] del_list(v, s, k)[i]).max <= del_max(v.last().max as int, s, k),
    decreases v.len()
{
    if v.len() > 0 {
        let r = v.drop_last();
        assert(cols_sorted(r)) by {
            assert forall|i: int| 0 <= i < r.len() implies (#[trigger] r[i]).min <= r[i].max && small(r[i].min as int) && small(r[i].max as int) by { assert(r[i] == v[i]); }
            assert forall|i: int, j: int| 0 <= i < j < r.len() implies (#[trigger] r[i]).max < (#[trigger] r[j]).min by { assert(r[i] == v[i] && r[j] == v[j]); }
        }
        lemma_del_list_sorted(r, s, k);
        let c = v.last();
        let dl = del_list(v, s, k);
        let rl = del_list(r, s, k);
        assert(small(c.min as int) && small(c.max as int) && c.min <= c.max);
        if r.len() > 0 {
            assert(r.last() == v[v.len() - 2]);
            assert(v[v.len() - 2].max < v[v.len() - 1].min);
            lemma_del_order(r.last().max as int, c.min as int, s, k);
            lemma_del_order(r.last().max as int, c.max as int, s, k);
        }
        assert forall|i: int| 0 <= i < rl.len() implies (#[trigger] rl[i]).max < del_min(c.min as int, s, k) && rl[i].max <= del_max(c.max as int, s, k) by {}
        if survives(c, s, k) {
            assert(dl =~= rl.push(dl.last()));
            assert(dl.last().min == del_min(c.min as int, s, k) && dl.last().max == del_max(c.max as int, s, k));
            assert forall|i: int| 0 <= i < dl.len() implies (#[trigger] dl[i]).min <= dl[i].max && dl[i].max <= del_max(c.max as int, s, k) by {
                if i < rl.len() { assert(dl[i] == rl[i]); }
            }
            assert forall|i: int, j: int| 0 <= i < j < dl.len() implies (#[trigger] dl[i]).max < (#[trigger] dl[j]).min by {
                assert(dl[i] == rl[i]);
                if j < rl.len() { assert(dl[j] == rl[j]); }
            }
        } else {
            assert(dl =~= rl);
        }
    }
}

/// C14 at descriptor level: inserting k columns at p and deleting them again restores every descriptor
pub proof fn lemma_insert_then_delete_descriptor(c: Col, d: Col, p: int, k: int)
    requires k > 0, c.min <= c.max, inserted(c, d, p, k)
    ensures survives(d, p, k), del_min(d.min as int, p, k) == c.min, del_max(d.max as int, p, k) == c.max
{}

// ---- row descriptors: insert_rows / delete_rows rebuild the list through the same shift ----
impl Clone for Row { #[verifier::external_body] fn clone(&self) -> (r: Self) ensures r == *self { unimplemented!() } }
pub open spec fn row_same_attrs(a: Row, b: Row) -> bool { a.height == b.height && a.custom_format == b.custom_format && a.custom_height == b.custom_height && a.s == b.s && a.hidden == b.hidden }
pub open spec fn shift_row(x: int, p: int, k: int) -> Option<int> {
    if k >= 0 { if x >= p { Some(x + k) } else { Some(x) } } else if x < p { Some(x) } else if x < p - k { None } else { Some(x + k) }
}
/// the surviving row descriptors, in order, each moved to shift(r)
pub open spec fn shift_rows(v: Seq<Row>, p: int, k: int) -> Seq<Row>
    decreases v.len()
{
    if v.len() == 0 { Seq::empty() } else {
        let rest = shift_rows(v.drop_last(), p, k);
        let c = v.last();
        match shift_row(c.r as int, p, k) {
            Some(nr) => rest.push(Row { r: nr as i32, height: c.height, custom_format: c.custom_format, custom_height: c.custom_height, s: c.s, hidden: c.hidden }),
            None => rest,
        }
    }
}
#[verifier::loop_isolation(false)]
pub fn insert_rows_descriptors(rows: &Vec<Row>, row: i32, row_count: i32) -> (new_rows: Vec<Row>)
    requires small(row as int), 0 < row_count, small(row_count as int), forall|i: int| 0 <= i < rows@.len() ==> small((#[trigger] rows@[i]).r as int)
    ensures new_rows@ =~= shift_rows(rows@, row as int, row_count as int)
{
//@fragment base/src/actions.rs Model::insert_rows `let mut new_rows = vec![];` .. `new_rows.push(new_row);`
//@loop 1 it
            invariant new_rows@ =~= shift_rows(rows@.subrange(0, it.index@), row as int, row_count as int)
//@before `if r.r < row {`
            proof {
                assert(rows@.subrange(0, it.index@ + 1).drop_last() =~= rows@.subrange(0, it.index@));
                assert(rows@.subrange(0, it.index@ + 1).last() == *r);
                assert(small(r.r as int));
            }
//@end
    proof { assert(rows@.subrange(0, rows@.len() as int) =~= rows@); }
    new_rows
}
#[verifier::loop_isolation(false)]
pub fn delete_rows_descriptors(rows: &Vec<Row>, row: i32, row_count: i32) -> (new_rows: Vec<Row>)
    requires small(row as int), 0 < row_count, small(row_count as int), forall|i: int| 0 <= i < rows@.len() ==> small((#[trigger] rows@[i]).r as int)
    ensures new_rows@ =~= shift_rows(rows@, row as int, -(row_count as int))
{
//@fragment base/src/actions.rs Model::delete_rows `let mut new_rows = vec![];` .. `new_rows.push(new_row);`
//@loop 1 it
            invariant new_rows@ =~= shift_rows(rows@.subrange(0, it.index@), row as int, -(row_count as int))
//@before `if r.r < row {`
            proof {
                assert(rows@.subrange(0, it.index@ + 1).drop_last() =~= rows@.subrange(0, it.index@));
                assert(rows@.subrange(0, it.index@ + 1).last() == *r);
                assert(small(r.r as int));
            }
//@end
    proof { assert(rows@.subrange(0, rows@.len() as int) =~= rows@); }
    new_rows
}

/// row descriptors stay unique under insertion / deletion (C27: row descriptors are unique)
pub open spec fn rows_unique(v: Seq<Row>) -> bool { forall|i: int, j: int| 0 <= i < j < v.len() ==> (#[trigger] v[i]).r != (#[trigger] v[j]).r }
pub proof fn lemma_shift_rows_unique(v: Seq<Row>, p: int, k: int)
    requires rows_unique(v), small(p), small(k), forall|i: int| 0 <= i < v.len() ==> small((#[trigger] v[i]).r as int)
    ensures
        rows_unique(shift_rows(v, p, k)),
        forall|j: int| 0 <= j < shift_rows(v, p, k).len() ==> exists|i: int| 0 <= i < v.len() && shift_row((#[trigger] v[i]).r as int, p, k) == Some((#[trigger] shift_rows(v, p, k)[j]).r as int),
    decreases v.len()
{
    if v.len() > 0 {
        let r = v.drop_last();
        assert(rows_unique(r)) by { assert forall|i: int, j: int| 0 <= i < j < r.len() implies (#[trigger] r[i]).r != (#[trigger] r[j]).r by { assert(r[i] == v[i] && r[j] == v[j]); } }
        assert forall|i: int| 0 <= i < r.len() implies small((#[trigger] r[i]).r as int) by { assert(r[i] == v[i]); }
        lemma_shift_rows_unique(r, p, k);
        let c = v.last();
        let out = shift_rows(v, p, k);
        let ro = shift_rows(r, p, k);
        assert(small(c.r as int));
        assert forall|j: int| 0 <= j < ro.len() implies (exists|i: int| 0 <= i < v.len() && shift_row((#[trigger] v[i]).r as int, p, k) == Some((#[trigger] ro[j]).r as int))
            && (shift_row(c.r as int, p, k) is Some ==> ro[j].r as int != shift_row(c.r as int, p, k).unwrap()) by {
            let i = choose|i: int| 0 <= i < r.len() && shift_row((#[trigger] r[i]).r as int, p, k) == Some(ro[j].r as int);
            assert(r[i] == v[i]);
            assert(v[i].r != v[v.len() - 1].r);
            assert(small(v[i].r as int));
        }
        match shift_row(c.r as int, p, k) {
            Some(nr) => {
                assert(out =~= ro.push(out.last()));
                assert(out.last().r == nr);
                assert forall|j: int| 0 <= j < out.len() implies exists|i: int| 0 <= i < v.len() && shift_row((#[trigger] v[i]).r as int, p, k) == Some((#[trigger] out[j]).r as int) by {
                    if j < ro.len() { assert(out[j] == ro[j]); } else { assert(v[v.len() - 1] == c); }
                }
                assert forall|i: int, j: int| 0 <= i < j < out.len() implies (#[trigger] out[i]).r != (#[trigger] out[j]).r by {
                    assert(out[i] == ro[i]);
                    if j < ro.len() { assert(out[j] == ro[j]); }
                }
            }
            None => { assert(out =~= ro); }
        }
    }
}

// ---- move_row_unchecked: the row-descriptor list after moving row `row` by `delta`: every descriptor keeps its attributes and
// goes to move1(r) (C15: row sizes, styles and hidden flags follow their rows) ----
pub open spec fn move1(x: int, m: int, d: int) -> int {
    if x == m { m + d } else if d > 0 && m < x <= m + d { x - 1 } else if d < 0 && m + d <= x < m { x + 1 } else { x }
}
#[verifier::loop_isolation(false)]
pub fn move_row_descriptors(worksheet: &mut Worksheet, row: i32, delta: i32, target_row: i32)
    requires small(row as int), small(delta as int), target_row == row + delta, forall|i: int| 0 <= i < old(worksheet).rows@.len() ==> small((#[trigger] old(worksheet).rows@[i]).r as int)
    ensures
        final(worksheet).rows@.len() == old(worksheet).rows@.len(),
        forall|i: int| 0 <= i < old(worksheet).rows@.len() ==> row_same_attrs(old(worksheet).rows@[i], #[trigger] final(worksheet).rows@[i])
            && final(worksheet).rows@[i].r == move1(old(worksheet).rows@[i].r as int, row as int, delta as int),
{
    let ghost oc = worksheet.rows@;
//@fragment base/src/actions.rs Model::move_row_unchecked `let mut new_rows = Vec::new();` .. `worksheet.rows = new_rows;`
//@loop 1 it
            invariant
                new_rows@.len() == it.index@,
                forall|i: int| 0 <= i < it.index@ ==> row_same_attrs(oc[i], #[trigger] new_rows@[i]) && new_rows@[i].r == move1(oc[i].r as int, row as int, delta as int),
//@before `if r.r == row {`
            assert(*r == oc[it.index@] && small(r.r as int));
//@end
}

// ---- sheet ids ----
#[verifier::external_body] pub struct WorkbookRest { _o: u8 }
#[verifier::external_body] pub struct ModelRest { _o: u8 }
//@type base/src/types.rs DefinedName
pub struct Workbook { pub worksheets: Vec<Worksheet>, pub defined_names: Vec<DefinedName>, pub rest: WorkbookRest }
pub struct Model { pub workbook: Workbook, pub rest: ModelRest }
impl Model {
//@fn base/src/new_empty.rs Model::get_new_sheet_id
//@attr
#[verifier::loop_isolation(false)]
//@spec
    requires forall|i: int| 0 <= i < self.workbook.worksheets@.len() ==> (#[trigger] self.workbook.worksheets@[i]).sheet_id < 4294967295,
        forall|i: int| 0 <= i < self.workbook.defined_names@.len() ==> ((#[trigger] self.workbook.defined_names@[i]).sheet_id matches Some(id) ==> id < 4294967295),
    ensures forall|i: int| 0 <= i < self.workbook.worksheets@.len() ==> (#[trigger] self.workbook.worksheets@[i]).sheet_id < r,   // fresh: ids stay unique
        // and never the id a defined name is local to (C32 / C27: a new sheet does not adopt the names of a deleted sheet)
        forall|i: int| 0 <= i < self.workbook.defined_names@.len() ==> ((#[trigger] self.workbook.defined_names@[i]).sheet_id matches Some(id) ==> id < r),
//@rewrite `-> u32 {` => `-> (r: u32) {`
//@loop 1 it
            invariant
                index < 4294967295,
                forall|i: int| 0 <= i < it.index@ ==> (#[trigger] worksheets@[i]).sheet_id <= index,
//@before `index = index.max(worksheet.sheet_id);`
            assert(*worksheet == worksheets@[it.index@] && worksheets@ == self.workbook.worksheets@);
//@rewrite `for defined_name in &self.workbook.defined_names {` => `for defined_name in it2: self.workbook.defined_names.iter() {`
//@loop 2
            invariant
                index < 4294967295,
                forall|i: int| 0 <= i < self.workbook.worksheets@.len() ==> (#[trigger] self.workbook.worksheets@[i]).sheet_id <= index,
                forall|i: int| 0 <= i < it2.index@ ==> ((#[trigger] self.workbook.defined_names@[i]).sheet_id matches Some(id) ==> id <= index),
//@before `if let Some(sheet_id) = defined_name.sheet_id {`
            assert(*defined_name == self.workbook.defined_names@[it2.index@]);
//@end
}

} // verus!
fn main() {}
