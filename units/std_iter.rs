// ---- std_iter.rs: assumed fact about dropping a slice::IterMut (trusted base, A-itermut-drop) ----
// `snap` is the ghost snapshot of the iterator taken at the head of the current for-loop iteration, so
// snap.remaining()[0] is the element handed to the loop body and remaining()[1..] have not been yielded.
// When the function returns from inside the loop body the iterator is dropped, and Rust guarantees the
// elements it never yielded are not written.  Only ever invoked immediately before such a `return`.
#[verifier::external_body]
pub proof fn axiom_iter_mut_dropped<'a, T>(snap: &core::slice::IterMut<'a, T>)
    ensures forall|j: int| 1 <= j < snap.remaining().len() ==> *final(#[trigger] snap.remaining()[j]) == *snap.remaining()[j]
{}
