// U-atomic: a user-model operation that returns Err leaves model, history and outgoing queue untouched; on Ok
// it records exactly one history entry.   (C04)
use vstd::prelude::*;
use std::collections::HashMap;
use vstd::std_specs::cmp::*;
verus! {
//@type base/src/constants.rs LAST_COLUMN
//@type base/src/constants.rs LAST_ROW
//@include um_shells.rs
impl<'a> Model<'a> {
// ---- A-atomic: each engine call either succeeds or leaves the engine state unchanged (ASSUMED, listed) ----
//@stub base/src/model.rs Model::get_frozen_rows_count
//@end
//@stub base/src/model.rs Model::get_frozen_columns_count
//@end
//@stub base/src/model.rs Model::set_frozen_rows
    ensures r.is_err() ==> *final(self) == *old(self)
//@end
//@stub base/src/model.rs Model::set_frozen_columns
    ensures r.is_err() ==> *final(self) == *old(self)
//@end
//@stub base/src/model.rs Model::set_timezone
    ensures r.is_err() ==> *final(self) == *old(self)
//@end
//@stub base/src/model.rs Model::set_locale
    ensures r.is_err() ==> *final(self) == *old(self)
//@end
//@stub base/src/model.rs Model::get_timezone
//@end
//@stub base/src/model.rs Model::get_locale
//@end
//@stub base/src/model.rs Model::delete_defined_name
    ensures r.is_err() ==> *final(self) == *old(self)
//@end
//@stub base/src/model.rs Model::get_defined_name_formula
    ensures self.name_readable(name@, scope) ==> r.is_ok()
//@end
//@stub base/src/model.rs Model::set_show_grid_lines
    ensures r.is_err() ==> *final(self) == *old(self)
//@end
//@stub base/src/model.rs Model::set_sheet_color
    ensures r.is_err() ==> *final(self) == *old(self)
//@end
//@stub base/src/model.rs Model::set_sheet_state
    ensures r.is_err() ==> *final(self) == *old(self)
//@end
//@stub base/src/model.rs Model::evaluate
//@end
// cell-level engine calls: they fail only for a position that is off the sheet list / grid (`cell_ok`); a successful input keeps the position valid
    pub uninterp spec fn cell_ok(&self, sheet: u32, row: i32, column: i32) -> bool;
//@stub base/src/links.rs Model::get_cell_link
    ensures r.is_ok() == self.cell_ok(sheet, row, column)
//@end
//@stub base/src/model.rs Model::get_cell_style_or_none
    ensures self.cell_ok(sheet, row, column) ==> r.is_ok()      // (also assumes the cell's style index exists: C27/C30 invariant of the style table)
//@end
//@stub base/src/model.rs Model::get_style_for_cell
    ensures self.cell_ok(sheet, row, column) ==> r.is_ok()
//@end
//@stub base/src/model.rs Model::set_user_input
    ensures r.is_err() ==> *final(self) == *old(self), r.is_ok() ==> final(self).cell_ok(sheet, row, column)
//@end
//@stub base/src/model.rs Model::set_user_array_formula
    ensures r.is_err() ==> *final(self) == *old(self)
//@end
//@stub base/src/new_empty.rs Model::rename_sheet_by_index
    ensures r.is_err() ==> *final(self) == *old(self)
//@end
//@stub base/src/model.rs Model::new_defined_name
    ensures r.is_err() ==> *final(self) == *old(self),
            // ASSUMED (A-created): a name that was just created can be read back
            r.is_ok() ==> final(self).name_readable(name@, scope)
//@end
//@stub base/src/actions.rs Model::insert_rows
    ensures r.is_err() ==> *final(self) == *old(self)
//@end
//@stub base/src/actions.rs Model::insert_columns
    ensures r.is_err() ==> *final(self) == *old(self)
//@end
//@stub base/src/actions.rs Model::move_rows_action
    ensures r.is_err() ==> *final(self) == *old(self)
//@end
//@stub base/src/actions.rs Model::move_columns_action
    ensures r.is_err() ==> *final(self) == *old(self)
//@end
// A-valid-ok (ASSUMED here, PROVED one level down): the column/row attribute calls fail only for a missing sheet, an off-grid
// line or a negative size — Worksheet::{get_column_width,set_column_width,row_height,set_row_height} carry exactly this
// `Err iff` contract in units cols/rows, and unit delegates proves the Model one-liners pass their arguments through unchanged.
//@stub base/src/model.rs Model::get_column_width
    ensures self.has_sheet(sheet) && 1 <= column <= 16384 ==> r.is_ok()
//@end
//@stub base/src/model.rs Model::set_column_width
    ensures r.is_err() ==> *final(self) == *old(self),
            final(self).workbook.worksheets@.len() == old(self).workbook.worksheets@.len(),
            old(self).has_sheet(sheet) && 1 <= column <= 16384 && lt_ensures::<f64>(width, 0.0f64, false) ==> r.is_ok()
//@end
//@stub base/src/model.rs Model::get_row_height
    ensures self.has_sheet(sheet) && 1 <= row <= 1048576 ==> r.is_ok()
//@end
//@stub base/src/model.rs Model::set_row_height
    ensures r.is_err() ==> *final(self) == *old(self),
            final(self).workbook.worksheets@.len() == old(self).workbook.worksheets@.len(),
            old(self).has_sheet(sheet) && 1 <= column <= 1048576 && lt_ensures::<f64>(height, 0.0f64, false) ==> r.is_ok()
//@end
    pub uninterp spec fn name_readable(&self, name: Seq<char>, scope: Option<u32>) -> bool;
    pub open spec fn has_sheet(&self, sheet: u32) -> bool { (sheet as int) < self.workbook.worksheets@.len() }
}
impl Workbook {
//@stub base/src/workbook.rs Workbook::worksheet
    ensures r.is_ok() == ((worksheet_index as int) < self.worksheets@.len())
//@end
}
#[verifier::external_body]
pub fn shim_to_string(s: &str) -> (r: String) ensures r@ == s@ { s.to_string() }
//@fn base/src/expressions/utils/mod.rs is_valid_column_number
//@spec
    ensures r == (1 <= column <= 16384)
//@rewrite `-> bool` => `-> (r: bool)`
//@end
//@fn base/src/expressions/utils/mod.rs is_valid_row
//@spec
    ensures r == (1 <= row <= 1048576)
//@rewrite `-> bool` => `-> (r: bool)`
//@end
impl Worksheet {
//@stub base/src/worksheet.rs Worksheet::cell
//@end
//@stub base/src/worksheet.rs Worksheet::is_row_hidden
//@end
//@stub base/src/worksheet.rs Worksheet::is_column_hidden
//@end
}

impl History {
//@fn base/src/user_model/history.rs History::push
//@spec
    ensures
        final(self).undo_stack@ =~= old(self).undo_stack@.push(diff_list),
        final(self).redo_stack@.len() == 0,
//@end
}

impl<'a> UserModel<'a> {
//@fn base/src/user_model/common.rs UserModel::push_diff_list
//@spec
    ensures
        final(self).model == old(self).model, final(self).pause_evaluation == old(self).pause_evaluation,
        one_entry(old(self), final(self)),
//@end
//@fn base/src/user_model/common.rs UserModel::evaluate_if_not_paused
//@spec
    ensures
        final(self).history == old(self).history, final(self).send_queue == old(self).send_queue,
//@end
//@fn base/src/user_model/common.rs UserModel::get_timezone
//@end
//@fn base/src/user_model/common.rs UserModel::get_locale
//@end

//@fn base/src/user_model/common.rs UserModel::set_frozen_rows_count
//@spec
    ensures
        r.is_err() ==> same_state(old(self), final(self)),
        r.is_ok() ==> one_entry(old(self), final(self)),
//@rewrite `-> Result<(), String>` => `-> (r: Result<(), String>)`
//@end
//@fn base/src/user_model/common.rs UserModel::set_frozen_columns_count
//@spec
    ensures
        r.is_err() ==> same_state(old(self), final(self)),
        r.is_ok() ==> one_entry(old(self), final(self)),
//@rewrite `-> Result<(), String>` => `-> (r: Result<(), String>)`
//@end
//@fn base/src/user_model/common.rs UserModel::set_timezone
//@spec
    ensures
        r.is_err() ==> same_state(old(self), final(self)),
        r.is_ok() ==> one_entry(old(self), final(self)),
//@rewrite `-> Result<(), String>` => `-> (r: Result<(), String>)`
//@end
//@fn base/src/user_model/common.rs UserModel::set_locale
//@spec
    ensures
        r.is_err() ==> same_state(old(self), final(self)),
        r.is_ok() ==> one_entry(old(self), final(self)),
//@rewrite `-> Result<(), String>` => `-> (r: Result<(), String>)`
//@end
//@fn base/src/user_model/common.rs UserModel::delete_defined_name
//@spec
    ensures
        r.is_err() ==> same_state(old(self), final(self)),
        r.is_ok() ==> one_entry(old(self), final(self)),
//@rewrite `-> Result<(), String>` => `-> (r: Result<(), String>)`
//@end

//@fn base/src/user_model/common.rs UserModel::set_show_grid_lines
//@spec
    ensures r.is_err() ==> same_state(old(self), final(self)), r.is_ok() ==> one_entry(old(self), final(self)),
//@rewrite `-> Result<(), String> {` => `-> (r: Result<(), String>) {`
//@end
//@fn base/src/user_model/common.rs UserModel::set_sheet_color
//@spec
    ensures r.is_err() ==> same_state(old(self), final(self)), r.is_ok() ==> one_entry(old(self), final(self)),
//@rewrite `-> Result<(), String> {` => `-> (r: Result<(), String>) {`
//@end
//@fn base/src/user_model/common.rs UserModel::unhide_sheet
//@spec
    ensures r.is_err() ==> same_state(old(self), final(self)), r.is_ok() ==> one_entry(old(self), final(self)),
//@rewrite `-> Result<(), String> {` => `-> (r: Result<(), String>) {`
//@end
//@fn base/src/user_model/common.rs UserModel::rename_sheet
//@spec
    ensures r.is_err() ==> same_state(old(self), final(self)),
            r.is_ok() ==> one_entry(old(self), final(self)) || same_state(old(self), final(self)),   // renaming to the same name is a no-op
//@rewrite `-> Result<(), String> {` => `-> (r: Result<(), String>) {`
//@end
//@fn base/src/user_model/common.rs UserModel::new_defined_name
//@spec
    ensures r.is_err() ==> same_state(old(self), final(self)), r.is_ok() ==> one_entry(old(self), final(self)),
//@rewrite `) -> Result<(), String> {` => `) -> (r: Result<(), String>) {`
//@end
//@fn base/src/user_model/common.rs UserModel::insert_rows
//@spec
    ensures r.is_err() ==> same_state(old(self), final(self)), r.is_ok() ==> one_entry(old(self), final(self)),
//@rewrite `-> Result<(), String> {` => `-> (r: Result<(), String>) {`
//@end
//@fn base/src/user_model/common.rs UserModel::insert_columns
//@spec
    ensures r.is_err() ==> same_state(old(self), final(self)), r.is_ok() ==> one_entry(old(self), final(self)),
//@rewrite `) -> Result<(), String> {` => `) -> (r: Result<(), String>) {`
//@end
//@fn base/src/user_model/common.rs UserModel::move_rows_action
//@attr
#[verifier::loop_isolation(false)]
//@spec
    requires -4194304 <= row <= 4194304, -4194304 <= row_count <= 4194304, -4194304 <= delta <= 4194304
    ensures r.is_err() ==> same_state(old(self), final(self)),
            r.is_ok() ==> one_entry(old(self), final(self)) || same_state(old(self), final(self)),
//@rewrite `) -> Result<(), String> {` => `) -> (r: Result<(), String>) {`
//@loop 1
                invariant delta <= new_delta <= delta + (r - (row + row_count)), row + row_count <= r <= row + row_count + delta + 1
//@loop 2
                invariant delta - (r - (row + delta)) <= new_delta <= delta, row + delta <= r <= row
//@end
//@fn base/src/user_model/common.rs UserModel::move_columns_action
//@attr
#[verifier::loop_isolation(false)]
//@spec
    requires -4194304 <= column <= 4194304, -4194304 <= column_count <= 4194304, -4194304 <= delta <= 4194304
    ensures r.is_err() ==> same_state(old(self), final(self)),
            r.is_ok() ==> one_entry(old(self), final(self)) || same_state(old(self), final(self)),
//@rewrite `) -> Result<(), String> {` => `) -> (r: Result<(), String>) {`
//@loop 1
                invariant delta <= new_delta <= delta + (col - (column + column_count)), column + column_count <= col <= column + column_count + delta + 1
//@loop 2
                invariant delta - (col - (column + delta)) <= new_delta <= delta, column + delta <= col <= column
//@end

// typing into a cell: everything that can fail does so before the engine takes the input, or cannot fail after it did
//@fn base/src/user_model/common.rs UserModel::set_user_input_with_link_diffs
//@spec
    ensures r.is_err() ==> final(self).model == old(self).model,
        final(self).history == old(self).history, final(self).send_queue == old(self).send_queue, final(self).pause_evaluation == old(self).pause_evaluation,
//@rewrite `) -> Result<(), String> {` => `) -> (r: Result<(), String>) {`
//@end
/// UserModel::set_user_input up to the re-evaluation (D2: the row auto-fit that follows is f64 arithmetic Verus cannot translate)
pub fn set_user_input_head(&mut self, sheet: u32, row: i32, column: i32, value: &str) -> (r: Result<Vec<Diff>, String>)
    ensures r.is_err() ==> same_state(old(self), final(self)),
        final(self).history == old(self).history, final(self).send_queue == old(self).send_queue,
{
//@fragment base/src/user_model/common.rs UserModel::set_user_input `if !is_valid_column_number(column) {` .. `self.set_user_input_with_link_diffs(sheet, row, column, value.to_string(), &mut diff_list)?;`
//@rewrite* `value.to_string()` => `shim_to_string(value)`
//@end
    Ok(diff_list)
}
// array formula entry: the old cells are only READ before the single engine call, whose failure leaves everything alone
//@fn base/src/user_model/common.rs UserModel::set_user_array_formula
//@attr
#[verifier::loop_isolation(false)]
//@spec
    requires -4194304 <= row <= 4194304 && -4194304 <= column <= 4194304 && -4194304 <= width <= 4194304 && -4194304 <= height <= 4194304
    ensures r.is_err() ==> same_state(old(self), final(self)), r.is_ok() ==> one_entry(old(self), final(self)),
//@rewrite `) -> Result<(), String> {` => `) -> (r: Result<(), String>) {`
//@end
// bulk setters: the whole request is validated before the first column/row is touched, so no `?` inside the loop can fire
// after a mutation (R4: the inclusive-range `for` is read as the equivalent `while`, vstd has no iteration spec for RangeInclusive)
//@fn base/src/user_model/common.rs UserModel::set_columns_width
//@attr
#[verifier::loop_isolation(false)]
//@spec
    ensures r.is_err() ==> same_state(old(self), final(self)), r.is_ok() ==> one_entry(old(self), final(self)),
//@rewrite `) -> Result<(), String> {` => `) -> (r: Result<(), String>) {`
//@forwhile 1
//@loop 1
            invariant column_start <= __column, column_start <= column_end ==> __column <= column_end + 1,
                self.model.has_sheet(sheet), self.history == old(self).history, self.send_queue == old(self).send_queue,
            decreases column_end + 1 - __column
//@end
//@fn base/src/user_model/common.rs UserModel::set_rows_height
//@attr
#[verifier::loop_isolation(false)]
//@spec
    ensures r.is_err() ==> same_state(old(self), final(self)), r.is_ok() ==> one_entry(old(self), final(self)),
//@rewrite `) -> Result<(), String> {` => `) -> (r: Result<(), String>) {`
//@forwhile 1
//@loop 1
            invariant row_start <= __row, row_start <= row_end ==> __row <= row_end + 1,
                self.model.has_sheet(sheet), self.history == old(self).history, self.send_queue == old(self).send_queue,
            decreases row_end + 1 - __row
//@end
}

} // verus!
fn main() {}
