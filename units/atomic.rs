// U-atomic: a user-model operation that returns Err leaves model, history and outgoing queue untouched; on Ok
// it records exactly one history entry.   (C04)
use vstd::prelude::*;
use std::collections::HashMap;
verus! {
// ---- context shells (D5): Model/Workbook declared with only the fields the extracted functions touch; every other
// piece of engine state sits behind an opaque `rest` field.  Diff is the REAL enum; field types no operation here
// looks into are opaque.
#[verifier::external_body] pub struct Cell { _o: u8 }
#[verifier::external_body] pub struct Col { _o: u8 }
#[verifier::external_body] pub struct Row { _o: u8 }
#[verifier::external_body] pub struct Style { _o: u8 }
#[verifier::external_body] pub struct StyleIncludes { _o: u8 }
#[verifier::external_body] pub struct Theme { _o: u8 }
#[verifier::external_body] pub struct CfRule { _o: u8 }
#[verifier::external_body] pub struct Link { _o: u8 }
#[verifier::external_body] pub struct Color { _o: u8 }
#[verifier::external_body] pub struct Worksheet { _o: u8 }
#[verifier::external_body] pub struct ModelRest<'a> { _p: core::marker::PhantomData<&'a u8> }
#[verifier::external_body] pub struct WorkbookRest { _o: u8 }
impl Clone for Color { #[verifier::external_body] fn clone(&self) -> (r: Self) ensures r == *self { unimplemented!() } }
//@type base/src/types.rs SheetState
impl Clone for SheetState { #[verifier::external_body] fn clone(&self) -> (r: Self) ensures r == *self { unimplemented!() } }
//@type base/src/user_model/history.rs RowData
//@type base/src/user_model/history.rs ColumnData
//@type base/src/user_model/history.rs Diff
impl Clone for Diff { #[verifier::external_body] fn clone(&self) -> (r: Self) ensures r == *self { unimplemented!() } }
//@type base/src/user_model/history.rs DiffList
//@type base/src/user_model/history.rs History
//@type base/src/user_model/history.rs DiffType
//@type base/src/user_model/history.rs QueueDiffs
//@type base/src/types.rs WorkbookView
#[verifier::external_body] pub struct WorksheetView { _o: u8 }
pub struct Workbook { pub worksheets: Vec<Worksheet>, pub views: HashMap<u32, WorkbookView>, pub name: String, pub rest: WorkbookRest }
pub struct Model<'a> { pub workbook: Workbook, pub view_id: u32, pub rest: ModelRest<'a> }
//@type base/src/user_model/common.rs UserModel

/// the part of a UserModel that C04 says a failed call must leave alone
pub open spec fn same_state(a: &UserModel, b: &UserModel) -> bool {
    a.model == b.model && a.history.undo_stack@ =~= b.history.undo_stack@ && a.history.redo_stack@ =~= b.history.redo_stack@
        && a.send_queue@ =~= b.send_queue@
}
/// exactly one entry recorded (and, per C02, the redo list discarded)
pub open spec fn one_entry(a: &UserModel, b: &UserModel) -> bool {
    b.history.undo_stack@.len() == a.history.undo_stack@.len() + 1 && b.history.undo_stack@.drop_last() =~= a.history.undo_stack@
        && b.history.redo_stack@.len() == 0 && b.send_queue@.len() == a.send_queue@.len() + 1
}

impl<'a> Model<'a> {
// ---- A-atomic: each engine call either succeeds or leaves the engine state unchanged (ASSUMED, listed) ----
//@stub base/src/model.rs Model::get_frozen_rows_count
//@end
//@stub base/src/model.rs Model::get_frozen_columns_count
//@end
//@stub base/src/model.rs Model::set_frozen_rows
    ensures r.is_err() ==> *final(self) == *old(self)
//@end
//@stub base/src/model.rs Model::set_frozen_columns
    ensures r.is_err() ==> *final(self) == *old(self)
//@end
//@stub base/src/model.rs Model::set_timezone
    ensures r.is_err() ==> *final(self) == *old(self)
//@end
//@stub base/src/model.rs Model::set_locale
    ensures r.is_err() ==> *final(self) == *old(self)
//@end
//@stub base/src/model.rs Model::get_timezone
//@end
//@stub base/src/model.rs Model::get_locale
//@end
//@stub base/src/model.rs Model::delete_defined_name
    ensures r.is_err() ==> *final(self) == *old(self)
//@end
//@stub base/src/model.rs Model::get_defined_name_formula
//@end
//@stub base/src/model.rs Model::set_show_grid_lines
    ensures r.is_err() ==> *final(self) == *old(self)
//@end
//@stub base/src/model.rs Model::set_sheet_color
    ensures r.is_err() ==> *final(self) == *old(self)
//@end
//@stub base/src/model.rs Model::set_sheet_state
    ensures r.is_err() ==> *final(self) == *old(self)
//@end
//@stub base/src/model.rs Model::evaluate
//@end
}

impl History {
//@fn base/src/user_model/history.rs History::push
//@spec
    ensures
        final(self).undo_stack@ =~= old(self).undo_stack@.push(diff_list),
        final(self).redo_stack@.len() == 0,
//@end
}

impl<'a> UserModel<'a> {
//@fn base/src/user_model/common.rs UserModel::push_diff_list
//@spec
    ensures
        final(self).model == old(self).model, final(self).pause_evaluation == old(self).pause_evaluation,
        one_entry(old(self), final(self)),
//@end
//@fn base/src/user_model/common.rs UserModel::evaluate_if_not_paused
//@spec
    ensures
        final(self).history == old(self).history, final(self).send_queue == old(self).send_queue,
//@end
//@fn base/src/user_model/common.rs UserModel::get_timezone
//@end
//@fn base/src/user_model/common.rs UserModel::get_locale
//@end

//@fn base/src/user_model/common.rs UserModel::set_frozen_rows_count
//@spec
    ensures
        r.is_err() ==> same_state(old(self), final(self)),
        r.is_ok() ==> one_entry(old(self), final(self)),
//@rewrite `-> Result<(), String>` => `-> (r: Result<(), String>)`
//@end
//@fn base/src/user_model/common.rs UserModel::set_frozen_columns_count
//@spec
    ensures
        r.is_err() ==> same_state(old(self), final(self)),
        r.is_ok() ==> one_entry(old(self), final(self)),
//@rewrite `-> Result<(), String>` => `-> (r: Result<(), String>)`
//@end
//@fn base/src/user_model/common.rs UserModel::set_timezone
//@spec
    ensures
        r.is_err() ==> same_state(old(self), final(self)),
        r.is_ok() ==> one_entry(old(self), final(self)),
//@rewrite `-> Result<(), String>` => `-> (r: Result<(), String>)`
//@end
//@fn base/src/user_model/common.rs UserModel::set_locale
//@spec
    ensures
        r.is_err() ==> same_state(old(self), final(self)),
        r.is_ok() ==> one_entry(old(self), final(self)),
//@rewrite `-> Result<(), String>` => `-> (r: Result<(), String>)`
//@end
//@fn base/src/user_model/common.rs UserModel::delete_defined_name
//@spec
    ensures
        r.is_err() ==> same_state(old(self), final(self)),
        r.is_ok() ==> one_entry(old(self), final(self)),
//@rewrite `-> Result<(), String>` => `-> (r: Result<(), String>)`
//@end
}

} // verus!
fn main() {}
