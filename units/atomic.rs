// U-atomic: a user-model operation that returns Err leaves model, history and outgoing queue untouched; on Ok
// it records exactly one history entry.   (C04)
use vstd::prelude::*;
use std::collections::HashMap;
verus! {
//@include um_shells.rs
impl<'a> Model<'a> {
// ---- A-atomic: each engine call either succeeds or leaves the engine state unchanged (ASSUMED, listed) ----
//@stub base/src/model.rs Model::get_frozen_rows_count
//@end
//@stub base/src/model.rs Model::get_frozen_columns_count
//@end
//@stub base/src/model.rs Model::set_frozen_rows
    ensures r.is_err() ==> *final(self) == *old(self)
//@end
//@stub base/src/model.rs Model::set_frozen_columns
    ensures r.is_err() ==> *final(self) == *old(self)
//@end
//@stub base/src/model.rs Model::set_timezone
    ensures r.is_err() ==> *final(self) == *old(self)
//@end
//@stub base/src/model.rs Model::set_locale
    ensures r.is_err() ==> *final(self) == *old(self)
//@end
//@stub base/src/model.rs Model::get_timezone
//@end
//@stub base/src/model.rs Model::get_locale
//@end
//@stub base/src/model.rs Model::delete_defined_name
    ensures r.is_err() ==> *final(self) == *old(self)
//@end
//@stub base/src/model.rs Model::get_defined_name_formula
//@end
//@stub base/src/model.rs Model::set_show_grid_lines
    ensures r.is_err() ==> *final(self) == *old(self)
//@end
//@stub base/src/model.rs Model::set_sheet_color
    ensures r.is_err() ==> *final(self) == *old(self)
//@end
//@stub base/src/model.rs Model::set_sheet_state
    ensures r.is_err() ==> *final(self) == *old(self)
//@end
//@stub base/src/model.rs Model::evaluate
//@end
}

impl History {
//@fn base/src/user_model/history.rs History::push
//@spec
    ensures
        final(self).undo_stack@ =~= old(self).undo_stack@.push(diff_list),
        final(self).redo_stack@.len() == 0,
//@end
}

impl<'a> UserModel<'a> {
//@fn base/src/user_model/common.rs UserModel::push_diff_list
//@spec
    ensures
        final(self).model == old(self).model, final(self).pause_evaluation == old(self).pause_evaluation,
        one_entry(old(self), final(self)),
//@end
//@fn base/src/user_model/common.rs UserModel::evaluate_if_not_paused
//@spec
    ensures
        final(self).history == old(self).history, final(self).send_queue == old(self).send_queue,
//@end
//@fn base/src/user_model/common.rs UserModel::get_timezone
//@end
//@fn base/src/user_model/common.rs UserModel::get_locale
//@end

//@fn base/src/user_model/common.rs UserModel::set_frozen_rows_count
//@spec
    ensures
        r.is_err() ==> same_state(old(self), final(self)),
        r.is_ok() ==> one_entry(old(self), final(self)),
//@rewrite `-> Result<(), String>` => `-> (r: Result<(), String>)`
//@end
//@fn base/src/user_model/common.rs UserModel::set_frozen_columns_count
//@spec
    ensures
        r.is_err() ==> same_state(old(self), final(self)),
        r.is_ok() ==> one_entry(old(self), final(self)),
//@rewrite `-> Result<(), String>` => `-> (r: Result<(), String>)`
//@end
//@fn base/src/user_model/common.rs UserModel::set_timezone
//@spec
    ensures
        r.is_err() ==> same_state(old(self), final(self)),
        r.is_ok() ==> one_entry(old(self), final(self)),
//@rewrite `-> Result<(), String>` => `-> (r: Result<(), String>)`
//@end
//@fn base/src/user_model/common.rs UserModel::set_locale
//@spec
    ensures
        r.is_err() ==> same_state(old(self), final(self)),
        r.is_ok() ==> one_entry(old(self), final(self)),
//@rewrite `-> Result<(), String>` => `-> (r: Result<(), String>)`
//@end
//@fn base/src/user_model/common.rs UserModel::delete_defined_name
//@spec
    ensures
        r.is_err() ==> same_state(old(self), final(self)),
        r.is_ok() ==> one_entry(old(self), final(self)),
//@rewrite `-> Result<(), String>` => `-> (r: Result<(), String>)`
//@end
}

} // verus!
fn main() {}
