// UserModel::update_defined_name records what is STORED (C32, C01/C02): the undo entry carries the formula the name had before the update, read before it,
// and the formula the engine holds after the update (its canonical English form), read back after it — not the text the user typed, which a replay in
// another language would read differently.  Whole function, verbatim.
use vstd::prelude::*;
verus! {
#[verifier::external_body] pub struct ModelRest { _o: u8 }
#[verifier::external_body] pub struct UmRest { _o: u8 }
/// context shell (D5): the one variant this recorder builds
pub enum Diff { UpdateDefinedName { name: String, scope: Option<u32>, old_formula: String, new_name: String, new_scope: Option<u32>, new_formula: String }, Other }
pub struct Model { pub rest: ModelRest }
pub struct UserModel { pub model: Model, pub pushed: Ghost<Seq<Seq<Diff>>>, pub rest: UmRest }
#[verifier::external_body] pub fn shim_to_string(s: &str) -> (r: String) ensures r@ == s@ { s.to_string() }
/// `.map_err(|_| "General: Failed to get old name")?`
pub trait VerifOldName { fn verif_old_name_err(self) -> (r: Result<String, String>); }
impl VerifOldName for Result<String, String> {
    #[verifier::external_body]
    fn verif_old_name_err(self) -> (r: Result<String, String>) ensures r.is_ok() == self.is_ok(), r.is_ok() ==> r.unwrap() == self.unwrap() { unimplemented!() }
}
impl Model {
    /// the formula stored for a defined name (a state function of the engine)
    pub uninterp spec fn dn(&self, name: Seq<char>, scope: Option<u32>) -> Seq<char>;
    #[verifier::external_body]
    pub fn get_defined_name_formula(&self, name: &str, scope: Option<u32>) -> (r: Result<String, String>) ensures r matches Ok(f) ==> f@ == self.dn(name@, scope) { unimplemented!() }
    #[verifier::external_body]
    pub fn update_defined_name(&mut self, name: &str, scope: Option<u32>, new_name: &str, new_scope: Option<u32>, new_formula: &str) -> (r: Result<(), String>)
        ensures r.is_err() ==> *final(self) == *old(self) { unimplemented!() }
}
impl UserModel {
    #[verifier::external_body]
    fn push_diff_list(&mut self, diff_list: Vec<Diff>) ensures final(self).pushed@ == old(self).pushed@.push(diff_list@), final(self).model == old(self).model { unimplemented!() }
    #[verifier::external_body]
    fn evaluate_if_not_paused(&mut self) ensures final(self).pushed@ == old(self).pushed@, forall|n: Seq<char>, s: Option<u32>| final(self).model.dn(n, s) == old(self).model.dn(n, s) { unimplemented!() }
//@fn base/src/user_model/common.rs UserModel::update_defined_name
//@spec
    ensures
        r.is_err() ==> final(self).pushed@ == old(self).pushed@,
        r.is_ok() ==> final(self).pushed@.len() == old(self).pushed@.len() + 1 && final(self).pushed@.last().len() == 1
            && (final(self).pushed@.last()[0] matches Diff::UpdateDefinedName { name: n, scope: s, old_formula: of, new_name: nn, new_scope: ns, new_formula: nf }
                && n@ == name@ && s == scope && nn@ == new_name@ && ns == new_scope
                && of@ == old(self).model.dn(name@, scope)                      // what was stored before
                && nf@ == final(self).model.dn(new_name@, new_scope)),           // what is stored now, not what was typed
//@rewrite `) -> Result<(), String> {` => `) -> (r: Result<(), String>) {`
//@rewrite `.map_err(|_| "General: Failed to get old name")?;` => `.verif_old_name_err()?;`
//@rewrite `name: name.to_string(),` => `name: shim_to_string(name),`
//@rewrite `new_name: new_name.to_string(),` => `new_name: shim_to_string(new_name),`
//@end
}
} // verus!
fn main() {}
