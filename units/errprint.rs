// Error literals are printed in the display language (C10, C23): the three printer arms that render an error literal of a formula — stringify
// (display, internal, xlsx), to_string_moved (cut and paste) and to_string_array_node (inside array literals) — return exactly the name
// name_of(language.errors, kind) of the language they are given, which is the name unit lexerr proves the lexer of that language reads back as `kind`.
use vstd::prelude::*;
verus! {
#[verifier::external_body] pub struct LanguageRest { _o: u8 }
//@type base/src/language/mod.rs Errors
pub struct Language { pub errors: Errors, pub rest: LanguageRest }      // context shell (D5)
//@type base/src/expressions/token.rs Error
/// the localized name of an error kind (same definition as in unit lexerr)
pub open spec fn name_of(e: Errors, k: Error) -> Seq<char> {
    match k {
        Error::REF => e.r#ref@, Error::NAME => e.name@, Error::VALUE => e.value@, Error::DIV => e.div@, Error::NA => e.na@, Error::NUM => e.num@,
        Error::ERROR => e.error@, Error::NIMPL => e.nimpl@, Error::SPILL => e.spill@, Error::CALC => e.calc@, Error::NULL => e.null@, Error::CIRC => e.circ@,
    }
}
/// `<String>.to_string()`: a copy
pub trait VerifToString { fn verif_to_string(&self) -> (r: String); }
impl VerifToString for String {
    #[verifier::external_body]
    fn verif_to_string(&self) -> (r: String) ensures r@ == self@ { self.to_string() }
}
/// `format!("{kind}")`: the Display form of an error, i.e. its ENGLISH name whatever the language (unit errnames reads Display::fmt)
pub uninterp spec fn display_name(k: Error) -> Seq<char>;
impl Error {
    #[verifier::external_body]
    pub fn verif_display(&self) -> (r: String) ensures r@ == display_name(*self) { unimplemented!() }
//@fn base/src/expressions/token.rs Error::to_localized_error_string
//@spec
    ensures r@ == name_of(language.errors, *self)
//@rewrite `-> String {` => `-> (r: String) {`
//@rewrite* `.to_string()` => `.verif_to_string()`
//@end
}
pub fn stringify_error_arm(kind: &Error, language: &Language) -> (r: String)
    ensures r@ == name_of(language.errors, *kind)
{
//@arm base/src/expressions/parser/stringify.rs stringify `ErrorKind(kind) =>`
//@rewrite* `format!("{kind}")` => `kind.verif_display()`
//@end
}
pub fn moved_error_arm(kind: &Error, language: &Language) -> (r: String)
    ensures r@ == name_of(language.errors, *kind)
{
//@arm base/src/expressions/parser/move_formula.rs to_string_moved `ErrorKind(kind) =>`
//@rewrite* `format!("{kind}")` => `kind.verif_display()`
//@end
}
pub fn array_error_arm(kind: &Error, language: &Language) -> (r: String)
    ensures r@ == name_of(language.errors, *kind)
{
//@arm base/src/expressions/parser/move_formula.rs to_string_array_node `ArrayNode::Error(kind) =>`
//@rewrite* `format!("{kind}")` => `kind.verif_display()`
//@end
}
} // verus!
fn main() {}
