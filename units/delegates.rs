// Model's one-line delegates for row/column attributes: each passes its own arguments, unchanged and in order, to the
// Worksheet method it is named after, on the sheet it was given.  With units cols/rows this lifts the whole-view contracts of
// the Worksheet setters to the Model API that the user model and the undo/redo arms call.   (C29, C01, C02)
use vstd::prelude::*;
verus! {
#[verifier::external_body] pub struct Worksheet { _o: u8 }
#[verifier::external_body] pub struct WorkbookRest { _o: u8 }
#[verifier::external_body] pub struct ModelRest { _o: u8 }
pub struct Workbook { pub rest: WorkbookRest }
pub struct Model { pub workbook: Workbook, pub rest: ModelRest }
// the call being delegated (ghost constants the stubs can refer to)
pub uninterp spec fn g_sheet() -> u32;
pub uninterp spec fn g_line() -> i32;     // the row or column
pub uninterp spec fn g_f64() -> f64;      // the width / height
pub uninterp spec fn g_bool() -> bool;    // the hidden flag
impl Workbook {
    #[verifier::external_body]
    pub fn worksheet(&self, worksheet_index: u32) -> (r: Result<&Worksheet, String>) requires worksheet_index == g_sheet() { unimplemented!() }
    #[verifier::external_body]
    pub fn worksheet_mut(&mut self, worksheet_index: u32) -> (r: Result<&mut Worksheet, String>) requires worksheet_index == g_sheet() { unimplemented!() }
}
impl Worksheet {
//@stub base/src/worksheet.rs Worksheet::get_column_width
    requires column == g_line()
//@end
//@stub base/src/worksheet.rs Worksheet::set_column_width
    requires column == g_line(), width == g_f64()
//@end
//@stub base/src/worksheet.rs Worksheet::set_column_hidden
    requires column == g_line(), hidden == g_bool()
//@end
//@stub base/src/worksheet.rs Worksheet::set_row_hidden
    requires row == g_line(), hidden == g_bool()
//@end
//@stub base/src/worksheet.rs Worksheet::is_column_hidden
    requires column == g_line()
//@end
//@stub base/src/worksheet.rs Worksheet::is_row_hidden
    requires row == g_line()
//@end
//@stub base/src/worksheet.rs Worksheet::row_height
    requires row == g_line()
//@end
//@stub base/src/worksheet.rs Worksheet::set_row_height
    requires row == g_line(), height == g_f64()
//@end
//@stub base/src/worksheet.rs Worksheet::delete_column_style
    requires column == g_line()
//@end
//@stub base/src/worksheet.rs Worksheet::delete_row_style
    requires row == g_line()
//@end
}
impl Model {
//@fn base/src/model.rs Model::get_column_width
//@spec
    requires sheet == g_sheet(), column == g_line()
//@end
//@fn base/src/model.rs Model::set_column_width
//@spec
    requires sheet == g_sheet(), column == g_line(), width == g_f64()
//@end
//@fn base/src/model.rs Model::set_column_hidden
//@spec
    requires sheet == g_sheet(), column == g_line(), hidden == g_bool()
//@end
//@fn base/src/model.rs Model::set_row_hidden
//@spec
    requires sheet == g_sheet(), row == g_line(), hidden == g_bool()
//@end
//@fn base/src/model.rs Model::is_column_hidden
//@spec
    requires sheet == g_sheet(), column == g_line()
//@end
//@fn base/src/model.rs Model::is_row_hidden
//@spec
    requires sheet == g_sheet(), row == g_line()
//@end
//@fn base/src/model.rs Model::get_row_height
//@spec
    requires sheet == g_sheet(), row == g_line()
//@end
//@fn base/src/model.rs Model::set_row_height
//@spec
    requires sheet == g_sheet(), column == g_line(), height == g_f64()
//@end
//@fn base/src/model.rs Model::delete_column_style
//@spec
    requires sheet == g_sheet(), column == g_line()
//@end
//@fn base/src/model.rs Model::delete_row_style
//@spec
    requires sheet == g_sheet(), row == g_line()
//@end
}

} // verus!
fn main() {}
