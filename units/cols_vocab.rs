// ---- cols_vocab.rs: specification vocabulary for column descriptors (from the statement of C27/C29) ----
pub open spec fn cols_wf(v: Seq<Col>) -> bool {
    &&& forall|i: int| 0 <= i < v.len() ==> 1 <= (#[trigger] v[i]).min && v[i].min <= v[i].max && v[i].max <= 16384
    &&& forall|i: int, j: int| 0 <= i < j < v.len() ==> (#[trigger] v[i]).max < (#[trigger] v[j]).min
}
pub open spec fn covers(c: Col, x: int) -> bool { c.min <= x <= c.max }
pub open spec fn attrs(c: Col) -> (f64, bool, bool, Option<i32>) { (c.width, c.custom_width, c.hidden, c.style) }
/// every column x != except described in v is described in w with the same attributes
#[verifier::opaque]
pub open spec fn sub_view(v: Seq<Col>, w: Seq<Col>, except: int) -> bool {
    forall|i: int, x: int| 0 <= i < v.len() && x != except && #[trigger] covers(v[i], x)
        ==> exists|j: int| 0 <= j < w.len() && #[trigger] covers(w[j], x) && attrs(w[j]) == attrs(v[i])
}
pub open spec fn same_view_except(v: Seq<Col>, w: Seq<Col>, except: int) -> bool {
    sub_view(v, w, except) && sub_view(w, v, except)
}

pub proof fn lemma_update_same_range(v: Seq<Col>, w: Seq<Col>, k: int, column: int)
    requires
        cols_wf(v), 0 <= k < v.len(), w.len() == v.len(),
        forall|i: int| 0 <= i < v.len() && i != k ==> w[i] == v[i],
        v[k].min == column && v[k].max == column && w[k].min == column && w[k].max == column,
    ensures cols_wf(w), same_view_except(v, w, column)
{
    reveal(sub_view);
    assert forall|i: int, x: int| 0 <= i < v.len() && x != column && #[trigger] covers(v[i], x)
        implies exists|j: int| 0 <= j < w.len() && #[trigger] covers(w[j], x) && attrs(w[j]) == attrs(v[i]) by {
        assert(i != k);
        assert(covers(w[i], x));
    }
    assert forall|i: int, x: int| 0 <= i < w.len() && x != column && #[trigger] covers(w[i], x)
        implies exists|j: int| 0 <= j < v.len() && #[trigger] covers(v[j], x) && attrs(v[j]) == attrs(w[i]) by {
        assert(i != k);
        assert(covers(v[i], x));
    }
}

pub open spec fn split_mids(c: Col, column: int, pre: Col, mid: Col, post: Col, with_mid: bool) -> Seq<Col> {
    (if column != c.min { seq![pre] } else { Seq::<Col>::empty() })
        + (if with_mid { seq![mid] } else { Seq::<Col>::empty() })
        + (if column != c.max { seq![post] } else { Seq::<Col>::empty() })
}

pub proof fn lemma_insert_fresh(v: Seq<Col>, w: Seq<Col>, k: int, col: Col, column: int)
    requires
        cols_wf(v), 0 <= k <= v.len(), w =~= v.insert(k, col),
        col.min == column && col.max == column, 1 <= column <= 16384,
        forall|i: int| 0 <= i < k ==> (#[trigger] v[i]).max < column,
        k == v.len() || column < v[k].min,
    ensures cols_wf(w), same_view_except(v, w, column), covers(w[k], column) && w[k] == col,
{
    reveal(sub_view);
    assert forall|i: int| 0 <= i < w.len() implies 1 <= (#[trigger] w[i]).min && w[i].min <= w[i].max && w[i].max <= 16384 by {
        if i < k { assert(w[i] == v[i]); } else if i > k { assert(w[i] == v[i - 1]); }
    }
    assert forall|i: int, j: int| 0 <= i < j < w.len() implies (#[trigger] w[i]).max < (#[trigger] w[j]).min by {
        let a = if i < k { v[i] } else if i == k { col } else { v[i - 1] };
        let b = if j < k { v[j] } else if j == k { col } else { v[j - 1] };
        assert(w[i] == a && w[j] == b);
        if j > k && k < v.len() { assert(v[k].min <= v[j - 1].min) by { if j - 1 > k { assert(v[k].max < v[j - 1].min); } } }
    }
    assert forall|i: int, x: int| 0 <= i < v.len() && x != column && #[trigger] covers(v[i], x)
        implies exists|j: int| 0 <= j < w.len() && #[trigger] covers(w[j], x) && attrs(w[j]) == attrs(v[i]) by {
        let j = if i < k { i } else { i + 1 };
        assert(w[j] == v[i]);
        assert(covers(w[j], x));
    }
    assert forall|i: int, x: int| 0 <= i < w.len() && x != column && #[trigger] covers(w[i], x)
        implies exists|j: int| 0 <= j < v.len() && #[trigger] covers(v[j], x) && attrs(v[j]) == attrs(w[i]) by {
        assert(i != k);
        let j = if i < k { i } else { i - 1 };
        assert(w[i] == v[j]);
        assert(covers(v[j], x));
    }
}

pub open spec fn split_shape(v: Seq<Col>, w: Seq<Col>, k: int, column: int, pre: Col, mid: Col, post: Col, with_mid: bool) -> bool {
    let np = if column != v[k].min { 1int } else { 0int };
    let nm = if with_mid { 1int } else { 0int };
    let nq = if column != v[k].max { 1int } else { 0int };
    &&& w.len() == v.len() - 1 + np + nm + nq
    &&& forall|i: int| 0 <= i < k ==> #[trigger] w[i] == v[i]
    &&& forall|i: int| k + np + nm + nq <= i < w.len() ==> #[trigger] w[i] == v[i + 1 - np - nm - nq]
    &&& (nm == 1 ==> w[k + np] == mid)
    &&& (np == 1 ==> w[k] == pre)
    &&& (nq == 1 ==> w[k + np + nm] == post)
}

pub proof fn lemma_split_shape(v: Seq<Col>, w: Seq<Col>, k: int, column: int, pre: Col, mid: Col, post: Col, with_mid: bool)
    requires
        0 <= k < v.len(),
        w =~= v.subrange(0, k) + split_mids(v[k], column, pre, mid, post, with_mid) + v.subrange(k + 1, v.len() as int),
    ensures split_shape(v, w, k, column, pre, mid, post, with_mid)
{
    let m = split_mids(v[k], column, pre, mid, post, with_mid);
    let np = if column != v[k].min { 1int } else { 0int };
    let nm = if with_mid { 1int } else { 0int };
    let nq = if column != v[k].max { 1int } else { 0int };
    assert(m.len() == np + nm + nq);
    assert forall|i: int| k + np + nm + nq <= i < w.len() implies #[trigger] w[i] == v[i + 1 - np - nm - nq] by {
        assert(w[i] == v.subrange(k + 1, v.len() as int)[i - k - m.len()]);
    }
}

pub proof fn lemma_split_wf(v: Seq<Col>, w: Seq<Col>, k: int, column: int, pre: Col, mid: Col, post: Col, with_mid: bool)
    requires
        cols_wf(v), 0 <= k < v.len(), covers(v[k], column),
        pre.min == v[k].min && pre.max == column - 1,
        post.min == column + 1 && post.max == v[k].max,
        mid.min == column && mid.max == column,
        split_shape(v, w, k, column, pre, mid, post, with_mid),
    ensures cols_wf(w)
{
    let c = v[k];
    let np = if column != c.min { 1int } else { 0int };
    let nm = if with_mid { 1int } else { 0int };
    let nq = if column != c.max { 1int } else { 0int };
    let n = np + nm + nq;
    assert forall|i: int| 0 <= i < w.len() implies 1 <= (#[trigger] w[i]).min && w[i].min <= w[i].max && w[i].max <= 16384
        && (i < k ==> w[i].max < c.min) && (i >= k + n ==> c.max < w[i].min) && (k <= i < k + n ==> c.min <= w[i].min && w[i].max <= c.max)
        && (k <= i < k + np ==> w[i].max < column) && (k + np <= i < k + np + nm ==> w[i].min == column && w[i].max == column)
        && (k + np + nm <= i < k + n ==> column < w[i].min) by {
        if i < k { assert(w[i] == v[i]); assert(v[i].max < v[k].min); }
        else if i >= k + n { assert(w[i] == v[i + 1 - n]); assert(v[k].max < v[i + 1 - n].min); }
        else {}
    }
    assert forall|i: int, j: int| 0 <= i < j < w.len() implies (#[trigger] w[i]).max < (#[trigger] w[j]).min by {
        if j < k { assert(w[i] == v[i] && w[j] == v[j]); assert(v[i].max < v[j].min); }
        else if i >= k + n { assert(w[i] == v[i + 1 - n] && w[j] == v[j + 1 - n]); assert(v[i + 1 - n].max < v[j + 1 - n].min); }
        else {}
    }
}

pub proof fn lemma_split_view(v: Seq<Col>, w: Seq<Col>, k: int, column: int, pre: Col, mid: Col, post: Col, with_mid: bool)
    requires
        cols_wf(v), 0 <= k < v.len(), covers(v[k], column),
        pre.min == v[k].min && pre.max == column - 1 && attrs(pre) == attrs(v[k]),
        post.min == column + 1 && post.max == v[k].max && attrs(post) == attrs(v[k]),
        mid.min == column && mid.max == column,
        split_shape(v, w, k, column, pre, mid, post, with_mid),
    ensures same_view_except(v, w, column)
{
    reveal(sub_view);
    let c = v[k];
    let np = if column != c.min { 1int } else { 0int };
    let nm = if with_mid { 1int } else { 0int };
    let nq = if column != c.max { 1int } else { 0int };
    let n = np + nm + nq;
    assert forall|i: int, x: int| 0 <= i < v.len() && x != column && #[trigger] covers(v[i], x)
        implies exists|j: int| 0 <= j < w.len() && #[trigger] covers(w[j], x) && attrs(w[j]) == attrs(v[i]) by {
        if i < k { assert(w[i] == v[i]); assert(covers(w[i], x)); }
        else if i > k { assert(w[i - 1 + n] == v[i]); assert(covers(w[i - 1 + n], x)); }
        else if x < column { assert(np == 1); assert(covers(w[k], x)); }
        else { assert(nq == 1); assert(covers(w[k + np + nm], x)); }
    }
    assert forall|i: int, x: int| 0 <= i < w.len() && x != column && #[trigger] covers(w[i], x)
        implies exists|j: int| 0 <= j < v.len() && #[trigger] covers(v[j], x) && attrs(v[j]) == attrs(w[i]) by {
        if i < k { assert(w[i] == v[i]); assert(covers(v[i], x)); }
        else if i >= k + n { assert(w[i] == v[i + 1 - n]); assert(covers(v[i + 1 - n], x)); }
        else { assert(!(nm == 1 && i == k + np)); assert(covers(v[k], x)); }
    }
}

pub proof fn lemma_split(v: Seq<Col>, w: Seq<Col>, k: int, column: int, pre: Col, mid: Col, post: Col, with_mid: bool)
    requires
        cols_wf(v), 0 <= k < v.len(), covers(v[k], column),
        pre.min == v[k].min && pre.max == column - 1 && attrs(pre) == attrs(v[k]),
        post.min == column + 1 && post.max == v[k].max && attrs(post) == attrs(v[k]),
        mid.min == column && mid.max == column,
        w =~= v.subrange(0, k) + split_mids(v[k], column, pre, mid, post, with_mid) + v.subrange(k + 1, v.len() as int),
    ensures
        cols_wf(w), same_view_except(v, w, column),
        with_mid ==> exists|j: int| 0 <= j < w.len() && covers(#[trigger] w[j], column) && w[j] == mid,
        !with_mid ==> forall|j: int| 0 <= j < w.len() ==> !covers(#[trigger] w[j], column),
{
    lemma_split_shape(v, w, k, column, pre, mid, post, with_mid);
    lemma_split_wf(v, w, k, column, pre, mid, post, with_mid);
    lemma_split_view(v, w, k, column, pre, mid, post, with_mid);
    let c = v[k];
    let np = if column != c.min { 1int } else { 0int };
    let nm = if with_mid { 1int } else { 0int };
    let nq = if column != c.max { 1int } else { 0int };
    let n = np + nm + nq;
    if with_mid { assert(covers(w[k + np], column)); }
    else {
        assert forall|j: int| 0 <= j < w.len() implies !covers(#[trigger] w[j], column) by {
            if j < k { assert(w[j] == v[j]); assert(v[j].max < v[k].min); }
            else if j >= k + n { assert(w[j] == v[j + 1 - n]); assert(v[k].max < v[j + 1 - n].min); }
            else {}
        }
    }
}

// ---- observable attributes of one column (first covering descriptor, as every getter reads them) ----
pub open spec fn is_first_cover(v: Seq<Col>, x: int, i: int) -> bool {
    0 <= i < v.len() && covers(v[i], x) && forall|k: int| 0 <= k < i ==> !covers(#[trigger] v[k], x)
}
pub open spec fn has_cover(v: Seq<Col>, x: int) -> bool { exists|i: int| is_first_cover(v, x, i) }
pub open spec fn cover_idx(v: Seq<Col>, x: int) -> int { choose|i: int| is_first_cover(v, x, i) }
pub open spec fn style_at(v: Seq<Col>, x: int) -> Option<i32> { if has_cover(v, x) { v[cover_idx(v, x)].style } else { None } }
pub open spec fn hidden_at(v: Seq<Col>, x: int) -> bool { if has_cover(v, x) { v[cover_idx(v, x)].hidden } else { false } }
/// a is (a possible result of computing) the actual pixel width of column x
pub open spec fn actual_width_rel(v: Seq<Col>, x: int, a: f64) -> bool {
    if has_cover(v, x) && v[cover_idx(v, x)].custom_width {
        mul_ensures::<f64>(v[cover_idx(v, x)].width, constants::COLUMN_WIDTH_FACTOR, a)
    } else { a == constants::DEFAULT_COLUMN_WIDTH }
}
/// column x of w stores pixel width a
pub open spec fn stores_width(w: Seq<Col>, x: int, a: f64) -> bool {
    has_cover(w, x) && div_ensures::<f64>(a, constants::COLUMN_WIDTH_FACTOR, w[cover_idx(w, x)].width)
        && ne_ensures::<f64>(a, constants::DEFAULT_COLUMN_WIDTH, w[cover_idx(w, x)].custom_width)
}

pub proof fn lemma_first_cover_unique(v: Seq<Col>, x: int, i: int)
    requires is_first_cover(v, x, i)
    ensures has_cover(v, x), cover_idx(v, x) == i
{
    let j = cover_idx(v, x);
    assert(is_first_cover(v, x, j));
    if j < i { assert(!covers(v[j], x)); }
    if i < j { assert(!covers(v[i], x)); }
}
pub proof fn lemma_no_cover(v: Seq<Col>, x: int)
    requires forall|k: int| 0 <= k < v.len() ==> !covers(#[trigger] v[k], x)
    ensures !has_cover(v, x)
{}
/// under well-formedness any covering descriptor is the first one
pub proof fn lemma_wf_cover(v: Seq<Col>, x: int, i: int)
    requires cols_wf(v), 0 <= i < v.len(), covers(v[i], x)
    ensures is_first_cover(v, x, i), has_cover(v, x), cover_idx(v, x) == i
{
    assert forall|k: int| 0 <= k < i implies !covers(#[trigger] v[k], x) by { assert(v[k].max < v[i].min); }
    lemma_first_cover_unique(v, x, i);
}

/// glue: after set_column_width_and_style the new covering descriptor is *the* first cover (by wf)
pub proof fn lemma_after_set(v: Seq<Col>, w: Seq<Col>, column: int, ok: bool)
    requires cols_wf(w)
    ensures
        forall|j: int| 0 <= j < w.len() && covers(#[trigger] w[j], column) ==> has_cover(w, column) && cover_idx(w, column) == j,
{
    assert forall|j: int| 0 <= j < w.len() && covers(#[trigger] w[j], column) implies has_cover(w, column) && cover_idx(w, column) == j by {
        lemma_wf_cover(w, column, j);
    }
}

pub proof fn lemma_same_view_refl(v: Seq<Col>, column: int)
    ensures same_view_except(v, v, column)
{ reveal(sub_view); }
