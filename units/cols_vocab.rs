// ---- cols_vocab.rs: specification vocabulary for column descriptors (from the statement of C27/C29) ----
pub open spec fn cols_wf(v: Seq<Col>) -> bool {
    &&& forall|i: int| 0 <= i < v.len() ==> 1 <= (#[trigger] v[i]).min && v[i].min <= v[i].max && v[i].max <= 16384
    &&& forall|i: int, j: int| 0 <= i < j < v.len() ==> (#[trigger] v[i]).max < (#[trigger] v[j]).min
}
pub open spec fn covers(c: Col, x: int) -> bool { c.min <= x <= c.max }
pub open spec fn attrs(c: Col) -> (f64, bool, bool, Option<i32>) { (c.width, c.custom_width, c.hidden, c.style) }
/// every column x != except described in v is described in w with the same attributes
#[verifier::opaque]
pub open spec fn sub_view(v: Seq<Col>, w: Seq<Col>, except: int) -> bool {
    forall|i: int, x: int| 0 <= i < v.len() && x != except && #[trigger] covers(v[i], x)
        ==> exists|j: int| 0 <= j < w.len() && #[trigger] covers(w[j], x) && attrs(w[j]) == attrs(v[i])
}
pub open spec fn same_view_except(v: Seq<Col>, w: Seq<Col>, except: int) -> bool {
    sub_view(v, w, except) && sub_view(w, v, except)
}

pub proof fn lemma_update_same_range(v: Seq<Col>, w: Seq<Col>, k: int, column: int)
    requires
        cols_wf(v), 0 <= k < v.len(), w.len() == v.len(),
        forall|i: int| 0 <= i < v.len() && i != k ==> w[i] == v[i],
        v[k].min == column && v[k].max == column && w[k].min == column && w[k].max == column,
    ensures cols_wf(w), same_view_except(v, w, column)
{
    reveal(sub_view);
    assert forall|i: int, x: int| 0 <= i < v.len() && x != column && #[trigger] covers(v[i], x)
        implies exists|j: int| 0 <= j < w.len() && #[trigger] covers(w[j], x) && attrs(w[j]) == attrs(v[i]) by {
        assert(i != k);
        assert(covers(w[i], x));
    }
    assert forall|i: int, x: int| 0 <= i < w.len() && x != column && #[trigger] covers(w[i], x)
        implies exists|j: int| 0 <= j < v.len() && #[trigger] covers(v[j], x) && attrs(v[j]) == attrs(w[i]) by {
        assert(i != k);
        assert(covers(v[i], x));
    }
}

pub open spec fn split_mids(c: Col, column: int, pre: Col, mid: Col, post: Col) -> Seq<Col> {
    (if column != c.min { seq![pre] } else { Seq::<Col>::empty() }).push(mid)
        + (if column != c.max { seq![post] } else { Seq::<Col>::empty() })
}

pub proof fn lemma_insert_fresh(v: Seq<Col>, w: Seq<Col>, k: int, col: Col, column: int)
    requires
        cols_wf(v), 0 <= k <= v.len(), w =~= v.insert(k, col),
        col.min == column && col.max == column, 1 <= column <= 16384,
        forall|i: int| 0 <= i < k ==> (#[trigger] v[i]).max < column,
        k == v.len() || column < v[k].min,
    ensures cols_wf(w), same_view_except(v, w, column), covers(w[k], column) && w[k] == col,
{
    reveal(sub_view);
    assert forall|i: int| 0 <= i < w.len() implies 1 <= (#[trigger] w[i]).min && w[i].min <= w[i].max && w[i].max <= 16384 by {
        if i < k { assert(w[i] == v[i]); } else if i > k { assert(w[i] == v[i - 1]); }
    }
    assert forall|i: int, j: int| 0 <= i < j < w.len() implies (#[trigger] w[i]).max < (#[trigger] w[j]).min by {
        let a = if i < k { v[i] } else if i == k { col } else { v[i - 1] };
        let b = if j < k { v[j] } else if j == k { col } else { v[j - 1] };
        assert(w[i] == a && w[j] == b);
        if j > k && k < v.len() { assert(v[k].min <= v[j - 1].min) by { if j - 1 > k { assert(v[k].max < v[j - 1].min); } } }
    }
    assert forall|i: int, x: int| 0 <= i < v.len() && x != column && #[trigger] covers(v[i], x)
        implies exists|j: int| 0 <= j < w.len() && #[trigger] covers(w[j], x) && attrs(w[j]) == attrs(v[i]) by {
        let j = if i < k { i } else { i + 1 };
        assert(w[j] == v[i]);
        assert(covers(w[j], x));
    }
    assert forall|i: int, x: int| 0 <= i < w.len() && x != column && #[trigger] covers(w[i], x)
        implies exists|j: int| 0 <= j < v.len() && #[trigger] covers(v[j], x) && attrs(v[j]) == attrs(w[i]) by {
        assert(i != k);
        let j = if i < k { i } else { i - 1 };
        assert(w[i] == v[j]);
        assert(covers(v[j], x));
    }
}

pub open spec fn split_shape(v: Seq<Col>, w: Seq<Col>, k: int, column: int, pre: Col, mid: Col, post: Col) -> bool {
    let np = if column != v[k].min { 1int } else { 0int };
    let nq = if column != v[k].max { 1int } else { 0int };
    &&& w.len() == v.len() + np + nq
    &&& forall|i: int| 0 <= i < k ==> #[trigger] w[i] == v[i]
    &&& forall|i: int| k + np + nq < i < w.len() ==> #[trigger] w[i] == v[i - np - nq]
    &&& w[k + np] == mid
    &&& (np == 1 ==> w[k] == pre)
    &&& (nq == 1 ==> w[k + np + 1] == post)
}

pub proof fn lemma_split_shape(v: Seq<Col>, w: Seq<Col>, k: int, column: int, pre: Col, mid: Col, post: Col)
    requires
        0 <= k < v.len(),
        w =~= v.subrange(0, k) + split_mids(v[k], column, pre, mid, post) + v.subrange(k + 1, v.len() as int),
    ensures split_shape(v, w, k, column, pre, mid, post)
{
    let m = split_mids(v[k], column, pre, mid, post);
    let np = if column != v[k].min { 1int } else { 0int };
    let nq = if column != v[k].max { 1int } else { 0int };
    assert(m.len() == np + 1 + nq);
    assert forall|i: int| k + np + nq < i < w.len() implies #[trigger] w[i] == v[i - np - nq] by {
        assert(w[i] == v.subrange(k + 1, v.len() as int)[i - k - m.len()]);
    }
}

pub proof fn lemma_split_wf(v: Seq<Col>, w: Seq<Col>, k: int, column: int, pre: Col, mid: Col, post: Col)
    requires
        cols_wf(v), 0 <= k < v.len(), covers(v[k], column),
        pre.min == v[k].min && pre.max == column - 1,
        post.min == column + 1 && post.max == v[k].max,
        mid.min == column && mid.max == column,
        split_shape(v, w, k, column, pre, mid, post),
    ensures cols_wf(w)
{
    let c = v[k];
    let np = if column != c.min { 1int } else { 0int };
    let nq = if column != c.max { 1int } else { 0int };
    assert forall|i: int| 0 <= i < w.len() implies 1 <= (#[trigger] w[i]).min && w[i].min <= w[i].max && w[i].max <= 16384
        && (i < k ==> w[i].max < c.min) && (i > k + np + nq ==> c.max < w[i].min) && (k <= i <= k + np + nq ==> c.min <= w[i].min && w[i].max <= c.max) by {
        if i < k { assert(w[i] == v[i]); assert(v[i].max < v[k].min); }
        else if i > k + np + nq { assert(w[i] == v[i - np - nq]); assert(v[k].max < v[i - np - nq].min); }
        else if i == k + np {} else if i == k {} else {}
    }
    assert forall|i: int, j: int| 0 <= i < j < w.len() implies (#[trigger] w[i]).max < (#[trigger] w[j]).min by {
        if j < k { assert(w[i] == v[i] && w[j] == v[j]); assert(v[i].max < v[j].min); }
        else if i > k + np + nq { assert(w[i] == v[i - np - nq] && w[j] == v[j - np - nq]); assert(v[i - np - nq].max < v[j - np - nq].min); }
        else if i < k || j > k + np + nq {}
        else {}
    }
}

pub proof fn lemma_split_view(v: Seq<Col>, w: Seq<Col>, k: int, column: int, pre: Col, mid: Col, post: Col)
    requires
        cols_wf(v), 0 <= k < v.len(), covers(v[k], column),
        pre.min == v[k].min && pre.max == column - 1 && attrs(pre) == attrs(v[k]),
        post.min == column + 1 && post.max == v[k].max && attrs(post) == attrs(v[k]),
        mid.min == column && mid.max == column,
        split_shape(v, w, k, column, pre, mid, post),
    ensures same_view_except(v, w, column)
{
    reveal(sub_view);
    let c = v[k];
    let np = if column != c.min { 1int } else { 0int };
    let nq = if column != c.max { 1int } else { 0int };
    assert forall|i: int, x: int| 0 <= i < v.len() && x != column && #[trigger] covers(v[i], x)
        implies exists|j: int| 0 <= j < w.len() && #[trigger] covers(w[j], x) && attrs(w[j]) == attrs(v[i]) by {
        if i < k { assert(w[i] == v[i]); assert(covers(w[i], x)); }
        else if i > k { assert(w[i + np + nq] == v[i]); assert(covers(w[i + np + nq], x)); }
        else if x < column { assert(np == 1); assert(covers(w[k], x)); }
        else { assert(nq == 1); assert(covers(w[k + np + 1], x)); }
    }
    assert forall|i: int, x: int| 0 <= i < w.len() && x != column && #[trigger] covers(w[i], x)
        implies exists|j: int| 0 <= j < v.len() && #[trigger] covers(v[j], x) && attrs(v[j]) == attrs(w[i]) by {
        if i < k { assert(w[i] == v[i]); assert(covers(v[i], x)); }
        else if i > k + np + nq { assert(w[i] == v[i - np - nq]); assert(covers(v[i - np - nq], x)); }
        else { assert(i != k + np); assert(covers(v[k], x)); }
    }
}

pub proof fn lemma_split(v: Seq<Col>, w: Seq<Col>, k: int, column: int, pre: Col, mid: Col, post: Col)
    requires
        cols_wf(v), 0 <= k < v.len(), covers(v[k], column),
        pre.min == v[k].min && pre.max == column - 1 && attrs(pre) == attrs(v[k]),
        post.min == column + 1 && post.max == v[k].max && attrs(post) == attrs(v[k]),
        mid.min == column && mid.max == column,
        w =~= v.subrange(0, k) + split_mids(v[k], column, pre, mid, post) + v.subrange(k + 1, v.len() as int),
    ensures
        cols_wf(w), same_view_except(v, w, column),
        exists|j: int| 0 <= j < w.len() && covers(#[trigger] w[j], column) && w[j] == mid,
{
    lemma_split_shape(v, w, k, column, pre, mid, post);
    lemma_split_wf(v, w, k, column, pre, mid, post);
    lemma_split_view(v, w, k, column, pre, mid, post);
    let np = if column != v[k].min { 1int } else { 0int };
    assert(covers(w[k + np], column));
}
