// U-linkmaps + displacement construction sites in actions.rs: the link-key maps and the DisplaceData handed to
// displace_cells / displace_cf_ranges are the spec functions shift / move1 at the operation's own arguments.  (C12, C13, C15, C33)
use vstd::prelude::*;
verus! {
//@include disp_vocab.rs

pub open spec fn opt_pair(r: Option<int>, c: Option<int>) -> Option<(int, int)> {
    match (r, c) { (Some(a), Some(b)) => Some((a, b)), _ => None }
}
pub open spec fn as_int_pair(p: Option<(i32, i32)>) -> Option<(int, int)> {
    match p { Some((a, b)) => Some((a as int, b as int)), None => None }
}

// ---- insert_columns(sheet, column, column_count): links and formulas shift by +column_count at `column` ----
pub fn links_insert_columns(r: i32, c: i32, column: i32, column_count: i32) -> (res: Option<(i32, i32)>)
    requires small(c as int), small(column as int), 0 < column_count, small(column_count as int)
    ensures as_int_pair(res) == opt_pair(Some(r as int), shift(c as int, column as int, column_count as int))
//@arm base/src/actions.rs Model::insert_columns `|r, c|`
//@end
pub fn disp_insert_columns(sheet: u32, column: i32, column_count: i32) -> (disp: DisplaceData)
    ensures disp == (DisplaceData::Column { sheet, column, delta: column_count })
{
//@fragment base/src/actions.rs Model::insert_columns `let disp = DisplaceData::Column {` .. `};`
//@end
    disp
}

// ---- delete_columns(sheet, column, column_count) ----
pub fn links_delete_columns(r: i32, c: i32, column_start: i32, column_end: i32, column_count: i32) -> (res: Option<(i32, i32)>)
    requires small(c as int), small(column_start as int), 0 < column_count, small(column_count as int), column_end == column_start + column_count - 1
    ensures as_int_pair(res) == opt_pair(Some(r as int), shift(c as int, column_start as int, -(column_count as int)))
//@arm base/src/actions.rs Model::delete_columns `|r, c|`
//@end
pub fn disp_delete_columns(sheet: u32, column: i32, column_count: i32) -> (disp: DisplaceData)
    requires 0 < column_count
    ensures disp == (DisplaceData::Column { sheet, column, delta: (-(column_count as int)) as i32 })
{
//@fragment base/src/actions.rs Model::delete_columns `let disp = DisplaceData::Column {` .. `};`
//@end
    disp
}
pub fn bounds_delete_columns(column: i32, column_count: i32) -> (res: (i32, i32))
    requires small(column as int), 0 < column_count, small(column_count as int)
    ensures res.0 == column, res.1 == column + column_count - 1
{
//@fragment base/src/actions.rs Model::delete_columns `let column_start = column;` .. `let column_end = column + column_count - 1;`
//@end
    (column_start, column_end)
}

// ---- insert_rows / delete_rows ----
pub fn links_insert_rows(r: i32, c: i32, row: i32, row_count: i32) -> (res: Option<(i32, i32)>)
    requires small(r as int), small(row as int), 0 < row_count, small(row_count as int)
    ensures as_int_pair(res) == opt_pair(shift(r as int, row as int, row_count as int), Some(c as int))
//@arm base/src/actions.rs Model::insert_rows `|r, c|`
//@end
pub fn disp_insert_rows(sheet: u32, row: i32, row_count: i32) -> (disp: DisplaceData)
    ensures disp == (DisplaceData::Row { sheet, row, delta: row_count })
{
//@fragment base/src/actions.rs Model::insert_rows `let disp = DisplaceData::Row {` .. `};`
//@end
    disp
}
pub fn links_delete_rows(r: i32, c: i32, row: i32, row_count: i32) -> (res: Option<(i32, i32)>)
    requires small(r as int), small(row as int), 0 < row_count, small(row_count as int)
    ensures as_int_pair(res) == opt_pair(shift(r as int, row as int, -(row_count as int)), Some(c as int))
//@arm base/src/actions.rs Model::delete_rows `|r, c|`
//@end
pub fn disp_delete_rows(sheet: u32, row: i32, row_count: i32) -> (disp: DisplaceData)
    requires 0 < row_count
    ensures disp == (DisplaceData::Row { sheet, row, delta: (-(row_count as int)) as i32 })
{
//@fragment base/src/actions.rs Model::delete_rows `let disp = DisplaceData::Row {` .. `};`
//@end
    disp
}

// ---- move_column_unchecked(sheet, column, delta) / move_row_unchecked(sheet, row, delta) ----
// the moved line's own links are taken out (None) and re-attached at target = line + delta = move1(line, line, delta)
pub fn links_move_column(r: i32, c: i32, column: i32, delta: i32, target_column: i32) -> (res: Option<(i32, i32)>)
    requires small(c as int), small(column as int), small(delta as int), target_column == column + delta
    ensures
        c == column ==> res.is_none(),
        c != column ==> as_int_pair(res) == Some((r as int, move1(c as int, column as int, delta as int))),
//@arm base/src/actions.rs Model::move_column_unchecked `|r, c|`
//@end
pub fn target_move_column(column: i32, delta: i32) -> (target_column: i32)
    requires small(column as int), small(delta as int)
    ensures target_column == move1(column as int, column as int, delta as int)
{
//@fragment base/src/actions.rs Model::move_column_unchecked `let target_column = column + delta;` .. `let target_column = column + delta;`
//@end
    target_column
}
pub fn disp_move_column(sheet: u32, column: i32, delta: i32) -> (disp: DisplaceData)
    ensures disp == (DisplaceData::ColumnMove { sheet, column, delta })
{
//@fragment base/src/actions.rs Model::move_column_unchecked `let disp = DisplaceData::ColumnMove {` .. `};`
//@end
    disp
}
pub fn links_move_row(r: i32, c: i32, row: i32, delta: i32, target_row: i32) -> (res: Option<(i32, i32)>)
    requires small(r as int), small(row as int), small(delta as int), target_row == row + delta
    ensures
        r == row ==> res.is_none(),
        r != row ==> as_int_pair(res) == Some((move1(r as int, row as int, delta as int), c as int)),
//@arm base/src/actions.rs Model::move_row_unchecked `|r, c|`
//@end
pub fn target_move_row(row: i32, delta: i32) -> (target_row: i32)
    requires small(row as int), small(delta as int)
    ensures target_row == move1(row as int, row as int, delta as int)
{
//@fragment base/src/actions.rs Model::move_row_unchecked `let target_row = row + delta;` .. `let target_row = row + delta;`
//@end
    target_row
}
pub fn disp_move_row(sheet: u32, row: i32, delta: i32) -> (disp: DisplaceData)
    ensures disp == (DisplaceData::RowMove { sheet, row, delta })
{
//@fragment base/src/actions.rs Model::move_row_unchecked `let disp = DisplaceData::RowMove { sheet, row, delta };` .. `let disp = DisplaceData::RowMove { sheet, row, delta };`
//@end
    disp
}

} // verus!
fn main() {}
