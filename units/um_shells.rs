// ---- um_shells.rs: context shells shared by units atomic and record ----
// ---- context shells (D5): Model/Workbook declared with only the fields the extracted functions touch; every other
// piece of engine state sits behind an opaque `rest` field.  Diff is the REAL enum; field types no operation here
// looks into are opaque.
#[verifier::external_body] pub struct Error { _o: u8 }
//@type base/src/types.rs FormulaValue
//@type base/src/types.rs SpillValue
//@type base/src/types.rs ArrayKind
//@type base/src/types.rs Cell
impl Clone for Cell { #[verifier::external_body] fn clone(&self) -> (r: Self) ensures r == *self { unimplemented!() } }
#[verifier::external_body] pub struct Col { _o: u8 }
#[verifier::external_body] pub struct Row { _o: u8 }
#[verifier::external_body] pub struct Style { _o: u8 }
#[verifier::external_body] pub struct StyleIncludes { _o: u8 }
#[verifier::external_body] pub struct Theme { _o: u8 }
#[verifier::external_body] pub struct CfRule { _o: u8 }
#[verifier::external_body] pub struct Link { _o: u8 }
#[verifier::external_body] pub struct Color { _o: u8 }
#[verifier::external_body] pub struct WorksheetRest { _o: u8 }
// the worksheet fields the user-model operations read directly (D5)
pub struct Worksheet { pub sheet_id: u32, pub name: String, pub color: Color, pub show_grid_lines: bool, pub state: SheetState, pub views: HashMap<u32, WorksheetView>, pub rest: WorksheetRest }
#[verifier::external_body] pub struct ModelRest<'a> { _p: core::marker::PhantomData<&'a u8> }
#[verifier::external_body] pub struct WorkbookRest { _o: u8 }
// A-eq: the derived PartialEq of Link decides value equality
impl vstd::std_specs::cmp::PartialEqSpecImpl for Link { open spec fn obeys_eq_spec() -> bool { true } open spec fn eq_spec(&self, other: &Link) -> bool { *self == *other } }
impl PartialEq for Link { #[verifier::external_body] fn eq(&self, other: &Link) -> bool { unimplemented!() } }
impl Clone for Color { #[verifier::external_body] fn clone(&self) -> (r: Self) ensures r == *self { unimplemented!() } }
#[derive(PartialEq, Eq, Structural)]   // the repository's enum derives PartialEq/Eq; Structural (ghost) ties `==` to spec equality
//@type base/src/types.rs SheetState
impl Clone for SheetState { #[verifier::external_body] fn clone(&self) -> (r: Self) ensures r == *self { unimplemented!() } }
//@type base/src/user_model/history.rs RowData
//@type base/src/user_model/history.rs ColumnData
//@type base/src/user_model/history.rs Diff
impl Clone for Diff { #[verifier::external_body] fn clone(&self) -> (r: Self) ensures r == *self { unimplemented!() } }
//@type base/src/user_model/history.rs DiffList
//@type base/src/user_model/history.rs History
//@type base/src/user_model/history.rs DiffType
//@type base/src/user_model/history.rs QueueDiffs
//@type base/src/types.rs WorkbookView
//@type base/src/types.rs WorksheetView
pub struct Workbook { pub worksheets: Vec<Worksheet>, pub views: HashMap<u32, WorkbookView>, pub name: String, pub rest: WorkbookRest }
pub struct Model<'a> { pub workbook: Workbook, pub view_id: u32, pub rest: ModelRest<'a> }
//@type base/src/user_model/common.rs UserModel

/// the part of a UserModel that C04 says a failed call must leave alone
pub open spec fn same_state(a: &UserModel, b: &UserModel) -> bool {
    a.model == b.model && a.history.undo_stack@ =~= b.history.undo_stack@ && a.history.redo_stack@ =~= b.history.redo_stack@
        && a.send_queue@ =~= b.send_queue@
}
/// exactly one entry recorded (and, per C02, the redo list discarded)
pub open spec fn one_entry(a: &UserModel, b: &UserModel) -> bool {
    b.history.undo_stack@.len() == a.history.undo_stack@.len() + 1 && b.history.undo_stack@.drop_last() =~= a.history.undo_stack@
        && b.history.redo_stack@.len() == 0 && b.send_queue@.len() == a.send_queue@.len() + 1
}

