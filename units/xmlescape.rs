// xlsx export, text escaping (C24): whatever text the exporter passes through escape_xml, every character it writes RAW is an XML 1.0 `Char` that is not
// markup — all other characters go out as an entity or in Excel's _xHHHH_ form — so the written part can be read back by an XML parser for ANY cell
// text, formula, sheet name or format code.  xml10_char is the `Char` production of the XML 1.0 recommendation (section 2.2), not the code's table.
use vstd::prelude::*;
use vstd::string::*;
macro_rules! format {
    ("_x{:04X}_", $e:expr $(,)?) => { shim_hex_escape($e) };
}
verus! {
//@include std_text.rs
/// XML 1.0, production [2] Char ::= #x9 | #xA | #xD | [#x20-#xD7FF] | [#xE000-#xFFFD] | [#x10000-#x10FFFF]
pub open spec fn xml10_char(c: char) -> bool {
    let cp = c as u32;
    cp == 0x9 || cp == 0xA || cp == 0xD || (0x20 <= cp <= 0xD7FF) || (0xE000 <= cp <= 0xFFFD) || (0x10000 <= cp <= 0x10FFFF)
}
pub open spec fn markup(c: char) -> bool { c == '<' || c == '>' || c == '&' || c == '"' || c == '\'' }
/// a character that may stand in character data / an attribute value as it is
pub open spec fn plain(c: char) -> bool { xml10_char(c) && !markup(c) }
pub open spec fn all_plain(s: Seq<char>) -> bool { forall|k: int| 0 <= k < s.len() ==> plain(#[trigger] s[k]) }
/// entity and escape texts: printable ASCII without '<' (an '&' only as the start of an entity the code writes itself)
pub open spec fn safe_piece(s: Seq<char>) -> bool { forall|k: int| 0 <= k < s.len() ==> xml10_char(#[trigger] s[k]) && s[k] != '<' }

//@type xlsx/src/export/escape.rs Value
//@fn xlsx/src/export/escape.rs escape_char
//@spec
    ensures r matches Value::Char(ch) ==> ch == c && plain(c) || ch == c && !xml10_char(c),
        r matches Value::Char(ch) ==> !markup(c) && c != '\n' && c != '\r',
        r matches Value::Str(st) ==> safe_piece(st@),
//@rewrite `-> Value {` => `-> (r: Value) {`
//@before `match c {`
    proof { reveal_strlit("&lt;"); reveal_strlit("&gt;"); reveal_strlit("&quot;"); reveal_strlit("&apos;"); reveal_strlit("&amp;"); reveal_strlit("&#xA;"); reveal_strlit("&#xD;"); }
//@end
//@fn xlsx/src/export/escape.rs needs_xlsx_escape
//@spec
    ensures r == !xml10_char(c)       // C24: exactly the characters XML 1.0 forbids are sent through the _xHHHH_ convention
//@rewrite `-> bool {` => `-> (r: bool) {`
//@end
/// `format!("_x{:04X}_", cp)`: '_', 'x', hexadecimal digits, '_'
#[verifier::external_body]
pub fn shim_hex_escape(cp: u32) -> (r: String) ensures safe_piece(r@) { unimplemented!() }
/// `s[i..].chars().next().unwrap()` at a char boundary i < len: the character that starts there; its UTF-8 length leads to the next boundary (std)
#[verifier::external_body]
pub fn shim_char_at(s: &str, i: usize) -> (c: char)
    requires text_boundary(s@, i as int), (i as int) < byte_len(s@)
    ensures text_boundary(s@, i + utf8_len(c)), i + utf8_len(c) <= byte_len(s@), 1 <= utf8_len(c) <= 4
{ unimplemented!() }
pub uninterp spec fn byte_len(s: Seq<char>) -> nat;
pub uninterp spec fn utf8_len(c: char) -> int;
pub trait VerifLen { fn verif_len(&self) -> (r: usize); }
impl VerifLen for str { #[verifier::external_body] fn verif_len(&self) -> (r: usize) ensures r == byte_len(self@) { self.len() } }
pub trait VerifUtf8 { fn verif_len_utf8(&self) -> (r: usize); }
impl VerifUtf8 for char { #[verifier::external_body] fn verif_len_utf8(&self) -> (r: usize) ensures r == utf8_len(*self) { self.len_utf8() } }
#[verifier::external_body] pub fn shim_with_capacity(n: usize) -> (r: String) ensures r@ == Seq::<char>::empty() { String::with_capacity(n) }
/// the '_' test of the loop: the slice `&bytes[i..]` is in range because i < len (checked by the caller's loop condition)
#[verifier::external_body] pub fn shim_starts_pattern(s: &str, i: usize) -> (r: bool) requires (i as int) < byte_len(s@) { unimplemented!() }

/// the slow path of escape_xml (after the borrowed fast path): the whole loop, verbatim
pub fn escape_xml_owned(s: &str) -> (result: String)
    ensures safe_piece(result@)       // every character written is an XML Char and no '<' is written raw ('&' only inside the entities and '_x' forms the code writes)
{
    broadcast use axiom_text_boundary_zero;
//@fragment xlsx/src/export/escape.rs escape_xml `let mut result = String::with_capacity(s.len() + 8);` .. `i += c.len_utf8();`
//@rewrite `let mut result = String::with_capacity(s.len() + 8);` => `let mut result = shim_with_capacity(0);`
//@rewrite `let bytes = s.as_bytes();` => ``
//@rewrite `let mut i = 0;` => `let mut i: usize = 0;`
//@rewrite `while i < s.len() {` => `while i < s.verif_len() {`
//@rewrite `let c = s[i..].chars().next().unwrap();` => `let c = shim_char_at(s, i);`
//@rewrite `result.push_str(&format!("_x{:04X}_", c as u32));` => `let esc = format!("_x{:04X}_", c as u32); result.push_str(esc.as_str());`
//@rewrite `starts_xlsx_escape_pattern(&bytes[i..])` => `shim_starts_pattern(s, i)`
//@rewrite `i += c.len_utf8();` => `i += c.verif_len_utf8();`
//@loop 1
        invariant text_boundary(s@, i as int), (i as int) <= byte_len(s@), safe_piece(result@)
        decreases byte_len(s@) - i
//@before `result.push_str("_x005F_");`
            proof { reveal_strlit("_x005F_"); }
//@end
    result
}
} // verus!
fn main() {}
