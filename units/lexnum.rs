// More cursor code of the formula lexer, for ANY character vector (C11): the number scanner consume_number, the row/column range scanner inside
// consume_range_a1 (`3:5`, `$A:$C`), and consume_absolute_reference's step back — every index is in range, `position + 1` cannot overflow,
// `self.position -= 1` cannot underflow, and the cursor invariant position <= len == chars.len() is kept.
use vstd::prelude::*;
use vstd::string::*;
verus! {
#[verifier::external_body] pub struct LocaleRest { _o: u8 }
#[verifier::external_body] pub struct LanguageRest { _o: u8 }
//@type base/src/language/mod.rs Booleans
pub struct Language { pub booleans: Booleans, pub rest: LanguageRest }                 // context shell (D5)
//@type base/src/locale/mod.rs NumbersSymbols
pub struct NumbersProperties { pub symbols: NumbersSymbols, pub rest: LocaleRest }     // context shell (D5)
pub struct Locale { pub numbers: NumbersProperties, pub rest: LocaleRest }             // context shell (D5)
#[derive(PartialEq, Eq, Structural)]
//@type base/src/expressions/lexer/mod.rs LexerMode
//@type base/src/expressions/lexer/mod.rs LexerError
//@type base/src/expressions/lexer/mod.rs Lexer
//@type base/src/expressions/token.rs TableSpecifier
//@type base/src/expressions/token.rs TableReference
pub enum TokenType {                                                                   // context shell (D5): the variants the extracted text names
    Illegal(LexerError), EOF, Ident(String), LeftBracket, RightBracket, Comma, Other, Boolean(bool),
    FromRange,          // what only the consume_range stub answers
    StructuredReference { table_name: String, specifier: Option<TableSpecifier>, table_reference: Option<TableReference> },
}
impl TokenType {
    /// `peek_token == TokenType::Comma` / `== TokenType::RightBracket` (PartialEq on the token enum)
    #[verifier::external_body] pub fn verif_is_comma(&self) -> (r: bool) ensures r == (self is Comma) { unimplemented!() }
    #[verifier::external_body] pub fn verif_is_right_bracket(&self) -> (r: bool) ensures r == (self is RightBracket) { unimplemented!() }
}
pub open spec fn is_prefix(p: Seq<char>, s: Seq<char>) -> bool { p.len() <= s.len() && s.subrange(0, p.len() as int) =~= p }
/// `self.chars[a..b].iter().collect::<String>()`
#[verifier::external_body]
pub fn shim_string(cs: &[char]) -> (r: String) ensures r@ == cs@ { cs.iter().collect() }
/// `<String>.starts_with(<ASCII literal>)`
#[verifier::external_body]
pub fn text_starts_with(s: &String, p: &str) -> (r: bool) ensures r == is_prefix(p@, s@) { s.starts_with(p) }
/// `<ASCII literal>.len()`: bytes == characters for an ASCII literal
#[verifier::external_body]
pub fn ascii_len(p: &str) -> (r: usize) requires p.is_ascii() ensures r == p@.len() { p.len() }
#[verifier::external_body]
pub fn shim_to_string(s: &str) -> (r: String) ensures r@ == s@ { s.to_string() }
//@type base/src/expressions/types.rs ParsedReference
//@type base/src/expressions/types.rs ParsedRange
pub uninterp spec fn unicode_alphabetic(c: char) -> bool;
pub assume_specification [str::to_uppercase] (s: &str) -> (r: String);
pub assume_specification [<char>::is_alphanumeric] (c: char) -> (r: bool);
pub assume_specification [<char>::is_alphabetic] (c: char) -> (r: bool) ensures r == unicode_alphabetic(c);
pub assume_specification [<char>::is_ascii_alphabetic] (c: &char) -> (r: bool);      // ASCII only: unrelated to unicode_alphabetic

pub assume_specification [<char>::to_ascii_uppercase] (c: &char) -> (r: char);
pub assume_specification [<char>::is_ascii_digit] (c: &char) -> (r: bool);
/// `<char>.to_string() == <String>`
pub trait VerifCharIs { fn verif_char_is(&self, s: &String) -> (r: bool); }
impl VerifCharIs for char { #[verifier::external_body] fn verif_char_is(&self, s: &String) -> (r: bool) { &self.to_string() == s } }
#[verifier::external_body] pub fn shim_char_string(c: char) -> (r: String) { c.to_string() }
#[verifier::external_body] pub fn shim_empty() -> (r: String) { "".to_string() }
/// a Vec<char> never holds more than isize::MAX / 4 elements (std allocation limit)
#[verifier::external_body]
pub proof fn axiom_vec_char_len(v: &Vec<char>) ensures v@.len() <= (isize::MAX as int) / 4 {}

pub trait VerifAsciiLen { fn verif_ascii_len(&self) -> (r: usize); }
impl VerifAsciiLen for str {
    #[verifier::external_body]
    fn verif_ascii_len(&self) -> (r: usize) ensures self.is_ascii() ==> r == self@.len() { self.len() }
}
impl<'a> Lexer<'a> {
    pub open spec fn wf(&self) -> bool { self.len == self.chars@.len() && self.position <= self.len }
    #[verifier::external_body]
    fn consume_range(&mut self, sheet: Option<String>) -> (r: TokenType) requires old(self).wf() ensures final(self).wf(), r is FromRange { unimplemented!() }
//@fn base/src/expressions/lexer/mod.rs Lexer::set_error
//@spec
    requires old(self).wf()
    ensures final(self).wf()
//@end

pub fn scan_number(&mut self, first: char) -> (position: usize)
    requires old(self).wf()
    ensures final(self).wf(), position == final(self).position
{
    proof { axiom_vec_char_len(&self.chars); }
//@fragment base/src/expressions/lexer/mod.rs Lexer::consume_number `let mut position = self.position;` .. `self.position = position;`
//@rewrite `let mut chars = first.to_string();` => `let mut chars = shim_char_string(first);`
//@rewrite `self.chars[position].to_string() == self.locale.numbers.symbols.decimal` => `self.chars[position].verif_char_is(&self.locale.numbers.symbols.decimal)`
//@loop 1
            invariant self.wf(), len == self.len, position <= len
            decreases len - position
//@loop 2
            invariant self.wf(), len == self.len, position <= len
            decreases len - position
//@loop 3
            invariant self.wf(), len == self.len, position <= len
            decreases len - position
//@end
    position
}

/// the `Err(_)` branch of consume_range_a1 up to where the cursor is stored: row ranges `3:5` and column ranges `$A:$C`
pub fn scan_row_or_column_range(&mut self, position0: usize) -> (r: core::result::Result<usize, LexerError>)
    requires old(self).wf(), position0 <= old(self).len
    ensures final(self).wf()
{
    let mut position = position0;
//@fragment base/src/expressions/lexer/ranges.rs Lexer::consume_range_a1 `let len = self.len;` ..< `if !row_left.is_empty() {`
//@rewritex4 `"".to_string()` => `shim_empty()`
//@loop 1
            invariant self.wf(), len == self.len, position <= len
            decreases len - position
//@loop 2
            invariant self.wf(), len == self.len, position <= len
            decreases len - position
//@end
    Ok(position)
}

//@fn base/src/expressions/lexer/mod.rs Lexer::peek_char
//@spec
    requires old(self).wf()
    ensures final(self).wf(), *final(self) == *old(self), r is Some ==> old(self).position < old(self).len,
        r == (if old(self).position < old(self).len { Some(old(self).chars@[old(self).position as int]) } else { None::<char> })
//@rewrite `-> Option<char> {` => `-> (r: Option<char>) {`
//@end
//@fn base/src/expressions/lexer/mod.rs Lexer::read_next_char
//@spec
    requires old(self).wf()
    ensures final(self).wf()
//@end
    // ASSUMED here (proved in unit lexpanic): expect_char and consume_integer keep the cursor invariant; expect (a full next_token) keeps it
    #[verifier::external_body]
    fn expect_char(&mut self, ch_expected: char) -> (r: core::result::Result<(), LexerError>) requires old(self).wf() ensures final(self).wf() { unimplemented!() }
    #[verifier::external_body]
    fn consume_integer(&mut self, first: char) -> (r: core::result::Result<i32, LexerError>) requires old(self).wf() ensures final(self).wf() { unimplemented!() }
    /// ASSUMED (next_token as a whole is not under contract): a full token read keeps the cursor invariant, never moves the cursor backwards, and a
    /// successful expect of a token other than EOF has consumed at least one character
    #[verifier::external_body]
    pub fn expect(&mut self, tk: TokenType) -> (r: core::result::Result<(), LexerError>)
        requires old(self).wf()
        ensures final(self).wf(), r.is_ok() ==> final(self).position >= old(self).position, r.is_ok() && !(tk is EOF) ==> final(self).position >= 1
    { unimplemented!() }
    /// ASSUMED: peek_token restores the cursor; advance_token moves it to the end of the peeked token (not backwards)
    #[verifier::external_body]
    pub fn peek_token(&mut self) -> (r: TokenType) requires old(self).wf() ensures final(self).wf(), final(self).position == old(self).position { unimplemented!() }
    #[verifier::external_body]
    pub fn advance_token(&mut self) requires old(self).wf() ensures final(self).wf(), final(self).position >= old(self).position { unimplemented!() }
    /// ASSUMED here (its scanning loop is proved in unit lexpanic): keeps the cursor invariant
    #[verifier::external_body]
    fn consume_column_reference(&mut self) -> (r: core::result::Result<String, LexerError>) requires old(self).wf() ensures final(self).wf() { unimplemented!() }
//@fn base/src/expressions/lexer/structured_references.rs Lexer::consume_table_specifier
//@spec
    requires old(self).wf()
    ensures final(self).wf(), final(self).position >= old(self).position
//@rewrite `-> Result<Option<TableSpecifier>> {` => `-> core::result::Result<Option<TableSpecifier>, LexerError> {`
//@before `if self.peek_char() == Some('#') {`
        proof { reveal_strlit("#This Row]"); reveal_strlit("#All]"); reveal_strlit("#Data]"); reveal_strlit("#Headers]"); reveal_strlit("#Totals]"); }
//@rewrite `let rest_of_formula: String = self.chars[self.position..self.len].iter().collect();` => `let rest_of_formula: String = shim_string(&self.chars[self.position..self.len]);`
//@rewrite* `rest_of_formula.starts_with(` => `text_starts_with(&rest_of_formula, `
//@rewrite* `]".len()` => `]".verif_ascii_len()`
//@rewrite* `"Invalid structured reference".to_string()` => `shim_to_string("Invalid structured reference")`
//@end
//@fn base/src/expressions/lexer/structured_references.rs Lexer::consume_structured_reference
//@spec
    requires old(self).wf()
    ensures final(self).wf()
//@rewrite `-> Result<TokenType> {` => `-> core::result::Result<TokenType, LexerError> {`
//@rewrite `peek_token == TokenType::Comma` => `peek_token.verif_is_comma()`
//@rewrite `peek_token == TokenType::RightBracket` => `peek_token.verif_is_right_bracket()`
//@rewrite* `table_name.to_string()` => `shim_to_string(table_name)`
//@rewrite* `"Invalid structured reference".to_string()` => `shim_to_string("Invalid structured reference")`
//@end
//@fn base/src/expressions/lexer/ranges.rs Lexer::consume_reference_r1c1
//@spec
    requires old(self).wf()
    ensures final(self).wf()
//@rewrite `-> Result<ParsedReference> {` => `-> core::result::Result<ParsedReference, LexerError> {`
//@end
//@fn base/src/expressions/lexer/ranges.rs Lexer::consume_range_r1c1
//@spec
    requires old(self).wf()
    ensures final(self).wf()
//@rewrite `-> Result<ParsedRange> {` => `-> core::result::Result<ParsedRange, LexerError> {`
//@end
/// where an identifier (a function name of any language, a defined name, a sheet name) may START: next_token's test, verbatim, followed by the cursor steps
/// before consume_identifier.  C23: names of every language — also those beginning with a non-ASCII letter — are read as identifiers, so the test is the
/// Unicode one (char::is_alphabetic), the same family consume_identifier continues with (is_alphanumeric); and `self.position -= 1` cannot underflow.
pub fn identifier_start(&mut self, char: char)
    requires old(self).wf(), old(self).position >= 1          // called right after read_next_char returned `char`
    ensures final(self).wf(),
        // the identifier branch is entered (it steps the cursor back onto `char`) exactly for a Unicode letter or '_'
        final(self).position == (if unicode_alphabetic(char) || char == '_' { old(self).position - 1 } else { old(self).position as int }),
{
//@fragment base/src/expressions/lexer/mod.rs Lexer::next_token `if char.is_a` ..< `let name = self.consume_identifier();`
//@end
}
/// after an identifier was read: a name followed by '!' is a SHEET name — also when it spells a boolean of the language (a sheet called TRUE, C22 / C17) —
/// and only otherwise can it be a boolean.  The piece of next_token between consume_identifier and the boolean test, verbatim.
pub fn after_identifier(&mut self, name: String, position: usize) -> (r: TokenType)
    requires old(self).wf(), 1 <= position <= old(self).len
    ensures final(self).wf(),
        old(self).position < old(self).len && old(self).chars@[old(self).position as int] == '!' ==> r is FromRange,
{
//@fragment base/src/expressions/lexer/mod.rs Lexer::next_token `let position_indent = self.position;` ..< `if self.mode == LexerMode::A1 {`
//@end
    TokenType::Other
}
//@fn base/src/expressions/lexer/mod.rs Lexer::consume_absolute_reference
//@spec
    requires old(self).wf(), old(self).position >= 1        // called by next_token right after read_next_char returned '$'
    ensures final(self).wf()
//@end
}
} // verus!
fn main() {}
