// U-nextstate: F4 cycling of the absolute/relative state has period four and follows A1 -> $A$1 -> A$1 -> $A1 -> A1.   (C34)
use vstd::prelude::*;
verus! {

//@fn base/src/expressions/lexer/util.rs next_state
//@spec
    ensures
        // the exact cycle of the statement
        (absolute_column, absolute_row) == (false, false) ==> r == (true, true),
        (absolute_column, absolute_row) == (true, true) ==> r == (false, true),
        (absolute_column, absolute_row) == (false, true) ==> r == (true, false),
        (absolute_column, absolute_row) == (true, false) ==> r == (false, false),
//@rewrite `-> (bool, bool) {` => `-> (r: (bool, bool)) {`
//@end

pub open spec fn ns(s: (bool, bool)) -> (bool, bool) {
    if s == (false, false) { (true, true) } else if s == (true, true) { (false, true) } else if s == (false, true) { (true, false) } else { (false, false) }
}
/// four successive cycles return the original state, and no shorter cycle exists
pub proof fn lemma_period_four(s: (bool, bool))
    ensures ns(ns(ns(ns(s)))) == s, ns(s) != s, ns(ns(s)) != s, ns(ns(ns(s))) != s
{
    let (a, b) = s;
    if a { if b { assert(s == (true, true)); } else { assert(s == (true, false)); } }
    else { if b { assert(s == (false, true)); } else { assert(s == (false, false)); } }
}
pub fn four_cycles(c: bool, r: bool) -> (out: (bool, bool))
    ensures out == (c, r)
{
    let s1 = next_state(c, r);
    let s2 = next_state(s1.0, s1.1);
    let s3 = next_state(s2.0, s2.1);
    next_state(s3.0, s3.1)
}

} // verus!
fn main() {}
