// U-nextstate: F4 cycling of the absolute/relative state has period four and follows A1 -> $A$1 -> A$1 -> $A1 -> A1.   (C34)
use vstd::prelude::*;
verus! {

//@fn base/src/expressions/lexer/util.rs next_state
//@spec
    ensures
        // the exact cycle of the statement
        (absolute_column, absolute_row) == (false, false) ==> r == (true, true),
        (absolute_column, absolute_row) == (true, true) ==> r == (false, true),
        (absolute_column, absolute_row) == (false, true) ==> r == (true, false),
        (absolute_column, absolute_row) == (true, false) ==> r == (false, false),
//@rewrite `-> (bool, bool) {` => `-> (r: (bool, bool)) {`
//@end

pub open spec fn ns(s: (bool, bool)) -> (bool, bool) {
    if s == (false, false) { (true, true) } else if s == (true, true) { (false, true) } else if s == (false, true) { (true, false) } else { (false, false) }
}
/// four successive cycles return the original state, and no shorter cycle exists
pub proof fn lemma_period_four(s: (bool, bool))
    ensures ns(ns(ns(ns(s)))) == s, ns(s) != s, ns(ns(s)) != s, ns(ns(ns(s))) != s
{
    let (a, b) = s;
    if a { if b { assert(s == (true, true)); } else { assert(s == (true, false)); } }
    else { if b { assert(s == (false, true)); } else { assert(s == (false, false)); } }
}
pub fn four_cycles(c: bool, r: bool) -> (out: (bool, bool))
    ensures out == (c, r)
{
    let s1 = next_state(c, r);
    let s2 = next_state(s1.0, s1.1);
    let s3 = next_state(s2.0, s2.1);
    next_state(s3.0, s3.1)
}

// the absolute/relative decision of cycle_endpoint for the three endpoint shapes ([$]col[$]row, row-only "5" / "$5", column-only "D" / "$D")
pub open spec fn toggled_row_only(absolute_column: bool, absolute_row: bool) -> (bool, bool) { (false, !(absolute_column || absolute_row)) }
pub fn endpoint_decision(column: &[char], row: &[char], absolute_column: bool, absolute_row: bool) -> (r: (bool, bool))
    ensures
        // a complete endpoint follows the four-state cycle
        column@.len() > 0 && row@.len() > 0 ==> r == ns((absolute_column, absolute_row)),
        // a row-only endpoint ("5" / "$5": a leading '$' was parsed as the column marker) toggles its single '$': period two
        column@.len() == 0 ==> r.0 == false && r.1 == !(absolute_column || absolute_row),
        // a column-only endpoint toggles its single '$'
        column@.len() > 0 && row@.len() == 0 ==> r.1 == false && r.0 == !absolute_column,
{
//@fragment base/src/expressions/lexer/util.rs cycle_endpoint `let (new_column, new_row) = if column.is_empty() {` .. `};`
//@end
    (new_column, new_row)
}

} // verus!
fn main() {}
