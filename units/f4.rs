// U-nextstate: F4 cycling of the absolute/relative state has period four and follows A1 -> $A$1 -> A$1 -> $A1 -> A1.   (C34)
use vstd::prelude::*;
verus! {

//@fn base/src/expressions/lexer/util.rs next_state
//@spec
    ensures
        // the exact cycle of the statement
        (absolute_column, absolute_row) == (false, false) ==> r == (true, true),
        (absolute_column, absolute_row) == (true, true) ==> r == (false, true),
        (absolute_column, absolute_row) == (false, true) ==> r == (true, false),
        (absolute_column, absolute_row) == (true, false) ==> r == (false, false),
//@rewrite `-> (bool, bool) {` => `-> (r: (bool, bool)) {`
//@end

pub open spec fn ns(s: (bool, bool)) -> (bool, bool) {
    if s == (false, false) { (true, true) } else if s == (true, true) { (false, true) } else if s == (false, true) { (true, false) } else { (false, false) }
}
/// four successive cycles return the original state, and no shorter cycle exists
pub proof fn lemma_period_four(s: (bool, bool))
    ensures ns(ns(ns(ns(s)))) == s, ns(s) != s, ns(ns(s)) != s, ns(ns(ns(s))) != s
{
    let (a, b) = s;
    if a { if b { assert(s == (true, true)); } else { assert(s == (true, false)); } }
    else { if b { assert(s == (false, true)); } else { assert(s == (false, false)); } }
}
pub fn four_cycles(c: bool, r: bool) -> (out: (bool, bool))
    ensures out == (c, r)
{
    let s1 = next_state(c, r);
    let s2 = next_state(s1.0, s1.1);
    let s3 = next_state(s2.0, s2.1);
    next_state(s3.0, s3.1)
}

// the absolute/relative decision of cycle_endpoint for the three endpoint shapes ([$]col[$]row, row-only "5" / "$5", column-only "D" / "$D")
pub open spec fn toggled_row_only(absolute_column: bool, absolute_row: bool) -> (bool, bool) { (false, !(absolute_column || absolute_row)) }
pub fn endpoint_decision(column: &[char], row: &[char], absolute_column: bool, absolute_row: bool) -> (r: (bool, bool))
    ensures
        // a complete endpoint follows the four-state cycle
        column@.len() > 0 && row@.len() > 0 ==> r == ns((absolute_column, absolute_row)),
        // a row-only endpoint ("5" / "$5": a leading '$' was parsed as the column marker) toggles its single '$': period two
        column@.len() == 0 ==> r.0 == false && r.1 == !(absolute_column || absolute_row),
        // a column-only endpoint toggles its single '$'
        column@.len() > 0 && row@.len() == 0 ==> r.1 == false && r.0 == !absolute_column,
{
//@fragment base/src/expressions/lexer/util.rs cycle_endpoint `let (new_column, new_row) = if column.is_empty() {` .. `};`
//@end
    (new_column, new_row)
}


// ---- cycle_endpoint, whole function: only '$' markers and letter case change, for every endpoint text ----
pub open spec fn up(c: char) -> char { if 'a' <= c <= 'z' { ((c as u8) - 32) as char } else { c } }
pub open spec fn undollar(s: Seq<char>) -> Seq<char> { s.filter(|c: char| c != '$') }
pub open spec fn norm(s: Seq<char>) -> Seq<char> { undollar(s).map_values(|c: char| up(c)) }
pub assume_specification [<char>::is_ascii_alphabetic] (c: &char) -> (r: bool)
    ensures r == (('a' <= *c <= 'z') || ('A' <= *c <= 'Z'));
pub assume_specification [<char>::is_ascii_digit] (c: &char) -> (r: bool)
    ensures r == ('0' <= *c <= '9');
// slice::to_vec copies the elements (used here with T = char, whose Clone is a bit copy)
pub assume_specification<T: Clone> [<[T]>::to_vec] (s: &[T]) -> (r: Vec<T>)
    ensures r@ == s@;
/// `result.extend(column.iter().map(|c| c.to_ascii_uppercase()))` (iterator adapter + closure): appends the upper-cased letters
#[verifier::external_body]
pub fn shim_extend_upper(result: &mut Vec<char>, column: &[char])
    ensures final(result)@ =~= old(result)@ + column@.map_values(|c: char| up(c))
{ result.extend(column.iter().map(|c| c.to_ascii_uppercase())); }

pub open spec fn dollar(b: bool) -> Seq<char> { if b { seq!['$'] } else { Seq::<char>::empty() } }
pub open spec fn is_alpha(c: char) -> bool { ('a' <= c <= 'z') || ('A' <= c <= 'Z') }
pub open spec fn is_digit(c: char) -> bool { '0' <= c <= '9' }
pub open spec fn upmap(s: Seq<char>) -> Seq<char> { s.map_values(|c: char| up(c)) }
pub proof fn lemma_norm_add(a: Seq<char>, b: Seq<char>)
    ensures norm(a + b) =~= norm(a) + norm(b)
{
    Seq::filter_distributes_over_add(a, b, |c: char| c != '$');
}
pub proof fn lemma_undollar_clean(s: Seq<char>)
    requires forall|k: int| 0 <= k < s.len() ==> s[k] != '$'
    ensures undollar(s) =~= s
    decreases s.len()
{
    reveal(Seq::filter);
    if s.len() > 0 { lemma_undollar_clean(s.drop_last()); assert(s =~= s.drop_last().push(s.last())); }
}
pub proof fn lemma_norm_dollar(b: bool)
    ensures norm(dollar(b)) =~= Seq::<char>::empty()
{
    reveal(Seq::filter);
    reveal_with_fuel(Seq::filter, 3);
    if b { assert(seq!['$'].drop_last() =~= Seq::<char>::empty()); }
}
pub proof fn lemma_norm_letters(s: Seq<char>)
    requires forall|k: int| 0 <= k < s.len() ==> is_alpha(#[trigger] s[k])
    ensures norm(upmap(s)) =~= norm(s)
{
    lemma_undollar_clean(s);
    assert forall|k: int| 0 <= k < upmap(s).len() implies upmap(s)[k] != '$' by { assert(is_alpha(s[k])); }
    lemma_undollar_clean(upmap(s));
    assert forall|k: int| 0 <= k < s.len() implies up(up(s[k])) == up(s[k]) by { assert(is_alpha(s[k])); }
}

//@fn base/src/expressions/lexer/util.rs cycle_endpoint
//@spec
    requires part@.len() + 4 <= usize::MAX   // a [char] slice holds at most isize::MAX / 4 elements (allocation limit; not provable in Verus)
    ensures norm(r@) =~= norm(part@)      // C34: only '$' markers and letter case differ
//@rewrite `-> Vec<char> {` => `-> (r: Vec<char>) {`
//@rewrite `result.extend(column.iter().map(|c| c.to_ascii_uppercase()));` => `shim_extend_upper(&mut result, column);`
//@loop 1
        invariant column_start <= i <= n, n == part@.len(), forall|k: int| column_start <= k < i ==> is_alpha(#[trigger] part@[k])
        decreases n - i
//@loop 2
        invariant row_start <= i <= n, n == part@.len(), forall|k: int| row_start <= k < i ==> is_digit(#[trigger] part@[k])
        decreases n - i
//@before `let mut result = Vec::with_capacity(n + 2);`
    proof {
        assert(part@ =~= dollar(absolute_column) + column@ + dollar(absolute_row) + row@);
    }
//@after `result.extend_from_slice(row);`
    proof {
        let p1 = dollar(absolute_column); let p2 = dollar(absolute_row); let q1 = dollar(new_column); let q2 = dollar(new_row);
        assert(result@ =~= q1 + upmap(column@) + q2 + row@);
        lemma_norm_add(p1 + column@ + p2, row@); lemma_norm_add(p1 + column@, p2); lemma_norm_add(p1, column@);
        lemma_norm_add(q1 + upmap(column@) + q2, row@); lemma_norm_add(q1 + upmap(column@), q2); lemma_norm_add(q1, upmap(column@));
        lemma_norm_dollar(absolute_column); lemma_norm_dollar(absolute_row); lemma_norm_dollar(new_column); lemma_norm_dollar(new_row);
        lemma_norm_letters(column@);
    }
//@end

// ---- cycle_token_text, whole function: a reference/range token with optional whitespace and sheet prefix ----
/// `text.iter().skip(i).position(|&c| c == '!')` (iterator adapters + closure): offset of the first '!' at or after i
#[verifier::external_body]
pub fn shim_find_bang(text: &[char], i: usize) -> (r: Option<usize>)
    requires i <= text@.len()
    ensures r matches Some(b) ==> i + b < text@.len() && text@[i + b] == '!'
{ text.iter().skip(i).position(|&c| c == '!') }
pub proof fn lemma_norm_take_next(s: Seq<char>, i: int)
    requires 0 <= i < s.len()
    ensures norm(s.take(i + 1)) =~= norm(s.take(i)) + norm(seq![s[i]])
{
    assert(s.take(i + 1) =~= s.take(i) + seq![s[i]]);
    lemma_norm_add(s.take(i), seq![s[i]]);
}
pub proof fn lemma_norm_take_range(s: Seq<char>, a: int, b: int)
    requires 0 <= a <= b <= s.len()
    ensures norm(s.take(b)) =~= norm(s.take(a)) + norm(s.subrange(a, b))
{
    assert(s.take(b) =~= s.take(a) + s.subrange(a, b));
    lemma_norm_add(s.take(a), s.subrange(a, b));
}
/// one character copied verbatim from position i
pub proof fn lemma_pushed(r0: Seq<char>, res: Seq<char>, s: Seq<char>, i: int)
    requires 0 <= i < s.len(), res =~= r0.push(s[i]), norm(r0) =~= norm(s.take(i))
    ensures norm(res) =~= norm(s.take(i + 1))
{
    assert(res =~= r0 + seq![s[i]]);
    lemma_norm_add(r0, seq![s[i]]);
    lemma_norm_take_next(s, i);
}
/// a stretch [a, b) replaced by something with the same norm (a verbatim copy, or a cycled endpoint)
pub proof fn lemma_appended(r0: Seq<char>, e: Seq<char>, s: Seq<char>, a: int, b: int)
    requires 0 <= a <= b <= s.len(), norm(r0) =~= norm(s.take(a)), norm(e) =~= norm(s.subrange(a, b))
    ensures norm(r0 + e) =~= norm(s.take(b))
{
    lemma_norm_add(r0, e);
    lemma_norm_take_range(s, a, b);
}
//@fn base/src/expressions/lexer/util.rs cycle_token_text
//@attr
#[verifier::loop_isolation(false)]
#[verifier::allow_complex_invariants]
//@spec
    requires text@.len() + 8 <= usize::MAX
    ensures norm(r@) =~= norm(text@)      // C34: only '$' markers and letter case differ, sheet prefix and whitespace included
//@rewrite `-> Vec<char> {` => `-> (r: Vec<char>) {`
//@rewrite* `text.iter().skip(i).position(|&c| c == '!')` => `shim_find_bang(text, i)`
//@rewrite* `text.iter().position(|&c| c == '!')` => `shim_find_bang(text, 0)`
//@rewrite* `text[i..].iter().position(|&c| c == '!')` => `shim_find_bang(text, i)`
//@rewrite `result.extend(cycle_endpoint(&text[part_start..i]));` => `let mut __e = cycle_endpoint(&text[part_start..i]); let ghost e0 = __e@; result.append(&mut __e);`
//@loop 1
        invariant 0 <= i <= n, n == text@.len(), norm(result@) =~= norm(text@.take(i as int))
        decreases n - i
//@loop 2
            invariant 0 <= i <= n, n == text@.len(), norm(result@) =~= norm(text@.take(i as int))
            decreases n - i
//@loop 3
        invariant 0 <= i <= n, n == text@.len(), norm(result@) =~= norm(text@.take(i as int))
        ensures norm(result@) =~= norm(text@)
        decreases n - i
//@before#2 `break;`
            proof { assert(text@.take(i as int) =~= text@); }
//@loop 4
            invariant part_start <= i <= n, n == text@.len(), norm(result@) =~= norm(text@.take(part_start as int))
            decreases n - i
//@before `result.push(text[i]);`
        let ghost rp = result@;
//@after `result.push(text[i]);`
        proof { lemma_pushed(rp, result@, text@, i as int); }
//@before#1 `result.push('\'');`
        let ghost rp = result@;
//@after#1 `result.push('\'');`
        proof { lemma_pushed(rp, result@, text@, i as int); }
//@before `result.push(c);`
        let ghost rp = result@;
//@after `result.push(c);`
        proof { lemma_pushed(rp, result@, text@, i as int); }
//@before#2 `result.push('\'');`
        let ghost rp = result@;
//@after#2 `result.push('\'');`
        proof { lemma_pushed(rp, result@, text@, i as int); }
//@before `result.push('!');`
        let ghost rp = result@;
//@after `result.push('!');`
        proof { lemma_pushed(rp, result@, text@, i as int); }
//@before `result.push(':');`
        let ghost rp = result@;
//@after `result.push(':');`
        proof { lemma_pushed(rp, result@, text@, i as int); }
//@before `result.extend_from_slice(&text[i..prefix_end]);`
        let ghost r0 = result@;
//@after `result.extend_from_slice(&text[i..prefix_end]);`
        proof { lemma_appended(r0, text@.subrange(i as int, prefix_end as int), text@, i as int, prefix_end as int);
                assert(result@ =~= r0 + text@.subrange(i as int, prefix_end as int)); }
//@before `let mut __e = cycle_endpoint(`
        let ghost r1 = result@;
//@after `result.append(&mut __e);`
        proof { lemma_appended(r1, e0, text@, part_start as int, i as int); assert(result@ =~= r1 + e0); }
//@end

// ---- cycle_reference, whole function: the public F4 entry point over a formula text ----
#[verifier::external_body] pub struct Locale { _o: u8 }
#[verifier::external_body] pub struct Language { _o: u8 }
pub mod token {
    // context shell (D5): only "is this token a reference or a range" is looked at
    pub enum TokenType { Reference { o: u8 }, Range { o: u8 }, Other }
}
//@type base/src/expressions/lexer/util.rs MarkedToken
/// ASSUMED contract of the formula lexer (it is not under contract as a whole; unit lexpanic proves its cursor stays inside the text):
/// token spans lie inside the text and are ordered
pub open spec fn spans_ok(ts: Seq<MarkedToken>, n: int) -> bool {
    &&& forall|k: int| 0 <= k < ts.len() ==> 0 <= (#[trigger] ts[k]).start <= ts[k].end <= n
    &&& forall|j: int, k: int| 0 <= j < k < ts.len() ==> (#[trigger] ts[j]).end <= (#[trigger] ts[k]).start
}
#[verifier::external_body]
pub fn get_tokens_with_locale(formula: &str, locale: &Locale, language: &Language) -> (r: Vec<MarkedToken>)
    ensures spans_ok(r@, formula@.len() as int)
{ unimplemented!() }
// text <-> character vector conversions and one iterator-adapter count (outside Verus), read with their documented meaning
#[verifier::external_body]
pub fn shim_chars(value: &str) -> (r: Vec<char>) ensures r@ == value@ { value.chars().collect() }
#[verifier::external_body]
pub fn shim_string(cs: &[char]) -> (r: String) ensures r@ == cs@ { cs.iter().collect() }
#[verifier::external_body]
pub fn shim_leading_whitespace(cs: &[char]) -> (r: usize) ensures r <= cs@.len() { cs.iter().take_while(|c| c.is_whitespace()).count() }
/// std fact: a Vec<char> never holds more than isize::MAX / 4 elements (allocation limit), so small additions to its length cannot overflow
#[verifier::external_body]
pub proof fn axiom_vec_char_len(v: &Vec<char>) ensures v@.len() <= (isize::MAX as int) / 4 {}
#[verifier::external_body]
pub fn shim_to_string(s: &str) -> (r: String) ensures r@ == s@ { s.to_string() }

//@fn base/src/expressions/lexer/util.rs cycle_reference
//@attr
#[verifier::loop_isolation(false)]
//@spec
    requires value@.len() + 16 <= i32::MAX
    ensures r matches Ok(t) ==> norm(t.0@) =~= norm(value@)     // C34: only '$' markers and letter case of the formula text change
//@rewrite `) -> Result<(String, i32, i32), String> {` => `) -> (r: Result<(String, i32, i32), String>) {`
//@afterstmt `let mut result: Vec<char> = `
    let ghost mut rest: Seq<char> = Seq::empty();
    proof { assert(body@.take(0) =~= Seq::<char>::empty()); }
//@rewrite* `value.to_string()` => `shim_to_string(value)`
//@rewrite* `let chars: Vec<char> = value.chars().collect();` => `let chars: Vec<char> = shim_chars(value);`
//@rewrite* `let body_str: String = body.iter().collect();` => `let body_str: String = shim_string(body);`
//@rewrite* `let new_value: String = result.iter().collect();` => `let new_value: String = shim_string(result.as_slice());`
//@rewrite* `token_text.iter().take_while(|c| c.is_whitespace()).count()` => `shim_leading_whitespace(token_text)`
//@rewrite* `result.extend(cycle_token_text(token_text));` => `let mut __e = cycle_token_text(token_text); let ghost e0 = __e@; result.append(&mut __e);`
//@loop 1
        invariant
            __k <= __toks@.len(), spans_ok(__toks@, body@.len() as int), body@ =~= chars@.subrange(1, chars@.len() as int), chars@ == value@, chars@.len() >= 1, chars@[0] == '=',
            (copied as int) <= body@.len(), forall|j: int| __k <= j < __toks@.len() ==> (copied as int) <= (#[trigger] __toks@[j]).start,
            result@ =~= seq!['='] + rest, norm(rest) =~= norm(body@.take(copied as int)),
            (last_cycled_end as int) <= result@.len(),
        decreases __toks@.len() - __k
//@before `first_cycled_start = Some(`
            proof { axiom_vec_char_len(&result); }
//@before `result.extend_from_slice(&body[copied..token_start - 1]);`
        proof { assert((copied as int) <= __toks@[__k - 1].start); }
        let ghost r0 = rest;
//@after `result.extend_from_slice(&body[copied..token_start - 1]);`
        proof {
            rest = r0 + body@.subrange(copied as int, token_start - 1);
            lemma_appended(r0, body@.subrange(copied as int, token_start - 1), body@, copied as int, token_start - 1);
        }
//@after `result.append(&mut __e);`
        proof {
            let r1 = rest;
            rest = r1 + e0;
            lemma_appended(r1, e0, body@, token_start - 1, token_end - 1);
        }
//@before `result.extend_from_slice(&body[copied..]);`
    let ghost r2 = rest;
//@after `result.extend_from_slice(&body[copied..]);`
    proof {
        rest = r2 + body@.subrange(copied as int, body@.len() as int);
        lemma_appended(r2, body@.subrange(copied as int, body@.len() as int), body@, copied as int, body@.len() as int);
        assert(body@.take(body@.len() as int) =~= body@);
        assert(value@ =~= seq!['='] + body@);
        lemma_norm_add(seq!['='], body@);
        lemma_norm_add(seq!['='], rest);
        assert(result@ =~= seq!['='] + rest);
        assert(norm(rest) =~= norm(body@));
        assert(norm(result@) =~= norm(value@));
    }
//@rewrite* `for marked in get_tokens_with_locale(&body_str, locale, language) {` => `let __toks = get_tokens_with_locale(&body_str, locale, language); let mut __k: usize = 0; while __k < __toks.len() { let marked = &__toks[__k]; __k += 1;`
//@end
} // verus!
fn main() {}
