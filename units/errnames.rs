// U-errnames: every error value's English/xlsx name parses back to the same error.   (C23, error half)
use vstd::prelude::*;
verus! {
//@type base/src/expressions/token.rs Error

impl Error {
// R6: Display::fmt is `match self { V => write!(fmt, LIT) }`; the formatter plumbing is dropped and each arm is read as
// the literal it writes (rewrites listed in evidence; a non-literal arm would make the rewrite count mismatch => undecided).
//@fn base/src/expressions/token.rs fmt::Display for Error::fmt
//@spec
    ensures r@ == english_name(*self)
//@rewrite `fn fmt(&self, fmt: &mut fmt::Formatter) -> fmt::Result {` => `pub fn display_lit(&self) -> (r: &'static str) {`
//@rewritex12 `write!(fmt, ` => `(`
//@end
}

/// the names written to xlsx files and used as the English display form (from the statement: each must parse back)
pub open spec fn english_name(e: Error) -> Seq<char> {
    match e {
        Error::NULL => "#NULL!"@, Error::REF => "#REF!"@, Error::NAME => "#NAME?"@, Error::VALUE => "#VALUE!"@,
        Error::DIV => "#DIV/0!"@, Error::NA => "#N/A"@, Error::NUM => "#NUM!"@, Error::ERROR => "#ERROR!"@,
        Error::NIMPL => "#N/IMPL!"@, Error::SPILL => "#SPILL!"@, Error::CALC => "#CALC!"@, Error::CIRC => "#CIRC!"@,
    }
}
pub proof fn reveal_names()
    ensures
        "#NULL!"@ == seq!['#','N','U','L','L','!'], "#REF!"@ == seq!['#','R','E','F','!'], "#NAME?"@ == seq!['#','N','A','M','E','?'],
        "#VALUE!"@ == seq!['#','V','A','L','U','E','!'], "#DIV/0!"@ == seq!['#','D','I','V','/','0','!'], "#N/A"@ == seq!['#','N','/','A'],
        "#NUM!"@ == seq!['#','N','U','M','!'], "#ERROR!"@ == seq!['#','E','R','R','O','R','!'], "#N/IMPL!"@ == seq!['#','N','/','I','M','P','L','!'],
        "#SPILL!"@ == seq!['#','S','P','I','L','L','!'], "#CALC!"@ == seq!['#','C','A','L','C','!'], "#CIRC!"@ == seq!['#','C','I','R','C','!'],
{
    reveal_strlit("#NULL!"); reveal_strlit("#REF!"); reveal_strlit("#NAME?"); reveal_strlit("#VALUE!"); reveal_strlit("#DIV/0!");
    reveal_strlit("#N/A"); reveal_strlit("#NUM!"); reveal_strlit("#ERROR!"); reveal_strlit("#N/IMPL!"); reveal_strlit("#SPILL!");
    reveal_strlit("#CALC!"); reveal_strlit("#CIRC!");
    assert("#NULL!"@ =~= seq!['#','N','U','L','L','!']); assert("#REF!"@ =~= seq!['#','R','E','F','!']); assert("#NAME?"@ =~= seq!['#','N','A','M','E','?']);
    assert("#VALUE!"@ =~= seq!['#','V','A','L','U','E','!']); assert("#DIV/0!"@ =~= seq!['#','D','I','V','/','0','!']); assert("#N/A"@ =~= seq!['#','N','/','A']);
    assert("#NUM!"@ =~= seq!['#','N','U','M','!']); assert("#ERROR!"@ =~= seq!['#','E','R','R','O','R','!']); assert("#N/IMPL!"@ =~= seq!['#','N','/','I','M','P','L','!']);
    assert("#SPILL!"@ =~= seq!['#','S','P','I','L','L','!']); assert("#CALC!"@ =~= seq!['#','C','A','L','C','!']); assert("#CIRC!"@ =~= seq!['#','C','I','R','C','!']);
}
/// no two errors share a name
pub proof fn lemma_names_distinct(a: Error, b: Error)
    requires english_name(a) == english_name(b)
    ensures a == b
{
    reveal_names();
    let x = english_name(a); let y = english_name(b);
    assert(x.len() == y.len());
    if x.len() >= 5 { assert(x[1] == y[1] && x[2] == y[2] && x[3] == y[3] && x[4] == y[4]); }
}

//@fn base/src/expressions/token.rs get_error_by_english_name
//@spec
    ensures
        // the printed name of every error parses back to that error ...
        forall|e: Error| name@ == #[trigger] english_name(e) ==> r == Some(e),
        // ... and nothing else is accepted
        r.is_some() ==> name@ == english_name(r.unwrap()),
//@rewrite `-> Option<Error> {` => `-> (r: Option<Error>) {`
//@before `if name == "#REF!" {`
    proof {
        reveal_names();
        assert forall|e: Error| name@ == #[trigger] english_name(e) implies true by {}
    }
//@end

/// C23 (error half) as a lemma over the two contracts: parse(print(e)) == e for every error kind
pub fn roundtrip(e: Error) -> (r: Option<Error>)
    ensures r == Some(e)
{
    let s = e.display_lit();
    get_error_by_english_name(s)
}

} // verus!
fn main() {}
