// U-date: date serial numbers <-> calendar dates.   (C21)
// chrono is an external crate: it sits behind shells whose ASSUMED contract (A-chrono) is that it implements the
// proleptic Gregorian day count `civil_days` written out below.  What is PROVED: the engine's offset arithmetic, ranges
// and the constant EXCEL_DATE_BASE are consistent with that calendar for EVERY serial / date (no enumeration).
use vstd::prelude::*;
verus! {
pub mod constants {
    #[allow(unused_imports)] use super::*;
//@type base/src/constants.rs EXCEL_DATE_BASE
//@type base/src/constants.rs MINIMUM_DATE_SERIAL_NUMBER
//@type base/src/constants.rs MAXIMUM_DATE_SERIAL_NUMBER
}
pub use constants::{EXCEL_DATE_BASE, MINIMUM_DATE_SERIAL_NUMBER, MAXIMUM_DATE_SERIAL_NUMBER};
//@type base/src/formatter/dates.rs DATE_OUT_OF_RANGE_MESSAGE

// ---- the calendar (days since 0001-01-01 = 1, as chrono's num_days_from_ce) ----
pub open spec fn is_leap(y: int) -> bool { y % 4 == 0 && (y % 100 != 0 || y % 400 == 0) }
pub open spec fn days_in_month(y: int, m: int) -> int {
    if m == 2 { if is_leap(y) { 29 } else { 28 } } else if m == 4 || m == 6 || m == 9 || m == 11 { 30 } else { 31 }
}
pub open spec fn valid_civil(y: int, m: int, d: int) -> bool { -262143 <= y <= 262142 && 1 <= m <= 12 && 1 <= d <= days_in_month(y, m) }
pub open spec fn civil_days(y: int, m: int, d: int) -> int {
    let yy = if m <= 2 { y - 1 } else { y };
    let era = (if yy >= 0 { yy } else { yy - 399 }) / 400;
    let yoe = yy - era * 400;
    let doy = (153 * (if m > 2 { m - 3 } else { m + 9 }) + 2) / 5 + d - 1;
    let doe = yoe * 365 + yoe / 4 - yoe / 100 + doy;
    era * 146097 + doe - 305
}
/// the comment in constants.rs ("NaiveDate::from_ymd(1900,1,1).num_days_from_ce() - 2"), checked against the calendar
pub proof fn lemma_excel_date_base()
    ensures civil_days(1900, 1, 1) - 2 == 693594, civil_days(1899, 12, 31) - 693594 == 1, civil_days(9999, 12, 31) - 693594 == 2958465
{
    assert(civil_days(1900, 1, 1) == 693596) by (compute);
    assert(civil_days(1899, 12, 31) == 693595) by (compute);
    assert(civil_days(9999, 12, 31) == 3652059) by (compute);
}

// ---- chrono shells (A-chrono) ----
#[verifier::external_body] #[derive(Clone, Copy)] pub struct NaiveDate { _o: u8 }
#[verifier::external_body] pub struct Duration { _o: u8 }
pub uninterp spec fn day_count(d: NaiveDate) -> int;
pub uninterp spec fn dur_days(d: Duration) -> int;
impl NaiveDate {
    #[verifier::external_body]
    pub fn from_ymd_opt(year: i32, month: u32, day: u32) -> (r: Option<NaiveDate>)
        ensures r.is_some() <==> valid_civil(year as int, month as int, day as int),
                r.is_some() ==> day_count(r.unwrap()) == civil_days(year as int, month as int, day as int)
    { unimplemented!() }
    #[verifier::external_body]
    pub fn num_days_from_ce(&self) -> (r: i32)
        ensures r == day_count(*self), -100000000 < r < 100000000
    { unimplemented!() }
}
impl Duration {
    #[verifier::external_body]
    pub fn days(n: i64) -> (r: Duration)
        requires -1000000000 < n < 1000000000
        ensures dur_days(r) == n
    { unimplemented!() }
}
impl vstd::std_specs::ops::AddSpecImpl<Duration> for NaiveDate {
    open spec fn obeys_add_spec() -> bool { false }
    // chrono's `+` PANICS when the result leaves its calendar (about +-262 000 years)
    open spec fn add_req(self, rhs: Duration) -> bool { -95000000 < day_count(self) + dur_days(rhs) < 95000000 }
    open spec fn add_spec(self, rhs: Duration) -> NaiveDate { arbitrary() }
}
impl core::ops::Add<Duration> for NaiveDate {
    type Output = NaiveDate;
    #[verifier::external_body]
    fn add(self, rhs: Duration) -> (r: NaiveDate)
        ensures day_count(r) == day_count(self) + dur_days(rhs)
    { unimplemented!() }
}

pub assume_specification [i64::unsigned_abs] (x: i64) -> (r: u64) ensures r == (if x >= 0 { x as int } else { -(x as int) });
pub assume_specification [i32::unsigned_abs] (x: i32) -> (r: u32) ensures r == (if x >= 0 { x as int } else { -(x as int) });
// month / day offsets: the checked operations answer None outside chrono's calendar; the `+` / `-` operators PANIC there, so their
// precondition is a fact nothing in the engine can establish for user-supplied offsets (uninterpreted `fits`)
#[verifier::external_body] pub struct Months { _o: u8 }
#[verifier::external_body] pub struct Days { _o: u8 }
pub uninterp spec fn months_of(m: Months) -> int;
pub uninterp spec fn days_of(d: Days) -> int;
pub uninterp spec fn fits(d: NaiveDate, months: int, days: int) -> bool;
impl Months { #[verifier::external_body] pub fn new(n: u32) -> (r: Months) ensures months_of(r) == n { unimplemented!() } }
impl Days { #[verifier::external_body] pub fn new(n: u64) -> (r: Days) ensures days_of(r) == n { unimplemented!() } }
impl NaiveDate {
    #[verifier::external_body]
    pub fn checked_add_months(self, rhs: Months) -> (r: Option<NaiveDate>) { unimplemented!() }
    #[verifier::external_body]
    pub fn checked_sub_months(self, rhs: Months) -> (r: Option<NaiveDate>) { unimplemented!() }
    #[verifier::external_body]
    pub fn checked_add_days(self, rhs: Days) -> (r: Option<NaiveDate>)
        ensures r matches Some(d) ==> day_count(d) == day_count(self) + days_of(rhs)
    { unimplemented!() }
    #[verifier::external_body]
    pub fn checked_sub_days(self, rhs: Days) -> (r: Option<NaiveDate>)
        ensures r matches Some(d) ==> day_count(d) == day_count(self) - days_of(rhs)
    { unimplemented!() }
}
impl vstd::std_specs::ops::AddSpecImpl<Months> for NaiveDate {
    open spec fn obeys_add_spec() -> bool { false }
    open spec fn add_req(self, rhs: Months) -> bool { fits(self, months_of(rhs), 0) }
    open spec fn add_spec(self, rhs: Months) -> NaiveDate { arbitrary() }
}
impl core::ops::Add<Months> for NaiveDate { type Output = NaiveDate; #[verifier::external_body] fn add(self, rhs: Months) -> (r: NaiveDate) { unimplemented!() } }
impl vstd::std_specs::ops::SubSpecImpl<Months> for NaiveDate {
    open spec fn obeys_sub_spec() -> bool { false }
    open spec fn sub_req(self, rhs: Months) -> bool { fits(self, -months_of(rhs), 0) }
    open spec fn sub_spec(self, rhs: Months) -> NaiveDate { arbitrary() }
}
impl core::ops::Sub<Months> for NaiveDate { type Output = NaiveDate; #[verifier::external_body] fn sub(self, rhs: Months) -> (r: NaiveDate) { unimplemented!() } }
impl vstd::std_specs::ops::AddSpecImpl<Days> for NaiveDate {
    open spec fn obeys_add_spec() -> bool { false }
    open spec fn add_req(self, rhs: Days) -> bool { fits(self, 0, days_of(rhs)) }
    open spec fn add_spec(self, rhs: Days) -> NaiveDate { arbitrary() }
}
impl core::ops::Add<Days> for NaiveDate { type Output = NaiveDate; #[verifier::external_body] fn add(self, rhs: Days) -> (r: NaiveDate) ensures day_count(r) == day_count(self) + days_of(rhs) { unimplemented!() } }
impl vstd::std_specs::ops::SubSpecImpl<Days> for NaiveDate {
    open spec fn obeys_sub_spec() -> bool { false }
    open spec fn sub_req(self, rhs: Days) -> bool { fits(self, 0, -days_of(rhs)) }
    open spec fn sub_spec(self, rhs: Days) -> NaiveDate { arbitrary() }
}
impl core::ops::Sub<Days> for NaiveDate { type Output = NaiveDate; #[verifier::external_body] fn sub(self, rhs: Days) -> (r: NaiveDate) ensures day_count(r) == day_count(self) - days_of(rhs) { unimplemented!() } }

//@fn base/src/formatter/dates.rs convert_to_serial_number
//@spec
    ensures r == day_count(date) - 693594
//@rewrite `-> i32 {` => `-> (r: i32) {`
//@end

//@fn base/src/formatter/dates.rs is_date_within_range
//@spec
    ensures r == (1 <= day_count(date) - 693594 <= 2958465)
//@rewrite `-> bool {` => `-> (r: bool) {`
//@end

//@fn base/src/formatter/dates.rs from_excel_date
//@spec
    ensures
        r.is_ok() <==> 1 <= days <= 2958465,
        // serial s is the calendar day with day count s + EXCEL_DATE_BASE: distinct serials are distinct days
        r.is_ok() ==> day_count(r.unwrap()) == days + 693594,
//@rewrite `-> Result<NaiveDate, String> {` => `-> (r: Result<NaiveDate, String>) {`
//@before `let dt = NaiveDate::from_ymd_opt(1900, 1, 1)`
    proof { lemma_excel_date_base(); }
//@end

//@fn base/src/formatter/dates.rs date_to_serial_number
//@spec
    ensures
        r.is_ok() <==> valid_civil(year as int, month as int, day as int),
        r.is_ok() ==> r.unwrap() == civil_days(year as int, month as int, day as int) - 693594,
//@rewrite `-> Result<i32, String> {` => `-> (r: Result<i32, String>) {`
//@end

/// DATE(year, month, day) with Excel's permissive wrap-around: no argument makes it panic (C11), and whatever it answers is a serial
/// of the supported range, the serial of the date it arrived at (C21)
//@fn base/src/formatter/dates.rs permissive_date_to_serial_number
//@spec
    ensures r matches Ok(s) ==> 1 <= s <= 2958465
//@rewrite `-> Result<i32, String> {` => `-> (r: Result<i32, String>) {`
//@end

/// C21 as a lemma over the contracts: for every serial s in range, the date from_excel_date(s) maps back to s, and any
/// civil date (y,m,d) that chrono reports for that day (A-chrono: civil_days(y,m,d) == day count) gives serial s again.
pub proof fn lemma_serial_roundtrip(s: int, dc: int, y: int, m: int, d: int)
    requires
        1 <= s <= 2958465,
        dc == s + 693594,                       // from_excel_date contract
        valid_civil(y, m, d) && civil_days(y, m, d) == dc,   // chrono's ymd of that day (A-chrono)
    ensures
        civil_days(y, m, d) - 693594 == s,      // date_to_serial_number contract gives s back
        dc - 693594 == s,                       // convert_to_serial_number gives s back
{}

// ---- WEEKDAY ----
#[verifier::external_body] #[derive(Clone, Copy)] pub struct Weekday { _o: u8 }
/// 0 = Monday .. 6 = Sunday
pub uninterp spec fn dow(w: Weekday) -> int;
impl NaiveDate {
    // A-chrono: day 1 of the common era (0001-01-01) is a Monday
    #[verifier::external_body]
    pub fn weekday(&self) -> (w: Weekday)
        ensures dow(w) == (day_count(*self) + 6) % 7, 0 <= dow(w) <= 6
    { unimplemented!() }
}
impl Weekday {
    #[verifier::external_body]
    pub fn num_days_from_sunday(&self) -> (r: u32) ensures r == (dow(*self) + 1) % 7 { unimplemented!() }
    #[verifier::external_body]
    pub fn number_from_monday(&self) -> (r: u32) ensures r == dow(*self) + 1 { unimplemented!() }
    #[verifier::external_body]
    pub fn num_days_from_monday(&self) -> (r: u32) ensures r == dow(*self) { unimplemented!() }
    #[verifier::external_body]
    pub fn number_from_sunday(&self) -> (r: u32) ensures r == (dow(*self) + 1) % 7 + 1 { unimplemented!() }
}
//@type base/src/expressions/token.rs Error
/// the spreadsheet definition of WEEKDAY(date, return_type) for a day whose Monday-based index is d (0 = Monday)
pub open spec fn weekday_spec(d: int, return_type: int) -> int {
    if return_type == 1 { (d + 1) % 7 + 1 }            // Sunday = 1 .. Saturday = 7
    else if return_type == 2 { d + 1 }                  // Monday = 1 .. Sunday = 7
    else if return_type == 3 { d }                      // Monday = 0 .. Sunday = 6
    else { (d + 7 - (return_type - 11)) % 7 + 1 }       // 11..17: week starts on Monday(11) .. Sunday(17), first day = 1
}
pub fn weekday_num(date: NaiveDate, return_type: i32) -> (r: Result<u32, Error>)
    ensures
        r.is_ok() <==> (1 <= return_type <= 3 || 11 <= return_type <= 17),
        r matches Ok(n) ==> n == weekday_spec((day_count(date) + 6) % 7, return_type as int),
        // ... hence every serial's weekday follows from the serial alone: Monday-based index (s + 5) % 7
        r matches Ok(n) ==> 0 <= n <= 7,
{
//@fragment base/src/functions/date_and_time.rs weekday_number `let weekday = date.weekday();` ..< `Ok(num as f64)`
//@end
    Ok(num)
}
pub proof fn lemma_weekday_of_serial(s: int)
    requires 1 <= s <= 2958465
    ensures (s + 693594 + 6) % 7 == (s + 5) % 7
{}

} // verus!
fn main() {}
