// Parenthesisation (C09, C16): every operator arm of the two formula printers — stringify (display / stored / xlsx forms) and to_string_moved (cut and
// paste) — puts a child in parentheses whenever the child's outermost operator binds looser than the grammar level at which the parser reads that
// operand, so the printed text parses back to the SAME tree.  The levels are those of the parser's descent (parser/mod.rs: parse_expr > parse_concat >
// parse_term > parse_factor > parse_prod > parse_power > parse_range > parse_implicit > parse_primary), ASSUMED as read from that chain.
// The printers build text with format!; inside this file `format!` is a local macro that maps each format string used by the arms to a shim recording
// the STRUCTURE of the text (which operand is wrapped), so the arms are verified verbatim.
use vstd::prelude::*;
macro_rules! format {
    ("({})", $e:expr $(,)?) => { paren($e) };
    ("{}:{}", $a:expr, $b:expr $(,)?) => { bin($a, $b) };
    ("{}&{}", $a:expr, $b:expr $(,)?) => { bin($a, $b) };
    ("{}^{}", $a:expr, $b:expr $(,)?) => { bin($a, $b) };
    ("{}{}{}", $a:expr, $k:expr, $b:expr $(,)?) => { bin($a, $b) };
    ("-({})", $e:expr $(,)?) => { pre(paren($e)) };
    ("-{}", $e:expr $(,)?) => { pre($e) };
    ("@{}", $e:expr $(,)?) => { pre($e) };
    ("{}%", $e:expr $(,)?) => { post($e) };
    ("{}#", $e:expr $(,)?) => { post($e) };
    ("_xlfn.ANCHORARRAY({})", $e:expr $(,)?) => { call($e) };
    ("_xlfn.SINGLE({})", $e:expr $(,)?) => { call($e) };
}
verus! {
//@include parens_hdr.rs
// ------------------------------------------------------------------------------------------------ stringify
pub fn s_compare(kind: &OpCompare, left: &Box<Node>, right: &Box<Node>, context: Option<&CellReferenceRC>, displace_data: &DisplaceData, export_to_excel: bool, locale: &Locale, language: &Language) -> (r: Txt)
    ensures bin_ok(r.t@, **left, 1, **right, 2)
{
//@arm base/src/expressions/parser/stringify.rs stringify `CompareKind { kind, left, right } =>`
//@end
}
pub fn s_concat(left: &Box<Node>, right: &Box<Node>, context: Option<&CellReferenceRC>, displace_data: &DisplaceData, export_to_excel: bool, locale: &Locale, language: &Language) -> (r: Txt)
    ensures bin_ok(r.t@, **left, 2, **right, 3)
{
//@arm base/src/expressions/parser/stringify.rs stringify `OpConcatenateKind { left, right } =>`
//@end
}
pub fn s_sum(kind: &OpSum, left: &Box<Node>, right: &Box<Node>, context: Option<&CellReferenceRC>, displace_data: &DisplaceData, export_to_excel: bool, locale: &Locale, language: &Language) -> (r: Txt)
    ensures bin_ok(r.t@, **left, 3, **right, if *kind is Minus { 4int } else { 3int }),
        // the statement asks for the SAME structure, so also a+(b+c) must keep its parentheses (KNOWN FINDING: the suite's test
        // correct_parenthesis requires `1+3+5`; =1E16+(-1E16+1) is 0 when typed and 1 after it has been printed and read back)
        *kind is Add ==> bin_ok(r.t@, **left, 3, **right, 4),
//@arm base/src/expressions/parser/stringify.rs stringify `OpSumKind { kind, left, right } =>`
//@end
pub fn s_product(kind: &OpProduct, left: &Box<Node>, right: &Box<Node>, context: Option<&CellReferenceRC>, displace_data: &DisplaceData, export_to_excel: bool, locale: &Locale, language: &Language) -> (r: Txt)
    ensures bin_ok(r.t@, **left, 4, **right, 5)
{
//@arm base/src/expressions/parser/stringify.rs stringify `OpProductKind { kind, left, right } =>`
//@end
}
pub fn s_power(left: &Box<Node>, right: &Box<Node>, context: Option<&CellReferenceRC>, displace_data: &DisplaceData, export_to_excel: bool, locale: &Locale, language: &Language) -> (r: Txt)
    ensures bin_ok(r.t@, **left, 5, **right, 6)
//@arm base/src/expressions/parser/stringify.rs stringify `OpPowerKind { left, right } =>`
//@rewrite `format!("{x}^{y}")` => `bin(x, y)`
//@end
pub fn s_range(left: &Box<Node>, right: &Box<Node>, context: Option<&CellReferenceRC>, displace_data: &DisplaceData, export_to_excel: bool, locale: &Locale, language: &Language) -> (r: Txt)
    ensures bin_ok(r.t@, **left, 8, **right, 9)
{
//@arm base/src/expressions/parser/stringify.rs stringify `OpRangeKind { left, right } =>`
//@end
}
pub fn s_unary(kind: &OpUnary, right: &Box<Node>, context: Option<&CellReferenceRC>, displace_data: &DisplaceData, export_to_excel: bool, locale: &Locale, language: &Language) -> (r: Txt)
    ensures *kind is Minus ==> pre_ok(r.t@, **right, 7),          // after the signs the parser reads a range-level operand
        *kind is Percentage ==> post_ok(r.t@, **right, 6),        // '%' applies to the (signed) operand read before it
{
//@arm base/src/expressions/parser/stringify.rs stringify `UnaryKind { kind, right } =>`
//@end
}
pub fn s_spill(child: &Box<Node>, context: Option<&CellReferenceRC>, displace_data: &DisplaceData, export_to_excel: bool, locale: &Locale, language: &Language) -> (r: Txt)
    ensures !export_to_excel ==> post_ok(r.t@, **child, 9)
//@arm base/src/expressions/parser/stringify.rs stringify `SpillRangeOperator { child } =>`
//@end
pub fn s_implicit(child: &Box<Node>, context: Option<&CellReferenceRC>, displace_data: &DisplaceData, export_to_excel: bool, locale: &Locale, language: &Language) -> (r: Txt)
    ensures !export_to_excel ==> pre_ok(r.t@, **child, 9)
//@arm base/src/expressions/parser/stringify.rs stringify `automatic: _,`
//@end
} // verus!
fn main() {}
