// parse_reference_r1c1 / parse_reference_a1: no out-of-range index, overflow or unwrap failure for ANY input string. (C11, C22)
use vstd::prelude::*;
verus! {
pub mod constants {
    #[allow(unused_imports)] use super::*;
//@type base/src/constants.rs LAST_COLUMN
//@type base/src/constants.rs LAST_ROW
}
pub use constants::{LAST_COLUMN, LAST_ROW};
//@type base/src/expressions/types.rs ParsedReference
// str::parse::<i32>() cannot be given a Verus spec (FromStr is not declared to Verus): the two `x.parse::<i32>().unwrap_or(0)` calls are read as this total shim
#[verifier::external_body]
pub fn shim_parse_i32_or(s: &String, default: i32) -> i32 { s.parse::<i32>().unwrap_or(default) }
pub assume_specification [<u8>::is_ascii_digit] (c: &u8) -> (r: bool);

//@fn base/src/expressions/utils/mod.rs parse_reference_r1c1
//@rewrite `row.parse::<i32>().unwrap_or(0)` => `shim_parse_i32_or(&row, 0)`
//@rewrite `column.parse::<i32>().unwrap_or(0)` => `shim_parse_i32_or(&column, 0)`
//@loop 1
        invariant i <= len, len == chars@.len()
        decreases len - i
//@loop 2
        invariant i <= len, len == chars@.len()
        decreases len - i
//@end

#[verifier::external_body]
pub fn shim_parse_i32(s: &String) -> core::result::Result<i32, u8> { s.parse::<i32>().map_err(|_| 0u8) }
#[verifier::external_body] pub fn is_valid_column(column: &str) -> bool { unimplemented!() }
#[verifier::external_body] pub fn is_valid_row_str(row: &str) -> bool { unimplemented!() }
#[verifier::external_body] pub fn column_to_number(column: &str) -> Result<i32, String> { unimplemented!() }

//@fn base/src/expressions/utils/mod.rs parse_reference_a1
//@rewrite `row.parse::<i32>()` => `shim_parse_i32(&row)`
//@end

} // verus!
fn main() {}
