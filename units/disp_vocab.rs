// ---- disp_vocab.rs: displacement vocabulary, written from the statements of C12/C13/C15 ----
//@type base/src/expressions/parser/stringify.rs DisplaceData

/// insert (k>0) / delete (k<0) |k| rows or columns at position p.  None = the coordinate was deleted.
pub open spec fn shift(x: int, p: int, k: int) -> Option<int> {
    if k >= 0 { if x >= p { Some(x + k) } else { Some(x) } }
    else if x < p { Some(x) } else if x < p - k { None } else { Some(x + k) }
}
/// move the single row/column m by d: m lands on m+d, the band in between moves one step the other way
pub open spec fn move1(x: int, m: int, d: int) -> int {
    if x == m { m + d } else if d > 0 && m < x <= m + d { x - 1 } else if d < 0 && m + d <= x < m { x + 1 } else { x }
}
/// where an absolute coordinate (row, column) of a reference into sheet `sheet_index` goes. None = deleted (#REF!)
pub open spec fn disp(d: DisplaceData, sheet_index: u32, full_row: bool, full_column: bool, row: int, column: int) -> Option<(int, int)> {
    match d {
        DisplaceData::Row { sheet, row: p, delta } =>
            if sheet_index == sheet && !full_row { match shift(row, p as int, delta as int) { Some(r) => Some((r, column)), None => None } } else { Some((row, column)) },
        DisplaceData::Column { sheet, column: p, delta } =>
            if sheet_index == sheet && !full_column { match shift(column, p as int, delta as int) { Some(c) => Some((row, c)), None => None } } else { Some((row, column)) },
        DisplaceData::CellHorizontal { sheet, row: pr, column: pc, delta } =>
            if sheet_index == sheet && pr == row { match shift(column, pc as int, delta as int) { Some(c) => Some((row, c)), None => None } } else { Some((row, column)) },
        DisplaceData::CellVertical { sheet, row: pr, column: pc, delta } =>
            if sheet_index == sheet && pc == column { match shift(row, pr as int, delta as int) { Some(r) => Some((r, column)), None => None } } else { Some((row, column)) },
        DisplaceData::RowMove { sheet, row: m, delta } =>
            if sheet_index == sheet { Some((move1(row, m as int, delta as int), column)) } else { Some((row, column)) },
        DisplaceData::ColumnMove { sheet, column: m, delta } =>
            if sheet_index == sheet { Some((row, move1(column, m as int, delta as int))) } else { Some((row, column)) },
        DisplaceData::None => Some((row, column)),
    }
}
pub open spec fn small(x: int) -> bool { -4194304 <= x <= 4194304 }
pub open spec fn disp_small(d: DisplaceData) -> bool {
    match d {
        DisplaceData::Row { sheet, row, delta } => small(row as int) && small(delta as int),
        DisplaceData::Column { sheet, column, delta } => small(column as int) && small(delta as int),
        DisplaceData::CellHorizontal { sheet, row, column, delta } => small(row as int) && small(column as int) && small(delta as int),
        DisplaceData::CellVertical { sheet, row, column, delta } => small(row as int) && small(column as int) && small(delta as int),
        DisplaceData::RowMove { sheet, row, delta } => small(row as int) && small(delta as int),
        DisplaceData::ColumnMove { sheet, column, delta } => small(column as int) && small(delta as int),
        DisplaceData::None => true,
    }
}
/// C14 at coordinate level: deleting the k rows/columns just inserted at p restores every coordinate
pub proof fn lemma_insert_then_delete(x: int, p: int, k: int)
    requires k > 0
    ensures shift(x, p, k) is Some, shift(shift(x, p, k).unwrap(), p, -k) == Some(x)
{}
/// C15: a single move is a permutation of the axis (it has an inverse: move the row back)
pub proof fn lemma_move1_inverse(x: int, m: int, d: int)
    ensures move1(move1(x, m, d), m + d, -d) == x
{}
/// C12: a range whose interior receives the new rows grows to include them
pub proof fn lemma_range_grows(r1: int, r2: int, p: int, k: int)
    requires k > 0, r1 < p <= r2
    ensures shift(r1, p, k) == Some(r1), shift(r2, p, k) == Some(r2 + k)
{}

/// row / column components used by conditional-format corners and link keys
pub open spec fn disp_row(d: DisplaceData, sheet_index: u32, row: int) -> Option<int> {
    match d {
        DisplaceData::Row { sheet, row: p, delta } => if sheet_index == sheet { shift(row, p as int, delta as int) } else { Some(row) },
        DisplaceData::RowMove { sheet, row: m, delta } => if sheet_index == sheet { Some(move1(row, m as int, delta as int)) } else { Some(row) },
        _ => Some(row),
    }
}
pub open spec fn disp_col(d: DisplaceData, sheet_index: u32, column: int) -> Option<int> {
    match d {
        DisplaceData::Column { sheet, column: p, delta } => if sheet_index == sheet { shift(column, p as int, delta as int) } else { Some(column) },
        DisplaceData::ColumnMove { sheet, column: m, delta } => if sheet_index == sheet { Some(move1(column, m as int, delta as int)) } else { Some(column) },
        _ => Some(column),
    }
}
pub open spec fn structural(d: DisplaceData) -> bool {
    d is Row || d is Column || d is RowMove || d is ColumnMove || d is None
}
/// C33: for row/column insert/delete/move, a CF corner or link key (row, col) goes exactly where a formula reference
/// to that cell goes, including deleted <=> None <=> #REF!
pub proof fn lemma_metadata_agrees_with_formulas(d: DisplaceData, sheet_index: u32, row: int, column: int)
    requires structural(d)
    ensures
        disp(d, sheet_index, false, false, row, column) == (match (disp_row(d, sheet_index, row), disp_col(d, sheet_index, column)) {
            (Some(r2), Some(c2)) => Some((r2, c2)),
            _ => None::<(int, int)>,
        })
{}
