// Parenthesisation, cut-and-paste printer (C16, C09; see unit parens for the display printer): every operator arm of to_string_moved puts a child in parentheses whenever the child's outermost operator binds looser than the grammar level at which the parser reads that
// operand, so the printed text parses back to the SAME tree.  The levels are those of the parser's descent (parser/mod.rs: parse_expr > parse_concat >
// parse_term > parse_factor > parse_prod > parse_power > parse_range > parse_implicit > parse_primary), ASSUMED as read from that chain.
// The printers build text with format!; inside this file `format!` is a local macro that maps each format string used by the arms to a shim recording
// the STRUCTURE of the text (which operand is wrapped), so the arms are verified verbatim.
use vstd::prelude::*;
macro_rules! format {
    ("({})", $e:expr $(,)?) => { paren($e) };
    ("{}:{}", $a:expr, $b:expr $(,)?) => { bin($a, $b) };
    ("{}&{}", $a:expr, $b:expr $(,)?) => { bin($a, $b) };
    ("{}^{}", $a:expr, $b:expr $(,)?) => { bin($a, $b) };
    ("{}{}{}", $a:expr, $k:expr, $b:expr $(,)?) => { bin($a, $b) };
    ("-({})", $e:expr $(,)?) => { pre(paren($e)) };
    ("-{}", $e:expr $(,)?) => { pre($e) };
    ("@{}", $e:expr $(,)?) => { pre($e) };
    ("{}%", $e:expr $(,)?) => { post($e) };
    ("{}#", $e:expr $(,)?) => { post($e) };
    ("_xlfn.ANCHORARRAY({})", $e:expr $(,)?) => { call($e) };
    ("_xlfn.SINGLE({})", $e:expr $(,)?) => { call($e) };
}
verus! {
//@include parens_hdr.rs
// ------------------------------------------------------------------------------------------------ to_string_moved (cut and paste)
pub fn m_compare(kind: &OpCompare, left: &Box<Node>, right: &Box<Node>, move_context: &MoveContext, locale: &Locale, language: &Language) -> (r: Txt)
    ensures bin_ok(r.t@, **left, 1, **right, 2)
{
//@arm base/src/expressions/parser/move_formula.rs to_string_moved `CompareKind { kind, left, right } =>`
//@end
}
pub fn m_concat(left: &Box<Node>, right: &Box<Node>, move_context: &MoveContext, locale: &Locale, language: &Language) -> (r: Txt)
    ensures bin_ok(r.t@, **left, 2, **right, 3)
{
//@arm base/src/expressions/parser/move_formula.rs to_string_moved `OpConcatenateKind { left, right } =>`
//@end
}
pub fn m_sum(kind: &OpSum, left: &Box<Node>, right: &Box<Node>, move_context: &MoveContext, locale: &Locale, language: &Language) -> (r: Txt)
    ensures bin_ok(r.t@, **left, 3, **right, if *kind is Minus { 4int } else { 3int }),
        *kind is Add ==> bin_ok(r.t@, **left, 3, **right, 4),          // KNOWN FINDING, as in s_sum
//@arm base/src/expressions/parser/move_formula.rs to_string_moved `OpSumKind { kind, left, right } =>`
//@end
pub fn m_product(kind: &OpProduct, left: &Box<Node>, right: &Box<Node>, move_context: &MoveContext, locale: &Locale, language: &Language) -> (r: Txt)
    ensures bin_ok(r.t@, **left, 4, **right, 5)
//@arm base/src/expressions/parser/move_formula.rs to_string_moved `OpProductKind { kind, left, right } =>`
//@end
pub fn m_power(left: &Box<Node>, right: &Box<Node>, move_context: &MoveContext, locale: &Locale, language: &Language) -> (r: Txt)
    ensures bin_ok(r.t@, **left, 5, **right, 6)
{
//@arm base/src/expressions/parser/move_formula.rs to_string_moved `OpPowerKind { left, right } =>`
//@end
}
pub fn m_range(left: &Box<Node>, right: &Box<Node>, move_context: &MoveContext, locale: &Locale, language: &Language) -> (r: Txt)
    ensures bin_ok(r.t@, **left, 8, **right, 9)
{
//@arm base/src/expressions/parser/move_formula.rs to_string_moved `OpRangeKind { left, right } =>`
//@end
}
pub fn m_unary(kind: &OpUnary, right: &Box<Node>, move_context: &MoveContext, locale: &Locale, language: &Language) -> (r: Txt)
    ensures *kind is Minus ==> pre_ok(r.t@, **right, 7),
        *kind is Percentage ==> post_ok(r.t@, **right, 6),
{
//@arm base/src/expressions/parser/move_formula.rs to_string_moved `UnaryKind { kind, right } =>`
//@end
}
pub fn m_spill(child: &Box<Node>, move_context: &MoveContext, locale: &Locale, language: &Language) -> (r: Txt)
    ensures post_ok(r.t@, **child, 9)
//@arm base/src/expressions/parser/move_formula.rs to_string_moved `SpillRangeOperator { child } =>`
//@end
pub fn m_implicit(child: &Box<Node>, move_context: &MoveContext, locale: &Locale, language: &Language) -> (r: Txt)
    ensures pre_ok(r.t@, **child, 9)
//@arm base/src/expressions/parser/move_formula.rs to_string_moved `automatic: _,`
//@end
} // verus!
fn main() {}
