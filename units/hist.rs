// U-hist: History::{push, undo, redo} against the abstract view (ops, cursor).   (C01, C02, C03)
use vstd::prelude::*;
verus! {

// `Diff` is opaque here: History never looks inside a diff.  Its derived Clone is assumed to
// produce an equal value (assumption A-clone).
#[verifier::external_body]
pub struct Diff { _opaque: u8 }

impl Clone for Diff {
    #[verifier::external_body]
    fn clone(&self) -> (r: Self)
        ensures r == *self
    { unimplemented!() }
}

//@type base/src/user_model/history.rs DiffList
//@type base/src/user_model/history.rs History

pub open spec fn rev<T>(s: Seq<T>) -> Seq<T> { s.reverse() }

impl History {
    /// all operations, oldest first: undone ones (redo stack, top = next to redo) follow the cursor
    pub open spec fn ops(&self) -> Seq<Vec<Diff>> {
        self.undo_stack@ + self.redo_stack@.reverse()
    }
    pub open spec fn cursor(&self) -> int { self.undo_stack@.len() as int }

//@fn base/src/user_model/history.rs History::push
//@spec
    ensures
        final(self).cursor() == old(self).cursor() + 1,
        final(self).ops() =~= old(self).ops().subrange(0, old(self).cursor()).push(diff_list),
        final(self).undo_stack@ =~= old(self).undo_stack@.push(diff_list),
        final(self).redo_stack@.len() == 0,
//@end

//@fn base/src/user_model/history.rs History::undo
//@spec
    ensures
        old(self).cursor() == 0 ==> r.is_none() && final(self).undo_stack@ =~= old(self).undo_stack@ && final(self).redo_stack@ =~= old(self).redo_stack@,
        old(self).cursor() > 0 ==> r.is_some()
            && r.unwrap()@ =~= old(self).ops()[old(self).cursor() - 1]@
            && final(self).cursor() == old(self).cursor() - 1
            && final(self).ops().len() == old(self).ops().len()
            && (forall|i: int| 0 <= i < old(self).ops().len() ==> #[trigger] final(self).ops()[i]@ =~= old(self).ops()[i]@),
//@rewrite `-> Option<Vec<Diff>>` => `-> (r: Option<Vec<Diff>>)`
//@end

//@fn base/src/user_model/history.rs History::redo
//@spec
    ensures
        old(self).cursor() == old(self).ops().len() ==> r.is_none() && final(self).undo_stack@ =~= old(self).undo_stack@ && final(self).redo_stack@ =~= old(self).redo_stack@,
        old(self).cursor() < old(self).ops().len() ==> r.is_some()
            && r.unwrap()@ =~= old(self).ops()[old(self).cursor()]@
            && final(self).cursor() == old(self).cursor() + 1
            && final(self).ops().len() == old(self).ops().len()
            && (forall|i: int| 0 <= i < old(self).ops().len() ==> #[trigger] final(self).ops()[i]@ =~= old(self).ops()[i]@),
//@rewrite `-> Option<Vec<Diff>>` => `-> (r: Option<Vec<Diff>>)`
//@end
}

} // verus!
fn main() {}
