// U-arms: each redo arm of apply_diff_list and each undo arm of apply_undo_diff_list performs exactly the engine calls
// that redo / undo of the recorded diff means (right method, right argument order, old vs new value).   (C01, C02, C03)
use vstd::prelude::*;
verus! {
// ---- context shells (D5) ----
#[verifier::external_body] pub struct Color { _o: u8 }
//@type base/src/types.rs SheetState
impl Clone for SheetState { #[verifier::external_body] fn clone(&self) -> (r: Self) ensures r == *self { unimplemented!() } }
#[verifier::external_body] pub struct Diff { _o: u8 }
impl Clone for Diff { #[verifier::external_body] fn clone(&self) -> (r: Self) ensures r == *self { unimplemented!() } }
//@type base/src/user_model/history.rs DiffList
//@type base/src/user_model/history.rs History
//@type base/src/user_model/history.rs DiffType
//@type base/src/user_model/history.rs QueueDiffs
#[verifier::external_body] pub struct Model<'a> { _p: core::marker::PhantomData<&'a u8> }
//@type base/src/user_model/common.rs UserModel
// the two fields of the deleted worksheet that the DeleteSheet undo arm reads first (D5)
pub struct WorksheetShell { pub name: String, pub sheet_id: u32 }
/// position of the sheet that was at index x after the sheet at `from` is removed and re-inserted at `to`
pub open spec fn moved_index(x: int, from: int, to: int) -> int {
    if x == from { to } else {
        let a = if x > from { x - 1 } else { x };
        if a >= to { a + 1 } else { a }
    }
}
//@fn base/src/user_model/common.rs selected_sheet_after_move
//@spec
    requires selected < 4294967295
    ensures r == moved_index(selected as int, from as int, to as int)
//@rewrite `-> u32 {` => `-> (r: u32) {`
//@end

//@include diff_meaning.rs
impl<'a> Model<'a> {
    /// the sequence of mutating engine calls performed so far (ghost; the engine state is a function of it: A-functional)
    pub uninterp spec fn log(&self) -> Seq<Call>;
//@stub base/src/model.rs Model::set_user_array_formula
    ensures r.is_ok() ==> final(self).log() == old(self).log().push(Call::SetUserArrayFormula(sheet, row, column, width, height, value@)),
            r.is_err() ==> final(self).log() == old(self).log(),
//@end
//@stub base/src/model.rs Model::set_column_width
    ensures r.is_ok() ==> final(self).log() == old(self).log().push(Call::SetColumnWidth(sheet, column, width)),
            r.is_err() ==> final(self).log() == old(self).log(),
//@end
//@stub base/src/model.rs Model::set_column_hidden
    ensures r.is_ok() ==> final(self).log() == old(self).log().push(Call::SetColumnHidden(sheet, column, hidden)),
            r.is_err() ==> final(self).log() == old(self).log(),
//@end
//@stub base/src/model.rs Model::set_row_height
    ensures r.is_ok() ==> final(self).log() == old(self).log().push(Call::SetRowHeight(sheet, column, height)),
            r.is_err() ==> final(self).log() == old(self).log(),
//@end
//@stub base/src/model.rs Model::set_row_hidden
    ensures r.is_ok() ==> final(self).log() == old(self).log().push(Call::SetRowHidden(sheet, row, hidden)),
            r.is_err() ==> final(self).log() == old(self).log(),
//@end
//@stub base/src/actions.rs Model::insert_rows
    ensures r.is_ok() ==> final(self).log() == old(self).log().push(Call::InsertRows(sheet, row, row_count)),
            r.is_err() ==> final(self).log() == old(self).log(),
//@end
//@stub base/src/actions.rs Model::delete_rows
    ensures r.is_ok() ==> final(self).log() == old(self).log().push(Call::DeleteRows(sheet, row, row_count)),
            r.is_err() ==> final(self).log() == old(self).log(),
//@end
//@stub base/src/actions.rs Model::insert_columns
    ensures r.is_ok() ==> final(self).log() == old(self).log().push(Call::InsertColumns(sheet, column, column_count)),
            r.is_err() ==> final(self).log() == old(self).log(),
//@end
//@stub base/src/actions.rs Model::delete_columns
    ensures r.is_ok() ==> final(self).log() == old(self).log().push(Call::DeleteColumns(sheet, column, column_count)),
            r.is_err() ==> final(self).log() == old(self).log(),
//@end
//@stub base/src/model.rs Model::set_frozen_rows
    ensures r.is_ok() ==> final(self).log() == old(self).log().push(Call::SetFrozenRows(sheet, frozen_rows)),
            r.is_err() ==> final(self).log() == old(self).log(),
//@end
//@stub base/src/model.rs Model::set_frozen_columns
    ensures r.is_ok() ==> final(self).log() == old(self).log().push(Call::SetFrozenColumns(sheet, frozen_columns)),
            r.is_err() ==> final(self).log() == old(self).log(),
//@end
//@stub base/src/new_empty.rs Model::rename_sheet_by_index
    ensures r.is_ok() ==> final(self).log() == old(self).log().push(Call::RenameSheet(sheet_index, new_name@)),
            r.is_err() ==> final(self).log() == old(self).log(),
//@end
//@stub base/src/model.rs Model::set_sheet_color
    ensures r.is_ok() ==> final(self).log() == old(self).log().push(Call::SetSheetColor(sheet, *color)),
            r.is_err() ==> final(self).log() == old(self).log(),
//@end
//@stub base/src/model.rs Model::set_show_grid_lines
    ensures r.is_ok() ==> final(self).log() == old(self).log().push(Call::SetShowGridLines(sheet, show_grid_lines)),
            r.is_err() ==> final(self).log() == old(self).log(),
//@end
//@stub base/src/model.rs Model::set_sheet_state
    ensures r.is_ok() ==> final(self).log() == old(self).log().push(Call::SetSheetState(sheet, state)),
            r.is_err() ==> final(self).log() == old(self).log(),
//@end
//@stub base/src/actions.rs Model::move_columns_action
    ensures r.is_ok() ==> final(self).log() == old(self).log().push(Call::MoveColumnsAction(sheet, column, column_count, delta)),
            r.is_err() ==> final(self).log() == old(self).log(),
//@end
//@stub base/src/actions.rs Model::move_rows_action
    ensures r.is_ok() ==> final(self).log() == old(self).log().push(Call::MoveRowsAction(sheet, row, row_count, delta)),
            r.is_err() ==> final(self).log() == old(self).log(),
//@end
//@stub base/src/model.rs Model::set_locale
    ensures r.is_ok() ==> final(self).log() == old(self).log().push(Call::SetLocale(locale_id@)),
            r.is_err() ==> final(self).log() == old(self).log(),
//@end
//@stub base/src/model.rs Model::set_timezone
    ensures r.is_ok() ==> final(self).log() == old(self).log().push(Call::SetTimezone(timezone@)),
            r.is_err() ==> final(self).log() == old(self).log(),
//@end
//@stub base/src/model.rs Model::delete_column_style
    ensures r.is_ok() ==> final(self).log() == old(self).log().push(Call::DeleteColumnStyle(sheet, column)),
            r.is_err() ==> final(self).log() == old(self).log(),
//@end
//@stub base/src/model.rs Model::delete_row_style
    ensures r.is_ok() ==> final(self).log() == old(self).log().push(Call::DeleteRowStyle(sheet, row)),
            r.is_err() ==> final(self).log() == old(self).log(),
//@end
//@stub base/src/model.rs Model::new_defined_name
    ensures r.is_ok() ==> final(self).log() == old(self).log().push(Call::NewDefinedName(name@, scope, formula@)),
            r.is_err() ==> final(self).log() == old(self).log(),
//@end
//@stub base/src/model.rs Model::delete_defined_name
    ensures r.is_ok() ==> final(self).log() == old(self).log().push(Call::DeleteDefinedName(name@, scope)),
            r.is_err() ==> final(self).log() == old(self).log(),
//@end
//@stub base/src/model.rs Model::update_defined_name
    ensures r.is_ok() ==> final(self).log() == old(self).log().push(Call::UpdateDefinedName(name@, scope, new_name@, new_scope, new_formula@)),
            r.is_err() ==> final(self).log() == old(self).log(),
//@end
//@stub base/src/new_empty.rs Model::move_sheet
    ensures r.is_ok() ==> final(self).log() == old(self).log().push(Call::MoveSheet(sheet_index, new_index)),
            r.is_err() ==> final(self).log() == old(self).log(),
//@end
//@stub base/src/new_empty.rs Model::delete_sheet
    ensures r.is_ok() ==> final(self).log() == old(self).log().push(Call::DeleteSheet(sheet_index)),
            r.is_err() ==> final(self).log() == old(self).log(),
//@end
//@stub base/src/new_empty.rs Model::insert_sheet
    ensures r.is_ok() ==> final(self).log() == old(self).log().push(Call::InsertSheet(sheet_name@, sheet_index, sheet_id)),
            r.is_err() ==> final(self).log() == old(self).log(),
//@end
}


impl<'a> UserModel<'a> {
pub fn redo_arm_SetArrayValue(&mut self, sheet: &u32, row: &i32, column: &i32, width: &i32, height: &i32, new_value: &String) -> (r: Result<bool, String>)
    ensures r.is_ok() ==> final(self).model.log() == old(self).model.log() + redo_SetArrayValue(sheet, row, column, width, height, new_value),
            final(self).history == old(self).history, final(self).send_queue == old(self).send_queue,
            r matches Ok(needs_evaluation) ==> needs_evaluation,   // contents or structure changed: the workbook is re-evaluated afterwards
{
    #[allow(unused_assignments, unused_variables, unused_mut)] let mut needs_evaluation = false;
//@arm base/src/user_model/undo_redo.rs UserModel::apply_diff_list `Diff::SetArrayValue {`
//@end
    ;
    Ok(needs_evaluation)
}
pub fn redo_arm_SetColumnWidth(&mut self, sheet: &u32, column: &i32, new_value: &f64, old_value: &f64) -> (r: Result<bool, String>)
    ensures r.is_ok() ==> final(self).model.log() == old(self).model.log() + redo_SetColumnWidth(sheet, column, new_value, old_value),
            final(self).history == old(self).history, final(self).send_queue == old(self).send_queue,
{
    #[allow(unused_assignments, unused_variables, unused_mut)] let mut needs_evaluation = false;
//@arm base/src/user_model/undo_redo.rs UserModel::apply_diff_list `Diff::SetColumnWidth {`
//@end
    ;
    Ok(needs_evaluation)
}
pub fn undo_arm_SetColumnWidth(&mut self, sheet: &u32, column: &i32, new_value: &f64, old_value: &f64) -> (r: Result<bool, String>)
    ensures r.is_ok() ==> final(self).model.log() == old(self).model.log() + undo_SetColumnWidth(sheet, column, new_value, old_value),
            final(self).history == old(self).history, final(self).send_queue == old(self).send_queue,
{
    #[allow(unused_assignments, unused_variables, unused_mut)] let mut needs_evaluation = false;
//@arm base/src/user_model/undo_redo.rs UserModel::apply_undo_diff_list `Diff::SetColumnWidth {`
//@end
    ;
    Ok(needs_evaluation)
}
pub fn redo_arm_SetColumnHidden(&mut self, sheet: &u32, column: &i32, new_value: &bool, old_value: &bool) -> (r: Result<bool, String>)
    ensures r.is_ok() ==> final(self).model.log() == old(self).model.log() + redo_SetColumnHidden(sheet, column, new_value, old_value),
            final(self).history == old(self).history, final(self).send_queue == old(self).send_queue,
{
    #[allow(unused_assignments, unused_variables, unused_mut)] let mut needs_evaluation = false;
//@arm base/src/user_model/undo_redo.rs UserModel::apply_diff_list `Diff::SetColumnHidden {`
//@end
    ;
    Ok(needs_evaluation)
}
pub fn undo_arm_SetColumnHidden(&mut self, sheet: &u32, column: &i32, new_value: &bool, old_value: &bool) -> (r: Result<bool, String>)
    ensures r.is_ok() ==> final(self).model.log() == old(self).model.log() + undo_SetColumnHidden(sheet, column, new_value, old_value),
            final(self).history == old(self).history, final(self).send_queue == old(self).send_queue,
{
    #[allow(unused_assignments, unused_variables, unused_mut)] let mut needs_evaluation = false;
//@arm base/src/user_model/undo_redo.rs UserModel::apply_undo_diff_list `Diff::SetColumnHidden {`
//@end
    ;
    Ok(needs_evaluation)
}
pub fn redo_arm_SetRowHeight(&mut self, sheet: &u32, row: &i32, new_value: &f64, old_value: &f64) -> (r: Result<bool, String>)
    ensures r.is_ok() ==> final(self).model.log() == old(self).model.log() + redo_SetRowHeight(sheet, row, new_value, old_value),
            final(self).history == old(self).history, final(self).send_queue == old(self).send_queue,
{
    #[allow(unused_assignments, unused_variables, unused_mut)] let mut needs_evaluation = false;
//@arm base/src/user_model/undo_redo.rs UserModel::apply_diff_list `Diff::SetRowHeight {`
//@end
    ;
    Ok(needs_evaluation)
}
pub fn undo_arm_SetRowHeight(&mut self, sheet: &u32, row: &i32, new_value: &f64, old_value: &f64) -> (r: Result<bool, String>)
    ensures r.is_ok() ==> final(self).model.log() == old(self).model.log() + undo_SetRowHeight(sheet, row, new_value, old_value),
            final(self).history == old(self).history, final(self).send_queue == old(self).send_queue,
{
    #[allow(unused_assignments, unused_variables, unused_mut)] let mut needs_evaluation = false;
//@arm base/src/user_model/undo_redo.rs UserModel::apply_undo_diff_list `Diff::SetRowHeight {`
//@end
    ;
    Ok(needs_evaluation)
}
pub fn redo_arm_SetRowHidden(&mut self, sheet: &u32, row: &i32, new_value: &bool, old_value: &bool) -> (r: Result<bool, String>)
    ensures r.is_ok() ==> final(self).model.log() == old(self).model.log() + redo_SetRowHidden(sheet, row, new_value, old_value),
            final(self).history == old(self).history, final(self).send_queue == old(self).send_queue,
{
    #[allow(unused_assignments, unused_variables, unused_mut)] let mut needs_evaluation = false;
//@arm base/src/user_model/undo_redo.rs UserModel::apply_diff_list `Diff::SetRowHidden {`
//@end
    ;
    Ok(needs_evaluation)
}
pub fn undo_arm_SetRowHidden(&mut self, sheet: &u32, row: &i32, new_value: &bool, old_value: &bool) -> (r: Result<bool, String>)
    ensures r.is_ok() ==> final(self).model.log() == old(self).model.log() + undo_SetRowHidden(sheet, row, new_value, old_value),
            final(self).history == old(self).history, final(self).send_queue == old(self).send_queue,
{
    #[allow(unused_assignments, unused_variables, unused_mut)] let mut needs_evaluation = false;
//@arm base/src/user_model/undo_redo.rs UserModel::apply_undo_diff_list `Diff::SetRowHidden {`
//@end
    ;
    Ok(needs_evaluation)
}
pub fn redo_arm_InsertRows(&mut self, sheet: &u32, row: &i32, count: &i32) -> (r: Result<bool, String>)
    ensures r.is_ok() ==> final(self).model.log() == old(self).model.log() + redo_InsertRows(sheet, row, count),
            final(self).history == old(self).history, final(self).send_queue == old(self).send_queue,
            r matches Ok(needs_evaluation) ==> needs_evaluation,   // contents or structure changed: the workbook is re-evaluated afterwards
{
    #[allow(unused_assignments, unused_variables, unused_mut)] let mut needs_evaluation = false;
//@arm base/src/user_model/undo_redo.rs UserModel::apply_diff_list `Diff::InsertRows {`
//@end
    ;
    Ok(needs_evaluation)
}
pub fn undo_arm_InsertRows(&mut self, sheet: &u32, row: &i32, count: &i32) -> (r: Result<bool, String>)
    ensures r.is_ok() ==> final(self).model.log() == old(self).model.log() + undo_InsertRows(sheet, row, count),
            final(self).history == old(self).history, final(self).send_queue == old(self).send_queue,
            r matches Ok(needs_evaluation) ==> needs_evaluation,   // contents or structure changed: the workbook is re-evaluated afterwards
{
    #[allow(unused_assignments, unused_variables, unused_mut)] let mut needs_evaluation = false;
//@arm base/src/user_model/undo_redo.rs UserModel::apply_undo_diff_list `Diff::InsertRows {`
//@end
    ;
    Ok(needs_evaluation)
}
pub fn redo_arm_InsertColumns(&mut self, sheet: &u32, column: &i32, count: &i32) -> (r: Result<bool, String>)
    ensures r.is_ok() ==> final(self).model.log() == old(self).model.log() + redo_InsertColumns(sheet, column, count),
            final(self).history == old(self).history, final(self).send_queue == old(self).send_queue,
            r matches Ok(needs_evaluation) ==> needs_evaluation,   // contents or structure changed: the workbook is re-evaluated afterwards
{
    #[allow(unused_assignments, unused_variables, unused_mut)] let mut needs_evaluation = false;
//@arm base/src/user_model/undo_redo.rs UserModel::apply_diff_list `Diff::InsertColumns {`
//@end
    ;
    Ok(needs_evaluation)
}
pub fn undo_arm_InsertColumns(&mut self, sheet: &u32, column: &i32, count: &i32) -> (r: Result<bool, String>)
    ensures r.is_ok() ==> final(self).model.log() == old(self).model.log() + undo_InsertColumns(sheet, column, count),
            final(self).history == old(self).history, final(self).send_queue == old(self).send_queue,
            r matches Ok(needs_evaluation) ==> needs_evaluation,   // contents or structure changed: the workbook is re-evaluated afterwards
{
    #[allow(unused_assignments, unused_variables, unused_mut)] let mut needs_evaluation = false;
//@arm base/src/user_model/undo_redo.rs UserModel::apply_undo_diff_list `Diff::InsertColumns {`
//@end
    ;
    Ok(needs_evaluation)
}
pub fn redo_arm_DeleteRows(&mut self, sheet: &u32, row: &i32, count: &i32) -> (r: Result<bool, String>)
    ensures r.is_ok() ==> final(self).model.log() == old(self).model.log() + redo_DeleteRows(sheet, row, count),
            final(self).history == old(self).history, final(self).send_queue == old(self).send_queue,
            r matches Ok(needs_evaluation) ==> needs_evaluation,   // contents or structure changed: the workbook is re-evaluated afterwards
{
    #[allow(unused_assignments, unused_variables, unused_mut)] let mut needs_evaluation = false;
//@arm base/src/user_model/undo_redo.rs UserModel::apply_diff_list `Diff::DeleteRows {`
//@end
    ;
    Ok(needs_evaluation)
}
pub fn redo_arm_DeleteColumns(&mut self, sheet: &u32, column: &i32, count: &i32) -> (r: Result<bool, String>)
    ensures r.is_ok() ==> final(self).model.log() == old(self).model.log() + redo_DeleteColumns(sheet, column, count),
            final(self).history == old(self).history, final(self).send_queue == old(self).send_queue,
            r matches Ok(needs_evaluation) ==> needs_evaluation,   // contents or structure changed: the workbook is re-evaluated afterwards
{
    #[allow(unused_assignments, unused_variables, unused_mut)] let mut needs_evaluation = false;
//@arm base/src/user_model/undo_redo.rs UserModel::apply_diff_list `Diff::DeleteColumns {`
//@end
    ;
    Ok(needs_evaluation)
}
pub fn redo_arm_SetFrozenRowsCount(&mut self, sheet: &u32, new_value: &i32, old_value: &i32) -> (r: Result<bool, String>)
    ensures r.is_ok() ==> final(self).model.log() == old(self).model.log() + redo_SetFrozenRowsCount(sheet, new_value, old_value),
            final(self).history == old(self).history, final(self).send_queue == old(self).send_queue,
{
    #[allow(unused_assignments, unused_variables, unused_mut)] let mut needs_evaluation = false;
//@arm base/src/user_model/undo_redo.rs UserModel::apply_diff_list `Diff::SetFrozenRowsCount {`
//@end
    ;
    Ok(needs_evaluation)
}
pub fn undo_arm_SetFrozenRowsCount(&mut self, sheet: &u32, new_value: &i32, old_value: &i32) -> (r: Result<bool, String>)
    ensures r.is_ok() ==> final(self).model.log() == old(self).model.log() + undo_SetFrozenRowsCount(sheet, new_value, old_value),
            final(self).history == old(self).history, final(self).send_queue == old(self).send_queue,
{
    #[allow(unused_assignments, unused_variables, unused_mut)] let mut needs_evaluation = false;
//@arm base/src/user_model/undo_redo.rs UserModel::apply_undo_diff_list `Diff::SetFrozenRowsCount {`
//@end
    ;
    Ok(needs_evaluation)
}
pub fn redo_arm_SetFrozenColumnsCount(&mut self, sheet: &u32, new_value: &i32, old_value: &i32) -> (r: Result<bool, String>)
    ensures r.is_ok() ==> final(self).model.log() == old(self).model.log() + redo_SetFrozenColumnsCount(sheet, new_value, old_value),
            final(self).history == old(self).history, final(self).send_queue == old(self).send_queue,
{
    #[allow(unused_assignments, unused_variables, unused_mut)] let mut needs_evaluation = false;
//@arm base/src/user_model/undo_redo.rs UserModel::apply_diff_list `Diff::SetFrozenColumnsCount {`
//@end
    ;
    Ok(needs_evaluation)
}
pub fn undo_arm_SetFrozenColumnsCount(&mut self, sheet: &u32, new_value: &i32, old_value: &i32) -> (r: Result<bool, String>)
    ensures r.is_ok() ==> final(self).model.log() == old(self).model.log() + undo_SetFrozenColumnsCount(sheet, new_value, old_value),
            final(self).history == old(self).history, final(self).send_queue == old(self).send_queue,
{
    #[allow(unused_assignments, unused_variables, unused_mut)] let mut needs_evaluation = false;
//@arm base/src/user_model/undo_redo.rs UserModel::apply_undo_diff_list `Diff::SetFrozenColumnsCount {`
//@end
    ;
    Ok(needs_evaluation)
}
pub fn redo_arm_RenameSheet(&mut self, index: &u32, old_value: &String, new_value: &String) -> (r: Result<bool, String>)
    ensures r.is_ok() ==> final(self).model.log() == old(self).model.log() + redo_RenameSheet(index, old_value, new_value),
            final(self).history == old(self).history, final(self).send_queue == old(self).send_queue,
{
    #[allow(unused_assignments, unused_variables, unused_mut)] let mut needs_evaluation = false;
//@arm base/src/user_model/undo_redo.rs UserModel::apply_diff_list `Diff::RenameSheet {`
//@end
    ;
    Ok(needs_evaluation)
}
pub fn undo_arm_RenameSheet(&mut self, index: &u32, old_value: &String, new_value: &String) -> (r: Result<bool, String>)
    ensures r.is_ok() ==> final(self).model.log() == old(self).model.log() + undo_RenameSheet(index, old_value, new_value),
            final(self).history == old(self).history, final(self).send_queue == old(self).send_queue,
{
    #[allow(unused_assignments, unused_variables, unused_mut)] let mut needs_evaluation = false;
//@arm base/src/user_model/undo_redo.rs UserModel::apply_undo_diff_list `Diff::RenameSheet {`
//@end
    ;
    Ok(needs_evaluation)
}
pub fn redo_arm_SetSheetColor(&mut self, index: &u32, old_value: &Color, new_value: &Color) -> (r: Result<bool, String>)
    ensures r.is_ok() ==> final(self).model.log() == old(self).model.log() + redo_SetSheetColor(index, old_value, new_value),
            final(self).history == old(self).history, final(self).send_queue == old(self).send_queue,
{
    #[allow(unused_assignments, unused_variables, unused_mut)] let mut needs_evaluation = false;
//@arm base/src/user_model/undo_redo.rs UserModel::apply_diff_list `Diff::SetSheetColor {`
//@end
    ;
    Ok(needs_evaluation)
}
pub fn undo_arm_SetSheetColor(&mut self, index: &u32, old_value: &Color, new_value: &Color) -> (r: Result<bool, String>)
    ensures r.is_ok() ==> final(self).model.log() == old(self).model.log() + undo_SetSheetColor(index, old_value, new_value),
            final(self).history == old(self).history, final(self).send_queue == old(self).send_queue,
{
    #[allow(unused_assignments, unused_variables, unused_mut)] let mut needs_evaluation = false;
//@arm base/src/user_model/undo_redo.rs UserModel::apply_undo_diff_list `Diff::SetSheetColor {`
//@end
    ;
    Ok(needs_evaluation)
}
pub fn redo_arm_SetShowGridLines(&mut self, sheet: &u32, old_value: &bool, new_value: &bool) -> (r: Result<bool, String>)
    ensures r.is_ok() ==> final(self).model.log() == old(self).model.log() + redo_SetShowGridLines(sheet, old_value, new_value),
            final(self).history == old(self).history, final(self).send_queue == old(self).send_queue,
{
    #[allow(unused_assignments, unused_variables, unused_mut)] let mut needs_evaluation = false;
//@arm base/src/user_model/undo_redo.rs UserModel::apply_diff_list `Diff::SetShowGridLines {`
//@end
    ;
    Ok(needs_evaluation)
}
pub fn undo_arm_SetShowGridLines(&mut self, sheet: &u32, old_value: &bool, new_value: &bool) -> (r: Result<bool, String>)
    ensures r.is_ok() ==> final(self).model.log() == old(self).model.log() + undo_SetShowGridLines(sheet, old_value, new_value),
            final(self).history == old(self).history, final(self).send_queue == old(self).send_queue,
{
    #[allow(unused_assignments, unused_variables, unused_mut)] let mut needs_evaluation = false;
//@arm base/src/user_model/undo_redo.rs UserModel::apply_undo_diff_list `Diff::SetShowGridLines {`
//@end
    ;
    Ok(needs_evaluation)
}
pub fn redo_arm_SetSheetState(&mut self, index: &u32, old_value: &SheetState, new_value: &SheetState) -> (r: Result<bool, String>)
    ensures r.is_ok() ==> final(self).model.log() == old(self).model.log() + redo_SetSheetState(index, old_value, new_value),
            final(self).history == old(self).history, final(self).send_queue == old(self).send_queue,
{
    #[allow(unused_assignments, unused_variables, unused_mut)] let mut needs_evaluation = false;
//@arm base/src/user_model/undo_redo.rs UserModel::apply_diff_list `Diff::SetSheetState {`
//@end
    ;
    Ok(needs_evaluation)
}
pub fn undo_arm_SetSheetState(&mut self, index: &u32, old_value: &SheetState, new_value: &SheetState) -> (r: Result<bool, String>)
    ensures r.is_ok() ==> final(self).model.log() == old(self).model.log() + undo_SetSheetState(index, old_value, new_value),
            final(self).history == old(self).history, final(self).send_queue == old(self).send_queue,
{
    #[allow(unused_assignments, unused_variables, unused_mut)] let mut needs_evaluation = false;
//@arm base/src/user_model/undo_redo.rs UserModel::apply_undo_diff_list `Diff::SetSheetState {`
//@end
    ;
    Ok(needs_evaluation)
}
pub fn redo_arm_MoveColumns(&mut self, sheet: &u32, column: &i32, column_count: &i32, delta: &i32) -> (r: Result<bool, String>)
    requires small(*column as int), small(*delta as int)
    ensures r.is_ok() ==> final(self).model.log() == old(self).model.log() + redo_MoveColumns(sheet, column, column_count, delta),
            final(self).history == old(self).history, final(self).send_queue == old(self).send_queue,
            r matches Ok(needs_evaluation) ==> needs_evaluation,   // contents or structure changed: the workbook is re-evaluated afterwards
{
    #[allow(unused_assignments, unused_variables, unused_mut)] let mut needs_evaluation = false;
//@arm base/src/user_model/undo_redo.rs UserModel::apply_diff_list `Diff::MoveColumns {`
//@end
    ;
    Ok(needs_evaluation)
}
pub fn undo_arm_MoveColumns(&mut self, sheet: &u32, column: &i32, column_count: &i32, delta: &i32) -> (r: Result<bool, String>)
    requires small(*column as int), small(*delta as int)
    ensures r.is_ok() ==> final(self).model.log() == old(self).model.log() + undo_MoveColumns(sheet, column, column_count, delta),
            final(self).history == old(self).history, final(self).send_queue == old(self).send_queue,
            r matches Ok(needs_evaluation) ==> needs_evaluation,   // contents or structure changed: the workbook is re-evaluated afterwards
{
    #[allow(unused_assignments, unused_variables, unused_mut)] let mut needs_evaluation = false;
//@arm base/src/user_model/undo_redo.rs UserModel::apply_undo_diff_list `Diff::MoveColumns {`
//@end
    ;
    Ok(needs_evaluation)
}
pub fn redo_arm_MoveRows(&mut self, sheet: &u32, row: &i32, row_count: &i32, delta: &i32) -> (r: Result<bool, String>)
    requires small(*row as int), small(*delta as int)
    ensures r.is_ok() ==> final(self).model.log() == old(self).model.log() + redo_MoveRows(sheet, row, row_count, delta),
            final(self).history == old(self).history, final(self).send_queue == old(self).send_queue,
            r matches Ok(needs_evaluation) ==> needs_evaluation,   // contents or structure changed: the workbook is re-evaluated afterwards
{
    #[allow(unused_assignments, unused_variables, unused_mut)] let mut needs_evaluation = false;
//@arm base/src/user_model/undo_redo.rs UserModel::apply_diff_list `Diff::MoveRows {`
//@end
    ;
    Ok(needs_evaluation)
}
pub fn undo_arm_MoveRows(&mut self, sheet: &u32, row: &i32, row_count: &i32, delta: &i32) -> (r: Result<bool, String>)
    requires small(*row as int), small(*delta as int)
    ensures r.is_ok() ==> final(self).model.log() == old(self).model.log() + undo_MoveRows(sheet, row, row_count, delta),
            final(self).history == old(self).history, final(self).send_queue == old(self).send_queue,
            r matches Ok(needs_evaluation) ==> needs_evaluation,   // contents or structure changed: the workbook is re-evaluated afterwards
{
    #[allow(unused_assignments, unused_variables, unused_mut)] let mut needs_evaluation = false;
//@arm base/src/user_model/undo_redo.rs UserModel::apply_undo_diff_list `Diff::MoveRows {`
//@end
    ;
    Ok(needs_evaluation)
}
pub fn redo_arm_SetLocale(&mut self, old_value: &String, new_value: &String) -> (r: Result<bool, String>)
    ensures r.is_ok() ==> final(self).model.log() == old(self).model.log() + redo_SetLocale(old_value, new_value),
            final(self).history == old(self).history, final(self).send_queue == old(self).send_queue,
{
    #[allow(unused_assignments, unused_variables, unused_mut)] let mut needs_evaluation = false;
//@arm base/src/user_model/undo_redo.rs UserModel::apply_diff_list `Diff::SetLocale {`
//@end
    ;
    Ok(needs_evaluation)
}
pub fn undo_arm_SetLocale(&mut self, old_value: &String, new_value: &String) -> (r: Result<bool, String>)
    ensures r.is_ok() ==> final(self).model.log() == old(self).model.log() + undo_SetLocale(old_value, new_value),
            final(self).history == old(self).history, final(self).send_queue == old(self).send_queue,
{
    #[allow(unused_assignments, unused_variables, unused_mut)] let mut needs_evaluation = false;
//@arm base/src/user_model/undo_redo.rs UserModel::apply_undo_diff_list `Diff::SetLocale {`
//@end
    ;
    Ok(needs_evaluation)
}
pub fn redo_arm_SetTimezone(&mut self, old_value: &String, new_value: &String) -> (r: Result<bool, String>)
    ensures r.is_ok() ==> final(self).model.log() == old(self).model.log() + redo_SetTimezone(old_value, new_value),
            final(self).history == old(self).history, final(self).send_queue == old(self).send_queue,
{
    #[allow(unused_assignments, unused_variables, unused_mut)] let mut needs_evaluation = false;
//@arm base/src/user_model/undo_redo.rs UserModel::apply_diff_list `Diff::SetTimezone {`
//@end
    ;
    Ok(needs_evaluation)
}
pub fn undo_arm_SetTimezone(&mut self, old_value: &String, new_value: &String) -> (r: Result<bool, String>)
    ensures r.is_ok() ==> final(self).model.log() == old(self).model.log() + undo_SetTimezone(old_value, new_value),
            final(self).history == old(self).history, final(self).send_queue == old(self).send_queue,
{
    #[allow(unused_assignments, unused_variables, unused_mut)] let mut needs_evaluation = false;
//@arm base/src/user_model/undo_redo.rs UserModel::apply_undo_diff_list `Diff::SetTimezone {`
//@end
    ;
    Ok(needs_evaluation)
}
pub fn redo_arm_DeleteColumnStyle(&mut self, sheet: &u32, column: &i32) -> (r: Result<bool, String>)
    ensures r.is_ok() ==> final(self).model.log() == old(self).model.log() + redo_DeleteColumnStyle(sheet, column),
            final(self).history == old(self).history, final(self).send_queue == old(self).send_queue,
{
    #[allow(unused_assignments, unused_variables, unused_mut)] let mut needs_evaluation = false;
//@arm base/src/user_model/undo_redo.rs UserModel::apply_diff_list `Diff::DeleteColumnStyle {`
//@end
    ;
    Ok(needs_evaluation)
}
pub fn redo_arm_DeleteRowStyle(&mut self, sheet: &u32, row: &i32) -> (r: Result<bool, String>)
    ensures r.is_ok() ==> final(self).model.log() == old(self).model.log() + redo_DeleteRowStyle(sheet, row),
            final(self).history == old(self).history, final(self).send_queue == old(self).send_queue,
{
    #[allow(unused_assignments, unused_variables, unused_mut)] let mut needs_evaluation = false;
//@arm base/src/user_model/undo_redo.rs UserModel::apply_diff_list `Diff::DeleteRowStyle {`
//@end
    ;
    Ok(needs_evaluation)
}
pub fn redo_arm_CreateDefinedName(&mut self, name: &String, scope: &Option<u32>, value: &String) -> (r: Result<bool, String>)
    ensures r.is_ok() ==> final(self).model.log() == old(self).model.log() + redo_CreateDefinedName(name, scope, value),
            final(self).history == old(self).history, final(self).send_queue == old(self).send_queue,
{
    #[allow(unused_assignments, unused_variables, unused_mut)] let mut needs_evaluation = false;
//@arm base/src/user_model/undo_redo.rs UserModel::apply_diff_list `Diff::CreateDefinedName {`
//@end
    ;
    Ok(needs_evaluation)
}
pub fn undo_arm_CreateDefinedName(&mut self, name: &String, scope: &Option<u32>, value: &String) -> (r: Result<bool, String>)
    ensures r.is_ok() ==> final(self).model.log() == old(self).model.log() + undo_CreateDefinedName(name, scope, value),
            final(self).history == old(self).history, final(self).send_queue == old(self).send_queue,
{
    #[allow(unused_assignments, unused_variables, unused_mut)] let mut needs_evaluation = false;
//@arm base/src/user_model/undo_redo.rs UserModel::apply_undo_diff_list `Diff::CreateDefinedName {`
//@end
    ;
    Ok(needs_evaluation)
}
pub fn redo_arm_DeleteDefinedName(&mut self, name: &String, scope: &Option<u32>, old_value: &String) -> (r: Result<bool, String>)
    ensures r.is_ok() ==> final(self).model.log() == old(self).model.log() + redo_DeleteDefinedName(name, scope, old_value),
            final(self).history == old(self).history, final(self).send_queue == old(self).send_queue,
{
    #[allow(unused_assignments, unused_variables, unused_mut)] let mut needs_evaluation = false;
//@arm base/src/user_model/undo_redo.rs UserModel::apply_diff_list `Diff::DeleteDefinedName {`
//@end
    ;
    Ok(needs_evaluation)
}
pub fn undo_arm_DeleteDefinedName(&mut self, name: &String, scope: &Option<u32>, old_value: &String) -> (r: Result<bool, String>)
    ensures r.is_ok() ==> final(self).model.log() == old(self).model.log() + undo_DeleteDefinedName(name, scope, old_value),
            final(self).history == old(self).history, final(self).send_queue == old(self).send_queue,
{
    #[allow(unused_assignments, unused_variables, unused_mut)] let mut needs_evaluation = false;
//@arm base/src/user_model/undo_redo.rs UserModel::apply_undo_diff_list `Diff::DeleteDefinedName {`
//@end
    ;
    Ok(needs_evaluation)
}
pub fn redo_arm_UpdateDefinedName(&mut self, name: &String, scope: &Option<u32>, old_formula: &String, new_name: &String, new_scope: &Option<u32>, new_formula: &String) -> (r: Result<bool, String>)
    ensures r.is_ok() ==> final(self).model.log() == old(self).model.log() + redo_UpdateDefinedName(name, scope, old_formula, new_name, new_scope, new_formula),
            final(self).history == old(self).history, final(self).send_queue == old(self).send_queue,
{
    #[allow(unused_assignments, unused_variables, unused_mut)] let mut needs_evaluation = false;
//@arm base/src/user_model/undo_redo.rs UserModel::apply_diff_list `Diff::UpdateDefinedName {`
//@end
    ;
    Ok(needs_evaluation)
}
pub fn undo_arm_UpdateDefinedName(&mut self, name: &String, scope: &Option<u32>, old_formula: &String, new_name: &String, new_scope: &Option<u32>, new_formula: &String) -> (r: Result<bool, String>)
    ensures r.is_ok() ==> final(self).model.log() == old(self).model.log() + undo_UpdateDefinedName(name, scope, old_formula, new_name, new_scope, new_formula),
            final(self).history == old(self).history, final(self).send_queue == old(self).send_queue,
{
    #[allow(unused_assignments, unused_variables, unused_mut)] let mut needs_evaluation = false;
//@arm base/src/user_model/undo_redo.rs UserModel::apply_undo_diff_list `Diff::UpdateDefinedName {`
//@end
    ;
    Ok(needs_evaluation)
}
// ---- sheet-structure undo arms (hand-written section, tools/arms_extra.rs) ----
    // set_selected_sheet lives in ui.rs; here it only records which sheet is selected (ASSUMED: Ok => recorded, Err => nothing)
    #[verifier::external_body]
    pub fn set_selected_sheet(&mut self, sheet: u32) -> (r: Result<(), String>)
        ensures r.is_ok() ==> final(self).model.log() == old(self).model.log().push(Call::SelectSheet(sheet)),
                r.is_err() ==> final(self).model.log() == old(self).model.log(),
                final(self).history == old(self).history, final(self).send_queue == old(self).send_queue,
    { unimplemented!() }

/// undo of DuplicateSheet: the copy is deleted and the SOURCE sheet is selected again, whatever was selected meanwhile,
/// so the selection cannot be left pointing past the end (C28) and the pre-operation selection is restored (C01)
pub fn undo_duplicate_sheet_tail(&mut self, source_index: &u32, new_index: &u32) -> (r: Result<(), String>)
    ensures r.is_ok() ==> final(self).model.log() == old(self).model.log() + seq![Call::DeleteSheet(*new_index), Call::SelectSheet(*source_index)]
{
//@fragment base/src/user_model/undo_redo.rs UserModel::apply_undo_diff_list `self.model.delete_sheet(*new_index)?;` .. `self.set_selected_sheet(*source_index)`
//@end
    Ok(())
}

/// undo of DeleteSheet re-inserts the sheet under its OLD name, at its OLD index, with its OLD sheet id
/// (sheet-scoped defined names are bound by id)
pub fn undo_delete_sheet_head(&mut self, sheet: &u32, old_data: &Box<WorksheetShell>) -> (r: Result<(), String>)
    ensures r.is_ok() ==> final(self).model.log() == old(self).model.log() + seq![Call::InsertSheet(old_data.name@, *sheet, Some(old_data.sheet_id))]
{
//@fragment base/src/user_model/undo_redo.rs UserModel::apply_undo_diff_list `let sheet_name = &old_data.name.clone();` .. `.insert_sheet(`
//@end
    Ok(())
}

    // the selected sheet as the user model reads it (ui.rs; stub: an uninterpreted function of the engine's call log)
    pub uninterp spec fn selected(&self) -> u32;
    #[verifier::external_body]
    pub fn get_selected_sheet(&self) -> (r: u32) ensures r == self.selected() { unimplemented!() }

/// redo / undo of MoveSheet: the sheet is moved (back), and the selection follows the SAME sheet through the move
pub fn redo_move_sheet(&mut self, sheet_index: &u32, new_index: &u32) -> (r: Result<(), String>)
    requires old(self).selected() < 4294967295
    ensures r.is_ok() ==> final(self).model.log() == old(self).model.log()
        + seq![Call::MoveSheet(*sheet_index, *new_index), Call::SelectSheet(moved_index(old(self).selected() as int, *sheet_index as int, *new_index as int) as u32)]
{
    let ghost sel0 = self.selected();
//@arm base/src/user_model/undo_redo.rs UserModel::apply_diff_list `Diff::MoveSheet {`
//@after `let selected = self.get_selected_sheet();`
                    assert(selected == sel0);
//@end
    ;
    Ok(())
}
pub fn undo_move_sheet(&mut self, sheet_index: &u32, new_index: &u32) -> (r: Result<(), String>)
    requires old(self).selected() < 4294967295
    ensures r.is_ok() ==> final(self).model.log() == old(self).model.log()
        + seq![Call::MoveSheet(*new_index, *sheet_index), Call::SelectSheet(moved_index(old(self).selected() as int, *new_index as int, *sheet_index as int) as u32)]
{
//@arm base/src/user_model/undo_redo.rs UserModel::apply_undo_diff_list `Diff::MoveSheet {`
//@end
    ;
    Ok(())
}

}

} // verus!
fn main() {}
