// Typing into a dynamic-array spill (or over its anchor) clears EVERY other cell of the old spill block, so no spilled value
// outlives the block it belonged to.   (C31, C27: every spill cell belongs to an anchor whose range covers it)
use vstd::prelude::*;
verus! {
pub open spec fn small(x: int) -> bool { -4194304 <= x <= 4194304 }
#[verifier::external_body] pub struct Worksheet { _o: u8 }
impl Worksheet {
    /// ghost: the set of cells whose contents have been cleared so far
    pub uninterp spec fn cleared(&self) -> Set<(int, int)>;
    #[verifier::external_body]
    pub fn cell_clear_contents(&mut self, row: i32, column: i32) -> (r: Result<(), String>)
        ensures final(self).cleared() == old(self).cleared().insert((row as int, column as int))
    { unimplemented!() }
}

#[verifier::loop_isolation(false)]
pub fn clear_spill_of_typed_over_cell(ws: &mut Worksheet, sheet: u32, row: i32, column: i32, anchor_row: i32, anchor_column: i32, width: i32, height: i32)
    requires small(row as int), small(column as int), small(anchor_row as int), small(anchor_column as int), 0 <= width, 0 <= height, small(width as int), small(height as int)
    ensures
        forall|r: int, c: int| anchor_row <= r < anchor_row + height && anchor_column <= c < anchor_column + width && !(r == anchor_row && c == anchor_column)
            ==> #[trigger] final(ws).cleared().contains((r, c)),
{
//@fragment#2 base/src/model.rs Model::prepare_cell_for_user_input `for r in ` .. `let _ = ws.cell_clear_contents(r, c);`
//@forwhile 2
//@loop 1
                    invariant
                        forall|r2: int, c2: int| anchor_row <= r2 < r && anchor_column <= c2 < anchor_column + width && !(r2 == anchor_row && c2 == anchor_column)
                            ==> #[trigger] ws.cleared().contains((r2, c2)),
//@loop 2
                        invariant
                            anchor_column <= __c <= anchor_column + width,
                            forall|r2: int, c2: int| anchor_row <= r2 < r && anchor_column <= c2 < anchor_column + width && !(r2 == anchor_row && c2 == anchor_column)
                                ==> #[trigger] ws.cleared().contains((r2, c2)),
                            forall|c2: int| anchor_column <= c2 < __c && !(r == anchor_row && c2 == anchor_column) ==> #[trigger] ws.cleared().contains((r as int, c2)),
                        decreases anchor_column + width - __c
//@end
}

#[verifier::loop_isolation(false)]
pub fn clear_spill_of_overwritten_anchor(ws: &mut Worksheet, row: i32, column: i32, width: i32, height: i32)
    requires small(row as int), small(column as int), 0 <= width, 0 <= height, small(width as int), small(height as int)
    ensures
        forall|r: int, c: int| row <= r < row + height && column <= c < column + width ==> #[trigger] final(ws).cleared().contains((r, c)),
{
//@fragment#1 base/src/model.rs Model::prepare_cell_for_user_input `for r in ` .. `let _ = ws.cell_clear_contents(r, c);`
//@loop 1
                    invariant
                        forall|r2: int, c2: int| row <= r2 < r && column <= c2 < column + width ==> #[trigger] ws.cleared().contains((r2, c2)),
//@loop 2
                        invariant
                            forall|r2: int, c2: int| row <= r2 < r && column <= c2 < column + width ==> #[trigger] ws.cleared().contains((r2, c2)),
                            forall|c2: int| column <= c2 < c ==> #[trigger] ws.cleared().contains((r as int, c2)),
//@end
}


// ---- what stops a dynamic array from spilling: any occupied cell of the result block that is not this formula's own spill ----
#[verifier::external_body] pub struct Error { _o: u8 }
//@type base/src/types.rs FormulaValue
//@type base/src/types.rs SpillValue
//@type base/src/types.rs ArrayKind
//@type base/src/types.rs Cell
/// C31 ("spills never overwrite user content", "spill ranges do not overlap"): the per-cell test of set_cells_with_result answers "blocked" for every
/// cell except an empty one and a spill cell whose anchor is THIS formula's cell
pub fn spill_blocked_by(cell: &Cell, row: i32, column: i32) -> (r: bool)
    ensures
        r == !(cell is EmptyCell || (cell matches Cell::SpillCell { a, .. } && a == (row, column))),
{
    match cell
//@arm base/src/model.rs Model::set_cells_with_result `|cell| match cell`
//@end
}
} // verus!
fn main() {}
