// The parser's side of the precedence table (C09): which operator each function of the recursive descent consumes, and WHICH sub-parser reads each of its
// operands — parse_expr / parse_concat / parse_term / parse_factor / parse_prod / parse_power / parse_range / parse_implicit, whole functions, verbatim.
// `by_level(n, L)` ("n was returned by the level-L parser function") is uninterpreted and established only by the stub of the next function down, so each
// postcondition says: the result is an error, or a chain of this level's operator whose RIGHT operands all come from level L+1 and whose leftmost operand
// comes from level L+1 — the levels unit parens requires the printers to respect (left operand >= L, right operand >= L+1).
use vstd::prelude::*;
verus! {
#[verifier::external_body] pub struct Function { _o: u8 }
#[verifier::external_body] pub struct NamedVariable { _o: u8 }
#[verifier::external_body] pub struct ArrayNode { _o: u8 }
#[verifier::external_body] pub struct DefinedNameS { _o: u8 }
#[verifier::external_body] pub struct ExpectedTokens { _o: u8 }
#[verifier::external_body] pub struct OpCompare { _o: u8 }
#[verifier::external_body] pub struct ParserRest { _o: u8 }
#[verifier::external_body] pub struct Lexer { _o: u8 }
//@type base/src/expressions/token.rs OpUnary
pub mod token {
    #[allow(unused_imports)] use super::*;
//@type base/src/expressions/token.rs OpSum
//@type base/src/expressions/token.rs OpProduct
    #[verifier::external_body] pub struct Error { _o: u8 }
    pub use super::OpUnary;
}
pub use token::OpSum;
pub use token::OpProduct;
//@type base/src/expressions/parser/mod.rs Node
/// context shell (D5): the tokens the descent looks at
pub enum TokenType { Compare(OpCompare), Addition(OpSum), Product(OpProduct), And, Power, Percent, Colon, At, Spill, Other }
impl TokenType {
    // `next_token == TokenType::X` (PartialEq on the token enum)
    #[verifier::external_body] pub fn verif_is_and(&self) -> (r: bool) ensures r == (self is And) { unimplemented!() }
    #[verifier::external_body] pub fn verif_is_power(&self) -> (r: bool) ensures r == (self is Power) { unimplemented!() }
    #[verifier::external_body] pub fn verif_is_percent(&self) -> (r: bool) ensures r == (self is Percent) { unimplemented!() }
    #[verifier::external_body] pub fn verif_is_colon(&self) -> (r: bool) ensures r == (self is Colon) { unimplemented!() }
    #[verifier::external_body] pub fn verif_is_at(&self) -> (r: bool) ensures r == (self is At) { unimplemented!() }
    #[verifier::external_body] pub fn verif_is_spill(&self) -> (r: bool) ensures r == (self is Spill) { unimplemented!() }
}
impl Lexer {
    #[verifier::external_body] pub fn peek_token(&mut self) -> TokenType { unimplemented!() }
    #[verifier::external_body] pub fn advance_token(&mut self) { unimplemented!() }
}
pub struct Parser { pub lexer: Lexer, pub rest: ParserRest }                          // context shell (D5)

/// "n was returned by the parser function of grammar level l" (1 parse_expr .. 9 parse_primary)
pub uninterp spec fn by_level(n: Node, l: int) -> bool;
pub open spec fn err(n: Node) -> bool { n is ParseErrorKind }
// chains of one level's operator: every right operand from the next level, the leftmost operand from the next level
pub open spec fn chain_compare(n: Node) -> bool decreases n {
    err(n) || by_level(n, 2) || (n matches Node::CompareKind { left, right, .. } && chain_compare(*left) && by_level(*right, 2))
}
pub open spec fn chain_concat(n: Node) -> bool decreases n {
    err(n) || by_level(n, 3) || (n matches Node::OpConcatenateKind { left, right } && chain_concat(*left) && by_level(*right, 3))
}
pub open spec fn chain_sum(n: Node) -> bool decreases n {
    err(n) || by_level(n, 4) || (n matches Node::OpSumKind { left, right, .. } && chain_sum(*left) && by_level(*right, 4))
}
pub open spec fn chain_product(n: Node) -> bool decreases n {
    err(n) || by_level(n, 5) || (n matches Node::OpProductKind { left, right, .. } && chain_product(*left) && by_level(*right, 5))
}
pub open spec fn chain_power(n: Node) -> bool decreases n {
    err(n) || by_level(n, 6) || (n matches Node::OpPowerKind { left, right } && chain_power(*left) && by_level(*right, 6))
}
/// parse_power: signs, a range-level operand, then '%'s:  [-] range %*
pub open spec fn chain_unary(n: Node) -> bool decreases n {
    err(n) || by_level(n, 7)
        || (n matches Node::UnaryKind { kind, right } && kind is Minus && by_level(*right, 7))
        || (n matches Node::UnaryKind { kind, right } && kind is Percentage && chain_unary(*right) && !err(*right))
}
impl Parser {
    // every other level's function as a stub (sibling API, so that a call to the WRONG level is a refuted postcondition, not a compile error):
    // all that is known about a result is the level it was produced at
    #[verifier::external_body] pub fn parse_expr(&mut self) -> (r: Node) ensures by_level(r, 1) { unimplemented!() }
    #[verifier::external_body] pub fn parse_concat(&mut self) -> (r: Node) ensures by_level(r, 2) { unimplemented!() }
    #[verifier::external_body] pub fn parse_term(&mut self) -> (r: Node) ensures by_level(r, 3) { unimplemented!() }
    #[verifier::external_body] pub fn parse_factor(&mut self) -> (r: Node) ensures by_level(r, 4) { unimplemented!() }
    #[verifier::external_body] pub fn parse_prod(&mut self) -> (r: Node) ensures by_level(r, 5) { unimplemented!() }
    #[verifier::external_body] pub fn parse_power(&mut self) -> (r: Node) ensures by_level(r, 6) { unimplemented!() }
    #[verifier::external_body] pub fn parse_range(&mut self) -> (r: Node) ensures by_level(r, 7) { unimplemented!() }
    #[verifier::external_body] pub fn parse_primary(&mut self) -> (r: Node) ensures by_level(r, 9) { unimplemented!() }
//@fn base/src/expressions/parser/mod.rs Parser::parse_implicit
//@spec
    ensures err(r) || by_level(r, 9)
        || (r matches Node::ImplicitIntersection { child, .. } && by_level(*child, 9))          // '@' primary
        || (r matches Node::SpillRangeOperator { child } && by_level(*child, 9)),               // primary '#'
//@rewrite `-> Node {` => `-> (r: Node) {`
//@rewrite `next_token == TokenType::At` => `next_token.verif_is_at()`
//@rewrite `next_token == TokenType::Spill` => `next_token.verif_is_spill()`
//@end
}
// Each further level is woven into its own context shell (P7 .. P1: same two fields), where the function of the level BELOW is the stub whose only
// contract is by_level — so the real name is kept at the call site and the real function of that level is verified in the shell one step down.
// ---- level 7: range => implicit (':' primary)?
pub struct P7 { pub lexer: Lexer, pub rest: ParserRest }
impl P7 {
    #[verifier::external_body] pub fn parse_expr(&mut self) -> (r: Node) ensures by_level(r, 1) { unimplemented!() }
    #[verifier::external_body] pub fn parse_concat(&mut self) -> (r: Node) ensures by_level(r, 2) { unimplemented!() }
    #[verifier::external_body] pub fn parse_term(&mut self) -> (r: Node) ensures by_level(r, 3) { unimplemented!() }
    #[verifier::external_body] pub fn parse_factor(&mut self) -> (r: Node) ensures by_level(r, 4) { unimplemented!() }
    #[verifier::external_body] pub fn parse_prod(&mut self) -> (r: Node) ensures by_level(r, 5) { unimplemented!() }
    #[verifier::external_body] pub fn parse_power(&mut self) -> (r: Node) ensures by_level(r, 6) { unimplemented!() }
    #[verifier::external_body] pub fn parse_implicit(&mut self) -> (r: Node) ensures by_level(r, 8) { unimplemented!() }
    #[verifier::external_body] pub fn parse_primary(&mut self) -> (r: Node) ensures by_level(r, 9) { unimplemented!() }
//@fn base/src/expressions/parser/mod.rs Parser::parse_range
//@spec
    ensures err(r) || by_level(r, 8) || (r matches Node::OpRangeKind { left, right } && by_level(*left, 8) && by_level(*right, 9))
//@rewrite `-> Node {` => `-> (r: Node) {`
//@rewrite `next_token == TokenType::Colon` => `next_token.verif_is_colon()`
//@end
}
// ---- level 6: power => (unaryOp)* range '%'*
pub struct P6 { pub lexer: Lexer, pub rest: ParserRest }
impl P6 {
    #[verifier::external_body] pub fn parse_expr(&mut self) -> (r: Node) ensures by_level(r, 1) { unimplemented!() }
    #[verifier::external_body] pub fn parse_concat(&mut self) -> (r: Node) ensures by_level(r, 2) { unimplemented!() }
    #[verifier::external_body] pub fn parse_term(&mut self) -> (r: Node) ensures by_level(r, 3) { unimplemented!() }
    #[verifier::external_body] pub fn parse_factor(&mut self) -> (r: Node) ensures by_level(r, 4) { unimplemented!() }
    #[verifier::external_body] pub fn parse_prod(&mut self) -> (r: Node) ensures by_level(r, 5) { unimplemented!() }
    #[verifier::external_body] pub fn parse_range(&mut self) -> (r: Node) ensures by_level(r, 7) { unimplemented!() }
    #[verifier::external_body] pub fn parse_implicit(&mut self) -> (r: Node) ensures by_level(r, 8) { unimplemented!() }
    #[verifier::external_body] pub fn parse_primary(&mut self) -> (r: Node) ensures by_level(r, 9) { unimplemented!() }
//@fn base/src/expressions/parser/mod.rs Parser::parse_power
//@attr
#[verifier::exec_allows_no_decreases_clause]
//@spec
    ensures chain_unary(r)
//@rewrite `-> Node {` => `-> (r: Node) {`
//@rewrite `let mut sign = 1;` => `let mut sign: i32 = 1;`
//@rewrite `op == token::OpSum::Minus` => `matches!(op, token::OpSum::Minus)`
//@rewrite `next_token == TokenType::Percent` => `next_token.verif_is_percent()`
//@loop 1
            invariant sign == 1 || sign == -1
//@loop 2
            invariant chain_unary(t), !err(t)
//@end
}
// ---- level 5: prod => power ('^' power)*
pub struct P5 { pub lexer: Lexer, pub rest: ParserRest }
impl P5 {
    #[verifier::external_body] pub fn parse_expr(&mut self) -> (r: Node) ensures by_level(r, 1) { unimplemented!() }
    #[verifier::external_body] pub fn parse_concat(&mut self) -> (r: Node) ensures by_level(r, 2) { unimplemented!() }
    #[verifier::external_body] pub fn parse_term(&mut self) -> (r: Node) ensures by_level(r, 3) { unimplemented!() }
    #[verifier::external_body] pub fn parse_factor(&mut self) -> (r: Node) ensures by_level(r, 4) { unimplemented!() }
    #[verifier::external_body] pub fn parse_power(&mut self) -> (r: Node) ensures by_level(r, 6) { unimplemented!() }
    #[verifier::external_body] pub fn parse_range(&mut self) -> (r: Node) ensures by_level(r, 7) { unimplemented!() }
    #[verifier::external_body] pub fn parse_implicit(&mut self) -> (r: Node) ensures by_level(r, 8) { unimplemented!() }
    #[verifier::external_body] pub fn parse_primary(&mut self) -> (r: Node) ensures by_level(r, 9) { unimplemented!() }
//@fn base/src/expressions/parser/mod.rs Parser::parse_prod
//@attr
#[verifier::exec_allows_no_decreases_clause]
//@spec
    ensures chain_power(r)
//@rewrite `-> Node {` => `-> (r: Node) {`
//@rewrite `next_token == TokenType::Power` => `next_token.verif_is_power()`
//@loop 1
            invariant chain_power(t), !err(t)
//@end
}
// ---- level 4: factor => prod (('*' | '/') prod)*
pub struct P4 { pub lexer: Lexer, pub rest: ParserRest }
impl P4 {
    #[verifier::external_body] pub fn parse_expr(&mut self) -> (r: Node) ensures by_level(r, 1) { unimplemented!() }
    #[verifier::external_body] pub fn parse_concat(&mut self) -> (r: Node) ensures by_level(r, 2) { unimplemented!() }
    #[verifier::external_body] pub fn parse_term(&mut self) -> (r: Node) ensures by_level(r, 3) { unimplemented!() }
    #[verifier::external_body] pub fn parse_prod(&mut self) -> (r: Node) ensures by_level(r, 5) { unimplemented!() }
    #[verifier::external_body] pub fn parse_power(&mut self) -> (r: Node) ensures by_level(r, 6) { unimplemented!() }
    #[verifier::external_body] pub fn parse_range(&mut self) -> (r: Node) ensures by_level(r, 7) { unimplemented!() }
    #[verifier::external_body] pub fn parse_implicit(&mut self) -> (r: Node) ensures by_level(r, 8) { unimplemented!() }
    #[verifier::external_body] pub fn parse_primary(&mut self) -> (r: Node) ensures by_level(r, 9) { unimplemented!() }
//@fn base/src/expressions/parser/mod.rs Parser::parse_factor
//@attr
#[verifier::exec_allows_no_decreases_clause]
//@spec
    ensures chain_product(r)
//@rewrite `-> Node {` => `-> (r: Node) {`
//@loop 1
            invariant chain_product(t), !err(t)
//@end
}
// ---- level 3: term => factor (('+' | '-') factor)*
pub struct P3 { pub lexer: Lexer, pub rest: ParserRest }
impl P3 {
    #[verifier::external_body] pub fn parse_expr(&mut self) -> (r: Node) ensures by_level(r, 1) { unimplemented!() }
    #[verifier::external_body] pub fn parse_concat(&mut self) -> (r: Node) ensures by_level(r, 2) { unimplemented!() }
    #[verifier::external_body] pub fn parse_factor(&mut self) -> (r: Node) ensures by_level(r, 4) { unimplemented!() }
    #[verifier::external_body] pub fn parse_prod(&mut self) -> (r: Node) ensures by_level(r, 5) { unimplemented!() }
    #[verifier::external_body] pub fn parse_power(&mut self) -> (r: Node) ensures by_level(r, 6) { unimplemented!() }
    #[verifier::external_body] pub fn parse_range(&mut self) -> (r: Node) ensures by_level(r, 7) { unimplemented!() }
    #[verifier::external_body] pub fn parse_implicit(&mut self) -> (r: Node) ensures by_level(r, 8) { unimplemented!() }
    #[verifier::external_body] pub fn parse_primary(&mut self) -> (r: Node) ensures by_level(r, 9) { unimplemented!() }
//@fn base/src/expressions/parser/mod.rs Parser::parse_term
//@attr
#[verifier::exec_allows_no_decreases_clause]
//@spec
    ensures chain_sum(r)
//@rewrite `-> Node {` => `-> (r: Node) {`
//@loop 1
            invariant chain_sum(t), !err(t)
//@end
}
// ---- level 2: concat => term ('&' term)*
pub struct P2 { pub lexer: Lexer, pub rest: ParserRest }
impl P2 {
    #[verifier::external_body] pub fn parse_expr(&mut self) -> (r: Node) ensures by_level(r, 1) { unimplemented!() }
    #[verifier::external_body] pub fn parse_term(&mut self) -> (r: Node) ensures by_level(r, 3) { unimplemented!() }
    #[verifier::external_body] pub fn parse_factor(&mut self) -> (r: Node) ensures by_level(r, 4) { unimplemented!() }
    #[verifier::external_body] pub fn parse_prod(&mut self) -> (r: Node) ensures by_level(r, 5) { unimplemented!() }
    #[verifier::external_body] pub fn parse_power(&mut self) -> (r: Node) ensures by_level(r, 6) { unimplemented!() }
    #[verifier::external_body] pub fn parse_range(&mut self) -> (r: Node) ensures by_level(r, 7) { unimplemented!() }
    #[verifier::external_body] pub fn parse_implicit(&mut self) -> (r: Node) ensures by_level(r, 8) { unimplemented!() }
    #[verifier::external_body] pub fn parse_primary(&mut self) -> (r: Node) ensures by_level(r, 9) { unimplemented!() }
//@fn base/src/expressions/parser/mod.rs Parser::parse_concat
//@attr
#[verifier::exec_allows_no_decreases_clause]
//@spec
    ensures chain_concat(r)
//@rewrite `-> Node {` => `-> (r: Node) {`
//@rewrite `next_token == TokenType::And` => `next_token.verif_is_and()`
//@loop 1
            invariant chain_concat(t), !err(t)
//@end
}
// ---- level 1: expr => concat (opComp concat)*
pub struct P1 { pub lexer: Lexer, pub rest: ParserRest }
impl P1 {
    #[verifier::external_body] pub fn parse_concat(&mut self) -> (r: Node) ensures by_level(r, 2) { unimplemented!() }
    #[verifier::external_body] pub fn parse_term(&mut self) -> (r: Node) ensures by_level(r, 3) { unimplemented!() }
    #[verifier::external_body] pub fn parse_factor(&mut self) -> (r: Node) ensures by_level(r, 4) { unimplemented!() }
    #[verifier::external_body] pub fn parse_prod(&mut self) -> (r: Node) ensures by_level(r, 5) { unimplemented!() }
    #[verifier::external_body] pub fn parse_power(&mut self) -> (r: Node) ensures by_level(r, 6) { unimplemented!() }
    #[verifier::external_body] pub fn parse_range(&mut self) -> (r: Node) ensures by_level(r, 7) { unimplemented!() }
    #[verifier::external_body] pub fn parse_implicit(&mut self) -> (r: Node) ensures by_level(r, 8) { unimplemented!() }
    #[verifier::external_body] pub fn parse_primary(&mut self) -> (r: Node) ensures by_level(r, 9) { unimplemented!() }
//@fn base/src/expressions/parser/mod.rs Parser::parse_expr
//@attr
#[verifier::exec_allows_no_decreases_clause]
//@spec
    ensures chain_compare(r)
//@rewrite `-> Node {` => `-> (r: Node) {`
//@loop 1
            invariant chain_compare(t), !err(t)
//@end
}
} // verus!
fn main() {}
