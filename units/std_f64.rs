// ---- std_f64.rs: assumed facts about f64 (trusted base, R5) -------------------------------------
// Rust's f64 `/` and `*` never panic: their vstd preconditions hold for all arguments (assumed).
#[verifier::external_body]
pub broadcast proof fn axiom_f64_div_total(a: f64, b: f64)
    ensures #[trigger] a.div_req(b)
{}
#[verifier::external_body]
pub broadcast proof fn axiom_f64_mul_total(a: f64, b: f64)
    ensures #[trigger] a.mul_req(b)
{}
pub broadcast group group_f64_total { axiom_f64_div_total, axiom_f64_mul_total }
