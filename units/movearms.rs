// to_string_moved (cut & paste of formulas): a reference whose target cell lies inside the cut area is displaced by the move,
// a range is displaced only if BOTH corners lie inside, everything else keeps its coordinates (and gets the source sheet's
// name when the formula lands on another sheet).   (C16)
use vstd::prelude::*;
verus! {
pub mod constants {
    #[allow(unused_imports)] use super::*;
//@type base/src/constants.rs LAST_COLUMN
//@type base/src/constants.rs LAST_ROW
}
pub use constants::{LAST_COLUMN, LAST_ROW};
//@type base/src/expressions/parser/stringify.rs DisplaceData
//@type base/src/expressions/types.rs CellReferenceRC
//@type base/src/expressions/types.rs Area
//@type base/src/expressions/parser/mod.rs Reference
//@type base/src/expressions/parser/move_formula.rs MoveContext

pub open spec fn small(x: int) -> bool { -4194304 <= x <= 4194304 }
pub open spec fn area_small(a: &Area) -> bool { small(a.row as int) && small(a.column as int) && small(a.width as int) && small(a.height as int) }
pub open spec fn ctx_small(m: &MoveContext) -> bool {
    area_small(m.area) && small(m.row as int) && small(m.column as int) && small(m.row_delta as int) && small(m.column_delta as int)
}
pub open spec fn in_area(sheet: u32, row: int, column: int, a: &Area) -> bool {
    a.sheet == sheet && a.row <= row <= a.row + a.height - 1 && a.column <= column <= a.column + a.width - 1
}
//@fn base/src/expressions/parser/move_formula.rs ref_is_in_area
//@spec
    requires area_small(area)
    ensures r == in_area(sheet, row as int, column as int, area)
//@rewrite `-> bool {` => `-> (r: bool) {`
//@end

/// what stringify_reference prints: an uninterpreted function of the printed reference (its own contract is unit refshift)
pub uninterp spec fn sr(ctx_row: i32, ctx_column: i32, none_disp: bool, sheet_name: Option<Seq<char>>, sheet_index: u32, row: i32, column: i32,
                        absolute_row: bool, absolute_column: bool, full_row: bool, full_column: bool) -> Seq<char>;
pub open spec fn name_of(o: &Option<String>) -> Option<Seq<char>> { match o { Some(s) => Some(s@), None => None } }
#[verifier::external_body]
pub fn stringify_reference(context: Option<&CellReferenceRC>, displace_data: &DisplaceData, reference: &Reference, full_row: bool, full_column: bool, language: &Language) -> (r: String)
    requires context.is_some()
    ensures r@ == sr(context.unwrap().row, context.unwrap().column, *displace_data is None, name_of(reference.sheet_name), reference.sheet_index,
                     reference.row, reference.column, reference.absolute_row, reference.absolute_column, full_row, full_column)
{ unimplemented!() }

/// the sheet name printed for a reference that is NOT moved: its own, or the source sheet's when the formula changes sheet
pub open spec fn kept_name(sheet_name: &Option<String>, m: &MoveContext) -> Option<Seq<char>> {
    if m.target_sheet_name@ != m.source_sheet_name@ && sheet_name.is_none() { Some(m.source_sheet_name@) } else { name_of(sheet_name) }
}

pub fn arm_reference(move_context: &MoveContext, sheet_name: &Option<String>, sheet_index: &u32, absolute_row: &bool, absolute_column: &bool,
                     row: &i32, column: &i32, language: &Language) -> (r: String)
    requires ctx_small(move_context), small(*row as int), small(*column as int)
    ensures ({
        let tr = if *absolute_row { *row as int } else { *row + move_context.row };
        let tc = if *absolute_column { *column as int } else { *column + move_context.column };
        if in_area(*sheet_index, tr, tc, move_context.area) {
            // the cut cell moved: the reference follows it
            r@ == sr(move_context.row, move_context.column, true, name_of(sheet_name), *sheet_index, (*row + move_context.row_delta) as i32, (*column + move_context.column_delta) as i32, *absolute_row, *absolute_column, false, false)
        } else {
            r@ == sr(move_context.row, move_context.column, true, kept_name(sheet_name, move_context), *sheet_index, *row, *column, *absolute_row, *absolute_column, false, false)
        }
    })
//@arm#1 base/src/expressions/parser/move_formula.rs to_string_moved `ReferenceKind {`
//@before `stringify_reference(`
            proof {
                let m = move_context;
                let tr = if *absolute_row { *row as int } else { *row + m.row };
                let tc = if *absolute_column { *column as int } else { *column + m.column };
                assert(reference_row == tr && reference_column == tc);
                if in_area(*sheet_index, tr, tc, m.area) {
                    assert(new_row == (*row + m.row_delta) as i32 && new_column == (*column + m.column_delta) as i32);
                    assert(name_of(ref_sheet_name) == name_of(sheet_name));
                } else {
                    assert(new_row == *row && new_column == *column);
                    assert(name_of(ref_sheet_name) == kept_name(sheet_name, m));
                }
            }
//@end

pub fn arm_range(move_context: &MoveContext, sheet_name: &Option<String>, sheet_index: &u32, absolute_row1: &bool, absolute_column1: &bool, row1: &i32, column1: &i32,
                 absolute_row2: &bool, absolute_column2: &bool, row2: &i32, column2: &i32, language: &Language) -> (r: String)
    requires ctx_small(move_context), small(*row1 as int), small(*column1 as int), small(*row2 as int), small(*column2 as int)
//@arm#1 base/src/expressions/parser/move_formula.rs to_string_moved `RangeKind {`
//@before `format!("{s1}:{s2}")`
            proof {
                let m = move_context;
                let tr1 = if *absolute_row1 { *row1 as int } else { *row1 + m.row };
                let tc1 = if *absolute_column1 { *column1 as int } else { *column1 + m.column };
                let tr2 = if *absolute_row2 { *row2 as int } else { *row2 + m.row };
                let tc2 = if *absolute_column2 { *column2 as int } else { *column2 + m.column };
                let both = in_area(*sheet_index, tr1, tc1, m.area) && in_area(*sheet_index, tr2, tc2, m.area);
                let fr = *absolute_row1 && *absolute_row2 && *row1 == 1 && *row2 == 1048576;
                let fc = *absolute_column1 && *absolute_column2 && *column1 == 1 && *column2 == 16384;
                // a range lying entirely inside the cut area follows it, any other range keeps both corners
                assert(both ==> s1@ == sr(m.row, m.column, true, name_of(sheet_name), *sheet_index, (*row1 + m.row_delta) as i32, (*column1 + m.column_delta) as i32, *absolute_row1, *absolute_column1, fr, fc)
                              && s2@ == sr(m.row, m.column, true, None, *sheet_index, (*row2 + m.row_delta) as i32, (*column2 + m.column_delta) as i32, *absolute_row2, *absolute_column2, fr, fc));
                assert(!both ==> s1@ == sr(m.row, m.column, true, kept_name(sheet_name, m), *sheet_index, *row1, *column1, *absolute_row1, *absolute_column1, fr, fc)
                              && s2@ == sr(m.row, m.column, true, None, *sheet_index, *row2, *column2, *absolute_row2, *absolute_column2, fr, fc));
            }
//@end

// ---- copy & paste: the copied formula is parsed in the SOURCE cell's context and printed in the TARGET cell's context, so every
// relative reference is shifted by the paste offset (and, by unit refshift, prints #REF! when that leaves the grid) ----
#[verifier::external_body] pub struct Node { _o: u8 }
#[verifier::external_body] pub struct Locale { _o: u8 }
#[verifier::external_body] pub struct Language { _o: u8 }
#[verifier::external_body] pub struct Worksheet { _o: u8 }
#[verifier::external_body] pub struct WorkbookRest { _o: u8 }
#[verifier::external_body] pub struct ModelRest { _o: u8 }
#[verifier::external_body] pub struct Parser { _o: u8 }
pub struct Workbook { pub worksheets: Vec<Worksheet>, pub rest: WorkbookRest }
pub struct Model<'a> { pub workbook: Workbook, pub parser: Parser, pub locale: &'a Locale, pub language: &'a Language, pub rest: ModelRest }
//@type base/src/expressions/types.rs CellReferenceIndex
pub uninterp spec fn g_source() -> CellReferenceIndex;
pub uninterp spec fn g_target() -> CellReferenceIndex;
pub uninterp spec fn sheet_name_of(w: Worksheet) -> Seq<char>;
impl Worksheet {
    #[verifier::external_body]
    pub fn get_name(&self) -> (r: String) ensures r@ == sheet_name_of(*self) { unimplemented!() }
}
impl Parser {
    #[verifier::external_body]
    pub fn parse(&mut self, formula: &str, context: &CellReferenceRC) -> (r: Node)
        requires context.row == g_source().row, context.column == g_source().column
    { unimplemented!() }
}
#[verifier::external_body]
pub fn to_localized_string(node: &Node, context: &CellReferenceRC, locale: &Locale, language: &Language) -> (r: String)
    requires context.row == g_target().row, context.column == g_target().column
{ unimplemented!() }
impl<'a> Model<'a> {
    #[verifier::external_body]
    pub fn formula_without_prefix<'b>(&self, value: &'b str) -> (r: Option<&'b str>) { unimplemented!() }
//@fn base/src/model.rs Model::extend_copied_value
//@spec
    requires *source == g_source(), *target == g_target()
//@end
}

} // verus!
fn main() {}
