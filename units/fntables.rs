// The two built-in function name tables agree: looking up the name that to_localized_name prints for a function gives that function back, for all
// built-in functions, in every language whose table has pairwise different names.   (C23)
// D7 (vf/weave.py //@fnpairs): the tables are reduced, mechanically on every run, to identifier indices, order kept: the macro impl_function_lookup!
// turns row k into `if self.<field_k> == key { return Some(Function::<Variant_k>); }`, tried top to bottom, and that if-chain is what lookup_variant is;
// name_field is the `match self` of to_localized_name.  ASSUMED (data, language.bin): within one language no two fields hold the same name, so
// `self.<field> == key` holds for exactly the field the key was printed from.
use vstd::prelude::*;
verus! {
//@fnpairs
/// every variant in [lo, hi) round-trips
pub open spec fn round_trips(lo: int, hi: int) -> bool
    decreases hi - lo
{
    if hi <= lo { true } else {
        0 <= name_field(lo) < n_fields() && lookup_variant(name_field(lo)) == lo && round_trips(lo + 1, hi)
    }
}
/// C23: for every built-in function, the name printed for it is looked up as the same function
pub proof fn theorem_function_names_round_trip()
    ensures round_trips(0, n_variants())
{
    assert(round_trips(0, n_variants())) by (compute);
}
/// what the theorem says for one function
pub proof fn corollary(v: int)
    requires 0 <= v < n_variants(), round_trips(0, n_variants())
    ensures lookup_variant(name_field(v)) == v, 0 <= name_field(v) < n_fields()
{
    lemma_rt(0, n_variants(), v);
}
pub proof fn lemma_rt(lo: int, hi: int, v: int)
    requires lo <= v < hi, round_trips(lo, hi)
    ensures lookup_variant(name_field(v)) == v, 0 <= name_field(v) < n_fields()
    decreases hi - lo
{
    if lo < v { lemma_rt(lo + 1, hi, v); }
}
} // verus!
fn main() {}
