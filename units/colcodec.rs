// U-colcodec: column letters <-> column numbers are mutually inverse bijections on [1,16384].   (C22, C11)
use vstd::prelude::*;
verus! {
pub mod constants {
    #[allow(unused_imports)] use super::*;
//@type base/src/constants.rs LAST_COLUMN
//@type base/src/constants.rs LAST_ROW
}
pub use constants::{LAST_COLUMN, LAST_ROW};
//@include std_str.rs

// ---- specification vocabulary (from the statement: base-26 letters, A=1) ----
pub open spec fn is_upper(c: char) -> bool { 'A' <= c <= 'Z' }
pub open spec fn all_upper(s: Seq<char>) -> bool { forall|i: int| 0 <= i < s.len() ==> is_upper(#[trigger] s[i]) }
pub open spec fn col_val(s: Seq<char>) -> int
    decreases s.len()
{
    if s.len() == 0 { 0 } else { col_val(s.drop_last()) * 26 + (s.last() as int - 64) }
}
pub open spec fn v(c: char) -> int { c as int - 64 }
/// explicit polynomial for the (at most three) letters of a grid column
pub open spec fn val3(s: Seq<char>) -> int {
    if s.len() == 0 { 0 } else if s.len() == 1 { v(s[0]) } else if s.len() == 2 { v(s[0]) * 26 + v(s[1]) }
    else { v(s[0]) * 676 + v(s[1]) * 26 + v(s[2]) }
}
pub proof fn lemma_val3(s: Seq<char>)
    requires s.len() <= 3
    ensures col_val(s) == val3(s)
{
    reveal_with_fuel(col_val, 5);
    if s.len() >= 1 {
        let s1 = s.drop_last();
        if s1.len() >= 1 {
            let s2 = s1.drop_last();
            if s2.len() >= 1 { let s3 = s2.drop_last(); assert(s3.len() == 0); assert(s2[0] == s[0]); }
            assert(s1[0] == s[0]);
        }
    }
}
pub proof fn lemma_col_val_pos(s: Seq<char>)
    requires all_upper(s)
    ensures col_val(s) >= 0, s.len() > 0 ==> col_val(s) >= 1, col_val(s) >= s.len()
    decreases s.len()
{
    if s.len() > 0 { lemma_col_val_pos(s.drop_last()); assert(is_upper(s.last())); }
}
/// growing a prefix never decreases the value (used for the early exit once the value leaves the grid)
pub proof fn lemma_col_val_prefix(s: Seq<char>, k: int)
    requires all_upper(s), 0 <= k <= s.len()
    ensures col_val(s.subrange(0, k)) <= col_val(s)
    decreases s.len() - k
{
    if k < s.len() {
        lemma_col_val_prefix(s, k + 1);
        let t = s.subrange(0, k + 1);
        assert(t.drop_last() =~= s.subrange(0, k));
        assert(is_upper(t.last()));
        lemma_col_val_pos(s.subrange(0, k));
    } else { assert(s.subrange(0, k) =~= s); }
}
/// col_val is injective on upper-case strings: with the two contracts below this makes the codecs mutually inverse
pub proof fn lemma_col_val_injective(s: Seq<char>, t: Seq<char>)
    requires all_upper(s), all_upper(t), col_val(s) == col_val(t)
    ensures s =~= t
    decreases s.len()
{
    lemma_col_val_pos(s); lemma_col_val_pos(t);
    if s.len() == 0 || t.len() == 0 {
    } else {
        assert(is_upper(s.last()) && is_upper(t.last()));
        let a = col_val(s.drop_last()); let b = col_val(t.drop_last());
        lemma_col_val_pos(s.drop_last()); lemma_col_val_pos(t.drop_last());
        assert(a * 26 + v(s.last()) == b * 26 + v(t.last()));
        assert(a == b && s.last() == t.last()) by {
            if a < b { assert(a * 26 + 26 <= b * 26); } else if b < a { assert(b * 26 + 26 <= a * 26); }
        }
        lemma_col_val_injective(s.drop_last(), t.drop_last());
        assert(s =~= s.drop_last().push(s.last()));
        assert(t =~= t.drop_last().push(t.last()));
    }
}
/// C22, first sentence, as a lemma over the two contracts: decode(encode(i)) = i and encode(decode(s)) = s
pub proof fn lemma_codec_bijection(i: int, enc: Seq<char>, s: Seq<char>, dec: int, enc_of_dec: Seq<char>)
    requires
        // number_to_column(i) == Some(enc)
        1 <= i <= 16384, all_upper(enc), col_val(enc) == i,
        // column_to_number(s) == Ok(dec), number_to_column(dec) == Some(enc_of_dec)
        all_upper(s), col_val(s) == dec, all_upper(enc_of_dec), col_val(enc_of_dec) == dec,
    ensures
        enc_of_dec =~= s,
        forall|t: Seq<char>| all_upper(t) && col_val(t) == i ==> t =~= enc,
{
    lemma_col_val_injective(enc_of_dec, s);
    assert forall|t: Seq<char>| all_upper(t) && col_val(t) == i implies t =~= enc by { lemma_col_val_injective(t, enc); }
}

//@fn base/src/expressions/utils/mod.rs is_valid_column_number
//@spec
    ensures r == (1 <= column <= 16384)
//@rewrite `-> bool` => `-> (r: bool)`
//@end

//@fn base/src/expressions/utils/mod.rs number_to_column
//@spec
    ensures
        r.is_some() <==> 1 <= i <= 16384,
        r.is_some() ==> all_upper(r.unwrap()@) && 1 <= r.unwrap()@.len() <= 3 && col_val(r.unwrap()@) == i,
//@rewrite `-> Option<String>` => `-> (r: Option<String>)`
//@before `let mut column = "".to_string();`
    let ghost i0 = i;
    proof { reveal_strlit(""); }
//@loop 1
        invariant
            0 <= i <= 16384, 1 <= i0 <= 16384,
            all_upper(column@),
            column@.len() <= 3,
            column@.len() == 0 ==> i == i0,
            column@.len() == 1 ==> i <= 630 && i0 == i * 26 + v(column@[0]),
            column@.len() == 2 ==> i <= 24 && i0 == i * 676 + v(column@[0]) * 26 + v(column@[1]),
            column@.len() == 3 ==> i == 0 && i0 == v(column@[0]) * 676 + v(column@[1]) * 26 + v(column@[2]),
        decreases i
//@before `Some(column)`
    proof { lemma_val3(column@); }
//@end

//@fn base/src/expressions/utils/mod.rs column_to_number
//@spec
    ensures
        // accepted exactly on non-empty upper-case letter strings whose value is on the grid
        r.is_ok() <==> (column@.len() > 0 && all_upper(column@) && col_val(column@) <= 16384),
        r.is_ok() ==> r.unwrap() == col_val(column@),
//@rewrite `-> Result<i32, String>` => `-> (r: Result<i32, String>)`
//@loop 1 it
        invariant
            0 <= column_number <= 16384,
            0 <= it.index@ <= column@.len(),
            all_upper(column@.subrange(0, it.index@)),
            column_number == col_val(column@.subrange(0, it.index@)),
//@before `if !character.is_ascii_uppercase() {`
        let ghost idx = it.index@;
        proof {
            assert(character == column@[idx]);
            assert(column@.subrange(0, idx + 1).drop_last() =~= column@.subrange(0, idx));
            assert(column@.subrange(0, idx + 1).last() == character);
        }
//@before `column_number = column_number * 26`
        proof {
            assert(all_upper(column@.subrange(0, idx + 1)));
        }
//@before#4? `return Err(`
            proof {
                assert(column_number == col_val(column@.subrange(0, idx + 1)));
                if all_upper(column@) { lemma_col_val_prefix(column@, idx + 1); }
            }
//@before `match is_valid_column_number(column_number) {`
    proof {
        assert(column@.subrange(0, column@.len() as int) =~= column@);
        lemma_col_val_pos(column@);
    }
//@end

} // verus!
fn main() {}
