// stringify's operator arms: every recursive call prints the child with the SAME context, displacement, export flag,
// locale and language the arm itself received, so a displacement reaches every reference below an operator.  (C12, C13, C15)
use vstd::prelude::*;
// what the arms print around their operands is not part of this contract (it is unit parens'): every format string they use is read as a shim
macro_rules! format {
    ("({})", $e:expr $(,)?) => { shim_fmt1($e) };
    ("{}:{}", $a:expr, $b:expr $(,)?) => { shim_fmt2($a, $b) };
    ("{}&{}", $a:expr, $b:expr $(,)?) => { shim_fmt2($a, $b) };
    ("{}{}{}", $a:expr, $k:expr, $b:expr $(,)?) => { shim_fmt2($a, $b) };
    ("-({})", $e:expr $(,)?) => { shim_fmt1($e) };
    ("-{}", $e:expr $(,)?) => { shim_fmt1($e) };
    ("{}%", $e:expr $(,)?) => { shim_fmt1($e) };
}
verus! {
#[verifier::external_body] pub fn shim_fmt1(a: String) -> String { unimplemented!() }
#[verifier::external_body] pub fn shim_fmt2(a: String, b: String) -> String { unimplemented!() }
#[verifier::external_body] pub struct Function { _o: u8 }
#[verifier::external_body] pub struct NamedVariable { _o: u8 }
#[verifier::external_body] pub struct ArrayNode { _o: u8 }
#[verifier::external_body] pub struct DefinedNameS { _o: u8 }
#[verifier::external_body] pub struct ExpectedTokens { _o: u8 }
#[verifier::external_body] pub struct Locale { _o: u8 }
#[verifier::external_body] pub struct Language { _o: u8 }
#[verifier::external_body] pub struct CellReferenceRC { _o: u8 }
pub mod token {
    #[allow(unused_imports)] use super::*;
//@type base/src/expressions/token.rs OpSum
    // OpProduct / OpCompare are only printed by these arms: integer shells so that format! accepts them (what they print is not under contract)
    pub type OpProduct = i32;
    pub type OpCompare = i32;
//@type base/src/expressions/token.rs OpUnary
//@type base/src/expressions/token.rs Error
}
pub use token::{OpSum, OpProduct, OpCompare, OpUnary};
} // verus!
// Display for the operator enums is only format! plumbing here (what they print is not part of this contract)
impl core::fmt::Display for OpSum { fn fmt(&self, _f: &mut core::fmt::Formatter) -> core::fmt::Result { unimplemented!() } }
verus! {
//@type base/src/expressions/parser/stringify.rs DisplaceData
//@type base/src/expressions/parser/mod.rs Node
pub use Node::*;

/// "the environment this arm was called with": uninterpreted, so a recursive call can only establish it by passing
/// the very same five values on
pub uninterp spec fn env_ok(context: Option<&CellReferenceRC>, displace_data: &DisplaceData, export_to_excel: bool, locale: &Locale, language: &Language) -> bool;
#[verifier::external_body]
pub fn stringify(node: &Node, context: Option<&CellReferenceRC>, displace_data: &DisplaceData, export_to_excel: bool, locale: &Locale, language: &Language) -> (r: String)
    requires env_ok(context, displace_data, export_to_excel, locale, language)
{ unimplemented!() }

// the operand printer the arms share: it prints its operand with the environment it was given (and wraps it in parentheses or not: unit parens)
//@fn base/src/expressions/parser/stringify.rs precedence
//@end
//@fn base/src/expressions/parser/stringify.rs stringify_operand
//@spec
    requires env_ok(context, displace_data, export_to_excel, locale, language)
//@rewrite `format!("({s})")` => `shim_fmt1(s)`
//@end
pub fn arm_op_range(left: &Box<Node>, right: &Box<Node>, context: Option<&CellReferenceRC>, displace_data: &DisplaceData, export_to_excel: bool, locale: &Locale, language: &Language) -> String
    requires env_ok(context, displace_data, export_to_excel, locale, language)
{
//@arm base/src/expressions/parser/stringify.rs stringify `OpRangeKind { left, right } =>`
//@end
}
pub fn arm_op_concatenate(left: &Box<Node>, right: &Box<Node>, context: Option<&CellReferenceRC>, displace_data: &DisplaceData, export_to_excel: bool, locale: &Locale, language: &Language) -> String
    requires env_ok(context, displace_data, export_to_excel, locale, language)
{
//@arm base/src/expressions/parser/stringify.rs stringify `OpConcatenateKind { left, right } =>`
//@end
}
pub fn arm_compare(kind: &OpCompare, left: &Box<Node>, right: &Box<Node>, context: Option<&CellReferenceRC>, displace_data: &DisplaceData, export_to_excel: bool, locale: &Locale, language: &Language) -> String
    requires env_ok(context, displace_data, export_to_excel, locale, language)
{
//@arm base/src/expressions/parser/stringify.rs stringify `CompareKind { kind, left, right } =>`
//@end
}
pub fn arm_op_sum(kind: &OpSum, left: &Box<Node>, right: &Box<Node>, context: Option<&CellReferenceRC>, displace_data: &DisplaceData, export_to_excel: bool, locale: &Locale, language: &Language) -> String
    requires env_ok(context, displace_data, export_to_excel, locale, language)
//@arm base/src/expressions/parser/stringify.rs stringify `OpSumKind { kind, left, right } =>`
//@end
pub fn arm_op_product(kind: &OpProduct, left: &Box<Node>, right: &Box<Node>, context: Option<&CellReferenceRC>, displace_data: &DisplaceData, export_to_excel: bool, locale: &Locale, language: &Language) -> String
    requires env_ok(context, displace_data, export_to_excel, locale, language)
{
//@arm base/src/expressions/parser/stringify.rs stringify `OpProductKind { kind, left, right } =>`
//@end
}
pub fn arm_op_power(left: &Box<Node>, right: &Box<Node>, context: Option<&CellReferenceRC>, displace_data: &DisplaceData, export_to_excel: bool, locale: &Locale, language: &Language) -> String
    requires env_ok(context, displace_data, export_to_excel, locale, language)
//@arm base/src/expressions/parser/stringify.rs stringify `OpPowerKind { left, right } =>`
//@rewrite `format!("{x}^{y}")` => `shim_fmt2(x, y)`
//@end
pub fn arm_unary(kind: &OpUnary, right: &Box<Node>, context: Option<&CellReferenceRC>, displace_data: &DisplaceData, export_to_excel: bool, locale: &Locale, language: &Language) -> String
    requires env_ok(context, displace_data, export_to_excel, locale, language)
{
//@arm base/src/expressions/parser/stringify.rs stringify `UnaryKind { kind, right } =>`
//@end
}

} // verus!
fn main() {}
