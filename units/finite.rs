// U-finite: every function that CONSTRUCTS a numeric cell value produces a finite number.   (C08)
// The property then holds for all ~495 built-ins and every program without looking at them; the closed-world scan
// `number-writers` re-checks on every run that these are all the construction sites in base/src.
use vstd::prelude::*;
use vstd::float::*;
verus! {
pub mod token {
    #[allow(unused_imports)] use super::*;
//@type base/src/expressions/token.rs Error
    impl Clone for Error { #[verifier::external_body] fn clone(&self) -> (r: Self) ensures r == *self { unimplemented!() } }
}
pub use token::Error;
//@type base/src/expressions/parser/mod.rs ArrayNode
//@type base/src/types.rs FormulaValue
//@type base/src/types.rs SpillValue
pub assume_specification [f64::is_nan] (a: f64) -> (r: bool) ensures r == a.is_nan_spec();
pub assume_specification [f64::is_infinite] (a: f64) -> (r: bool) ensures r == a.is_infinite_spec();

// shims for std float constants Verus cannot read (only used if the extracted code mentions them)
#[verifier::external_body] pub fn shim_f64_infinity() -> (r: f64) ensures r.is_infinite_spec() { f64::INFINITY }
#[verifier::external_body] pub fn shim_f64_neg_infinity() -> (r: f64) ensures r.is_infinite_spec() { f64::NEG_INFINITY }
#[verifier::external_body] pub fn shim_f64_nan() -> (r: f64) ensures r.is_nan_spec() { f64::NAN }
pub open spec fn finite(n: f64) -> bool { !n.is_nan_spec() && !n.is_infinite_spec() }
pub assume_specification [f64::is_finite] (a: f64) -> (r: bool) ensures r == finite(a);
// the largest / smallest finite values: comparing against them says nothing about NaN (every comparison with NaN is false)
#[verifier::external_body] pub fn shim_f64_max() -> (r: f64) ensures finite(r) { f64::MAX }
#[verifier::external_body] pub fn shim_f64_min() -> (r: f64) ensures finite(r) { f64::MIN }

//@fn base/src/model.rs array_node_to_formula_value
//@rewrite* `f64::MAX` => `shim_f64_max()`
//@rewrite* `f64::MIN` => `shim_f64_min()`
//@rewrite* `f64::INFINITY` => `shim_f64_infinity()`
//@rewrite* `f64::NEG_INFINITY` => `shim_f64_neg_infinity()`
//@spec
    ensures r matches FormulaValue::Number(n) ==> finite(n)
//@rewrite `-> FormulaValue {` => `-> (r: FormulaValue) {`
//@before `match node {`
    assume(finite(0.0f64));  // the literal 0.0 is finite (vstd gives float literals no value)
//@end

//@fn base/src/model.rs array_node_to_spill_value
//@rewrite* `f64::MAX` => `shim_f64_max()`
//@rewrite* `f64::MIN` => `shim_f64_min()`
//@rewrite* `f64::INFINITY` => `shim_f64_infinity()`
//@rewrite* `f64::NEG_INFINITY` => `shim_f64_neg_infinity()`
//@spec
    ensures r matches SpillValue::Number(n) ==> finite(n)
//@rewrite `-> SpillValue {` => `-> (r: SpillValue) {`
//@before `match node {`
    assume(finite(0.0f64));  // the literal 0.0 is finite
//@end

//@fn base/src/model.rs formula_value_to_spill_value
//@spec
    ensures r matches SpillValue::Number(n) ==> (v matches FormulaValue::Number(m) && m == n)
//@rewrite `-> SpillValue {` => `-> (r: SpillValue) {`
//@end

// scalar result path: the `FormulaValue::Number(*value)` constructor in set_cells_with_result is reached only past the guard.
// Context shells (D5): CalcResult with the one variant the fragment builds; the recursive re-entry is a stub.
#[derive(Clone, Copy)]
pub struct CellReferenceIndex { pub sheet: u32, pub row: i32, pub column: i32 }
#[verifier::external_body] pub struct Cell { _o: u8 }
pub enum CalcResult { Error { error: Error, origin: CellReferenceIndex, message: String }, Other }
pub enum GuardOutcome { Rerouted, Stored(FormulaValue) }
#[verifier::external_body]
pub fn reroute(cell_reference: CellReferenceIndex, cell: Cell, r: &CalcResult) -> (o: GuardOutcome)
    ensures o is Rerouted
{ unimplemented!() }
pub fn scalar_guard(value: &f64, cell_reference: CellReferenceIndex, cell: Cell) -> (r: GuardOutcome)
    ensures r matches GuardOutcome::Stored(FormulaValue::Number(n)) ==> finite(n)
//@arm base/src/model.rs Model::set_cells_with_result `CalcResult::Number(value) =>`
//@rewrite `return self.set_cells_with_result(` => `return reroute(`
//@rewrite `FormulaValue::Number(*value)` => `GuardOutcome::Stored(FormulaValue::Number(*value))`
//@rewrite* `f64::INFINITY` => `shim_f64_infinity()`
//@rewrite* `f64::NEG_INFINITY` => `shim_f64_neg_infinity()`
//@rewrite* `f64::NAN` => `shim_f64_nan()`
//@rewrite* `f64::MAX` => `shim_f64_max()`
//@rewrite* `f64::MIN` => `shim_f64_min()`
//@end


// numbers read from files: every numeric <v> element of an xlsx sheet goes through parse_cell_number (scan number-writers checks that the
// three constructors in xlsx/src/import take their number from it), which answers a finite number whatever the text is
#[verifier::external_body]
pub fn shim_parse_f64_result(s: &str) -> (r: Result<f64, ()>) { s.parse::<f64>().map_err(|_| ()) }
//@fn xlsx/src/import/worksheets.rs parse_cell_number
//@spec
    ensures finite(r)
//@rewrite `-> f64 {` => `-> (r: f64) {`
//@rewrite* `cell_value.unwrap_or("0").parse::<f64>()` => `shim_parse_f64_result(cell_value.unwrap_or("0"))`
//@before `match `
    assume(finite(0.0f64));  // the literal 0.0 is finite
//@end

// user/API numeric input: Worksheet::set_cell_with_number is the single place a number cell is written (scan number-writers).
// The cell store accepts a numeric cell only if it is finite (precondition of the stubbed update_cell).
#[verifier::external_body] pub struct Worksheet { _o: u8 }
pub uninterp spec fn cell_number(c: Cell) -> Option<f64>;
impl Cell {
//@stub base/src/cell.rs Cell::new_number
    ensures cell_number(r) == Some(v)
//@end
}
impl Worksheet {
//@stub base/src/worksheet.rs Worksheet::update_cell
    requires cell_number(new_cell) matches Some(n) ==> finite(n)
//@end
//@fn base/src/worksheet.rs Worksheet::set_cell_with_number
//@end
}

} // verus!
fn main() {}
