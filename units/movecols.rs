// move_column_unchecked / move_row_unchecked band-shift: every column of the shifted band is rebuilt at move1(c) from the
// ACTUAL width, style and hidden flag of column c; the moved column itself lands on target with its own attributes.  (C15)
use vstd::prelude::*;
verus! {
//@include disp_vocab.rs
// ---- context shells (D5) ----
#[verifier::external_body] pub struct WorksheetRest { _o: u8 }
#[verifier::external_body] pub struct Link { _o: u8 }
#[verifier::external_body] pub struct LinkMap { _o: u8 }
impl LinkMap {
    #[verifier::external_body] pub fn insert(&mut self, k: (i32, i32), v: Link) -> Option<Link> { unimplemented!() }
    #[verifier::external_body] pub fn remove(&mut self, k: &(i32, i32)) -> Option<Link> { unimplemented!() }
}
pub struct Worksheet { pub links: LinkMap, pub rest: WorksheetRest }
#[verifier::external_body] pub struct WorkbookRest { _o: u8 }
#[verifier::external_body] pub struct ModelRest { _o: u8 }
pub struct Workbook { pub rest: WorkbookRest }
pub struct Model { pub workbook: Workbook, pub rest: ModelRest }
pub struct CellReferenceIndex { pub sheet: u32, pub row: i32, pub column: i32 }

// the move being performed (ghost constants the stubs can refer to)
pub uninterp spec fn g_column() -> int;
pub uninterp spec fn g_delta() -> int;
pub uninterp spec fn g_arr_w() -> i32;
pub uninterp spec fn g_arr_h() -> i32;
// the attributes a column has when it is read (uninterpreted functions of the column index)
pub uninterp spec fn aw(c: int) -> f64;        // actual width (ignores the hidden flag)
pub uninterp spec fn vw(c: int) -> f64;        // visible width
pub uninterp spec fn st(c: int) -> Option<i32>;
pub uninterp spec fn hd(c: int) -> bool;

impl Workbook {
    #[verifier::external_body]
    pub fn worksheet(&self, worksheet_index: u32) -> (r: Result<&Worksheet, String>) { unimplemented!() }
    #[verifier::external_body]
    pub fn worksheet_mut(&mut self, worksheet_index: u32) -> (r: Result<&mut Worksheet, String>) { unimplemented!() }
}
impl Worksheet {
//@stub base/src/worksheet.rs Worksheet::get_actual_column_width
    ensures r.is_ok() ==> r.unwrap() == aw(column as int)
//@end
// the VISIBLE width (0 when hidden) is a different quantity: a descriptor rebuilt from it would lose the width of a hidden column
//@stub base/src/worksheet.rs Worksheet::get_column_width
    ensures r.is_ok() ==> r.unwrap() == vw(column as int)
//@end
//@stub base/src/worksheet.rs Worksheet::get_column_style
    ensures r.is_ok() ==> r.unwrap() == st(column as int)
//@end
//@stub base/src/worksheet.rs Worksheet::is_column_hidden
    ensures r.is_ok() ==> r.unwrap() == hd(column as int)
//@end
//@stub base/src/worksheet.rs Worksheet::column_cell_references
//@end
//@stub base/src/worksheet.rs Worksheet::set_cell_style
//@end
//@stub base/src/worksheet.rs Worksheet::remove_cell
//@end
// the descriptor written at `column` must be the one of the column that moves there
//@stub base/src/worksheet.rs Worksheet::set_column_width_and_style
    requires exists|src: int| #![trigger aw(src)] column == move1(src, g_column(), g_delta()) && width == aw(src) && hidden == hd(src) && style == st(src)
//@end
}
impl Model {
    #[verifier::external_body]
    pub fn move_cell(&mut self, sheet: u32, source_row: i32, source_column: i32, target_row: i32, target_column: i32) -> (r: Result<(), String>)
        requires source_row == target_row, target_column == move1(source_column as int, g_column(), g_delta())
    { unimplemented!() }

#[verifier::loop_isolation(false)]
    // re-creating a moved cell: a CSE array whose anchor records r = (width, height) is re-entered with that width and height
    #[verifier::external_body]
    pub fn set_user_array_formula(&mut self, sheet: u32, row: i32, column: i32, width: i32, height: i32, value: &str) -> (r: Result<(), String>)
        requires width == g_arr_w() && height == g_arr_h()
    { unimplemented!() }
    #[verifier::external_body]
    pub fn set_user_input(&mut self, sheet: u32, row: i32, column: i32, value: String) -> (r: Result<(), String>)
    { unimplemented!() }

pub fn move_cell_recreate(&mut self, sheet: u32, target_row: i32, target_column: i32, array: Option<(i32, i32)>, formula_or_value: String) -> (r: Result<(), String>)
    requires array.is_some() ==> array.unwrap() == (g_arr_w(), g_arr_h())
{
//@fragment base/src/actions.rs Model::move_cell `if let Some((` .. `self.set_user_input(sheet, target_row, target_column, formula_or_value)?;`
//@end
    Ok(())
}

    // move_cell from the re-creation on: the source cell's style is ALWAYS written at the target, and AFTER the content was re-entered
    // (re-entry through set_user_input / set_user_array_formula adjusts the target's style — number formats inferred from the formula,
    // the row or column style of the new position — so it must not be the last word on the moved cell's style); then the source is removed
pub fn move_cell_recreate_and_style(&mut self, sheet: u32, source_row: i32, source_column: i32, target_row: i32, target_column: i32, style: i32,
                                    array: Option<(i32, i32)>, formula_or_value: String, target_link: Option<Link>) -> (r: Result<(), String>)
    requires array.is_some() ==> array.unwrap() == (g_arr_w(), g_arr_h())
{
    let ghost mut entered: bool = false;
    let ghost mut styled: bool = false;
//@fragment base/src/actions.rs Model::move_cell `if let Some((` .. `remove_cell(source_row, source_column)`
//@afterstmt? `.set_user_input(`
            proof { entered = true; }
//@afterstmt? `.set_user_array_formula(`
            proof { entered = true; }
//@afterstmt? `.set_cell_style(`
        proof { if entered { styled = true; } }
//@end
    assert(styled);   // on every path that reaches the end, the saved style was written after the re-entry
    Ok(())
}

// re-creating the cells of the moved line at the target: the saved style is written AFTER the content is re-entered
// (re-entry through set_user_input adjusts styles: it must not be the last word on the moved cell's style)
#[verifier::loop_isolation(false)]
#[verifier::exec_allows_no_decreases_clause]
pub fn rebuild_moved_column(&mut self, sheet: u32, target_column: i32, original_cells: Vec<(i32, String, i32, Option<(i32, i32)>)>) -> (r: Result<(), String>)
    requires forall|i: int| 0 <= i < original_cells@.len() ==> ((#[trigger] original_cells@[i]).3 matches Some(a) ==> a == (g_arr_w(), g_arr_h()))
{
    let ghost mut entered: bool = false;
//@fragment base/src/actions.rs Model::move_column_unchecked `for (r, value, style_idx, array) in original_cells {` .. `.set_cell_style(r, target_column, style_idx)?;`
//@before `if let Some(a) = array {`
            proof { entered = false; }
            assert(array matches Some(a) ==> a == (g_arr_w(), g_arr_h()));
//@before `self.workbook`
            assert(entered);   // the content has been re-entered on this path before the saved style is written
//@after `self.set_user_input(sheet, r, target_column, value)?;`
                proof { entered = true; }
//@after `self.set_user_array_formula(sheet, r, target_column, a.0, a.1, &value)?;`
                proof { entered = true; }
//@end
    Ok(())
}

#[verifier::loop_isolation(false)]
pub fn band_shift(&mut self, sheet: u32, column: i32, delta: i32, target_column: i32) -> (r: Result<(), String>)
    requires small(column as int), small(delta as int), delta != 0, target_column == column + delta, column == g_column(), delta == g_delta()
{
//@fragment base/src/actions.rs Model::move_column_unchecked `let width = self` .. `.set_column_width_and_style(c + 1, w, h, s)?;`
//@loop 1
                invariant column == g_column(), delta == g_delta(), delta > 0, target_column == column + delta, small(column as int), small(delta as int)
//@loop 3
                invariant column == g_column(), delta == g_delta(), delta < 0, target_column == column + delta, small(column as int), small(delta as int)
//@end
    // the moved column lands on target with its own attributes
    assert(target_column == move1(column as int, g_column(), g_delta()));
    let _ = self.workbook.worksheet_mut(sheet)?.set_column_width_and_style(target_column, width, hidden, style)?;
    Ok(())
}
}

} // verus!
fn main() {}
