// Style table (styles.rs) against the abstract view  index |-> Style:  a style handed to the table is read back identically at the
// index the table answers, and no call changes what any OTHER index reads back — so cells never come to share or lose a style.   (C30;
// C27: the component indices every cell format uses exist)
use vstd::prelude::*;
use vstd::std_specs::cmp::*;
verus! {
// ---- context shells (D5): style components are opaque values with an equality; nothing here looks inside them ----
#[verifier::external_body] pub struct Font { _o: u8 }
#[verifier::external_body] pub struct Fill { _o: u8 }
#[verifier::external_body] pub struct Border { _o: u8 }
#[verifier::external_body] pub struct Alignment { _o: u8 }
#[verifier::external_body] pub struct Dxf { _o: u8 }
// A-eq / A-clone (ASSUMED): the derived PartialEq of a component decides equality of values, the derived Clone yields an equal value
impl PartialEqSpecImpl for Font { open spec fn obeys_eq_spec() -> bool { true } open spec fn eq_spec(&self, other: &Font) -> bool { *self == *other } }
impl PartialEq for Font { #[verifier::external_body] fn eq(&self, other: &Font) -> bool { unimplemented!() } }
impl Clone for Font { #[verifier::external_body] fn clone(&self) -> (r: Self) ensures r == *self { unimplemented!() } }
impl PartialEqSpecImpl for Fill { open spec fn obeys_eq_spec() -> bool { true } open spec fn eq_spec(&self, other: &Fill) -> bool { *self == *other } }
impl PartialEq for Fill { #[verifier::external_body] fn eq(&self, other: &Fill) -> bool { unimplemented!() } }
impl Clone for Fill { #[verifier::external_body] fn clone(&self) -> (r: Self) ensures r == *self { unimplemented!() } }
impl PartialEqSpecImpl for Border { open spec fn obeys_eq_spec() -> bool { true } open spec fn eq_spec(&self, other: &Border) -> bool { *self == *other } }
impl PartialEq for Border { #[verifier::external_body] fn eq(&self, other: &Border) -> bool { unimplemented!() } }
impl Clone for Border { #[verifier::external_body] fn clone(&self) -> (r: Self) ensures r == *self { unimplemented!() } }
impl Clone for Alignment { #[verifier::external_body] fn clone(&self) -> (r: Self) ensures r == *self { unimplemented!() } }
//@include std_text.rs
//@type base/src/types.rs NumFmt
//@type base/src/types.rs CellXfs
//@type base/src/types.rs CellStyleXfs
//@type base/src/types.rs StyleIncludes
//@type base/src/types.rs Style
//@type base/src/types.rs CellStyles
//@type base/src/types.rs Styles

/// equality of styles as a user sees it: every component, the number format by its text
pub open spec fn style_eq(a: Style, b: Style) -> bool {
    a.alignment == b.alignment && a.num_fmt@ == b.num_fmt@ && a.fill == b.fill && a.font == b.font && a.border == b.border && a.quote_prefix == b.quote_prefix
}
impl PartialEqSpecImpl for Style { open spec fn obeys_eq_spec() -> bool { true } open spec fn eq_spec(&self, other: &Style) -> bool { style_eq(*self, *other) } }
impl PartialEq for Style { #[verifier::external_body] fn eq(&self, other: &Style) -> bool { unimplemented!() } }

// ---- number-format ids (number_format.rs): ASSUMED contracts of the three table functions (string tables, out of Verus' reach) ----
pub spec const NDEF: int = 50;     // DEFAULT_NUM_FMTS.len(); only "ids below NDEF are the built-in ones" matters here
pub uninterp spec fn default_code(i: int) -> Seq<char>;
/// the text a number-format id stands for: the first custom entry with that id, else the built-in one, else "general"
pub open spec fn first_with_id(fmts: Seq<NumFmt>, id: i32) -> Option<int>
    decreases fmts.len()
{
    if fmts.len() == 0 { None }
    else if fmts[0].num_fmt_id == id { Some(0) }
    else { match first_with_id(fmts.drop_first(), id) { Some(k) => Some(k + 1), None => None } }
}
pub open spec fn num_fmt_of(id: i32, fmts: Seq<NumFmt>) -> Seq<char> {
    match first_with_id(fmts, id) {
        Some(k) => fmts[k].format_code@,
        None => if 0 <= id < NDEF { default_code(id as int) } else { default_code(0) },
    }
}
#[verifier::external_body]
pub fn get_default_num_fmt_id(num_fmt: &str) -> (r: Option<i32>)
    ensures r matches Some(i) ==> 0 <= i < NDEF && default_code(i as int) == num_fmt@
{ unimplemented!() }
#[verifier::external_body]
pub fn get_num_fmt(num_fmt_id: i32, num_fmts: &[NumFmt]) -> (r: String)
    ensures r@ == num_fmt_of(num_fmt_id, num_fmts@)
{ unimplemented!() }
#[verifier::external_body]
pub fn get_new_num_fmt_index(num_fmts: &[NumFmt]) -> (r: i32)
    ensures r >= NDEF, forall|k: int| 0 <= k < num_fmts@.len() ==> (#[trigger] num_fmts@[k]).num_fmt_id != r
{ unimplemented!() }
/// `item.format_code == format_code` (String == &str): equality of the texts
#[verifier::external_body]
pub fn text_eq(a: &String, b: &str) -> (r: bool) ensures r == (a@ == b@) { a == b }

pub proof fn lemma_first_with_id(fmts: Seq<NumFmt>, id: i32)
    ensures
        first_with_id(fmts, id) matches Some(k) ==> 0 <= k < fmts.len() && fmts[k].num_fmt_id == id && forall|j: int| 0 <= j < k ==> (#[trigger] fmts[j]).num_fmt_id != id,
        first_with_id(fmts, id) is None ==> forall|j: int| 0 <= j < fmts.len() ==> (#[trigger] fmts[j]).num_fmt_id != id,
    decreases fmts.len()
{
    if fmts.len() > 0 && fmts[0].num_fmt_id != id {
        lemma_first_with_id(fmts.drop_first(), id);
        assert forall|j: int| 0 < j < fmts.len() implies fmts[j] == fmts.drop_first()[j - 1] by {}
    }
}
/// appending an entry with an id no entry had leaves every other id's text alone and gives the new id the new text
pub proof fn lemma_push_fresh(fmts: Seq<NumFmt>, nf: NumFmt, id: i32)
    requires forall|j: int| 0 <= j < fmts.len() ==> (#[trigger] fmts[j]).num_fmt_id != nf.num_fmt_id
    ensures
        id != nf.num_fmt_id ==> num_fmt_of(id, fmts.push(nf)) == num_fmt_of(id, fmts),
        id == nf.num_fmt_id && nf.num_fmt_id >= NDEF ==> num_fmt_of(id, fmts.push(nf)) == nf.format_code@,
    decreases fmts.len()
{
    let g = fmts.push(nf);
    if fmts.len() == 0 {
        assert(g.drop_first().len() == 0);
    } else {
        assert(g.drop_first() =~= fmts.drop_first().push(nf));
        if fmts[0].num_fmt_id != id {
            lemma_push_fresh(fmts.drop_first(), nf, id);
        }
    }
    lemma_first_with_id(fmts, id);
    lemma_first_with_id(g, id);
}

/// growing a component pool (or none) keeps the invariant
pub proof fn lemma_wf_grow(a: &Styles, b: &Styles)
    requires a.wf(), b.cell_xfs == a.cell_xfs, b.cell_style_xfs == a.cell_style_xfs, b.num_fmts == a.num_fmts,
        a.fonts@.len() <= b.fonts@.len(), a.fills@.len() <= b.fills@.len(), a.borders@.len() <= b.borders@.len(),
    ensures b.wf()
{
    assert forall|i: int| 0 <= i < b.cell_xfs@.len() implies b.xf_ok(#[trigger] b.cell_xfs@[i]) by { assert(a.xf_ok(a.cell_xfs@[i])); }
}
/// registering a new number format under a fresh id keeps the invariant and every text already readable
pub proof fn lemma_wf_new_fmt(a: &Styles, b: &Styles, nf: NumFmt)
    requires a.wf(), b.cell_xfs == a.cell_xfs, b.cell_style_xfs == a.cell_style_xfs, b.fonts == a.fonts, b.fills == a.fills, b.borders == a.borders,
        b.num_fmts@ == a.num_fmts@.push(nf), nf.num_fmt_id >= NDEF,
        forall|k: int| 0 <= k < a.num_fmts@.len() ==> (#[trigger] a.num_fmts@[k]).num_fmt_id != nf.num_fmt_id,
    ensures b.wf(),
        forall|id: i32| (0 <= id < NDEF || first_with_id(a.num_fmts@, id) is Some) ==> #[trigger] num_fmt_of(id, b.num_fmts@) == num_fmt_of(id, a.num_fmts@),
        forall|id: i32| first_with_id(a.num_fmts@, id) is Some ==> #[trigger] first_with_id(b.num_fmts@, id) is Some,
        num_fmt_of(nf.num_fmt_id, b.num_fmts@) == nf.format_code@, first_with_id(b.num_fmts@, nf.num_fmt_id) is Some,
{
    assert forall|id: i32| first_with_id(a.num_fmts@, id) is Some implies (#[trigger] first_with_id(b.num_fmts@, id)) is Some by {
        lemma_first_with_id(a.num_fmts@, id);
        lemma_first_with_id(b.num_fmts@, id);
        let k = first_with_id(a.num_fmts@, id).unwrap();
        assert(b.num_fmts@[k] == a.num_fmts@[k]);
    }
    assert forall|id: i32| (0 <= id < NDEF || first_with_id(a.num_fmts@, id) is Some) implies #[trigger] num_fmt_of(id, b.num_fmts@) == num_fmt_of(id, a.num_fmts@) by {
        lemma_first_with_id(a.num_fmts@, id);
        lemma_push_fresh(a.num_fmts@, nf, id);
    }
    lemma_push_fresh(a.num_fmts@, nf, nf.num_fmt_id);
    lemma_first_with_id(b.num_fmts@, nf.num_fmt_id);
    if first_with_id(b.num_fmts@, nf.num_fmt_id) is None { assert(b.num_fmts@[a.num_fmts@.len() as int] == nf); }
    assert forall|i: int| 0 <= i < b.cell_xfs@.len() implies b.xf_ok(#[trigger] b.cell_xfs@[i]) by {
        let xf = a.cell_xfs@[i];
        assert(a.xf_ok(xf));
        if !(0 <= xf.num_fmt_id < NDEF) { assert(first_with_id(b.num_fmts@, xf.num_fmt_id) is Some); }
    }
    assert forall|k: int| 0 <= k < b.num_fmts@.len() implies (#[trigger] b.num_fmts@[k]).num_fmt_id >= NDEF by { if k < a.num_fmts@.len() { assert(b.num_fmts@[k] == a.num_fmts@[k]); } }
    assert forall|j: int, k: int| 0 <= j < k < b.num_fmts@.len() implies (#[trigger] b.num_fmts@[j]).num_fmt_id != (#[trigger] b.num_fmts@[k]).num_fmt_id by {
        assert(b.num_fmts@[j] == a.num_fmts@[j]);
        if k < a.num_fmts@.len() { assert(b.num_fmts@[k] == a.num_fmts@[k]); }
    }
}

impl Styles {
    /// representation invariant: every component index a cell format uses exists; custom number-format ids are outside the built-in
    /// range and distinct; every number-format id in use is built-in or has its entry (so a fresh id cannot capture an old format)
    pub open spec fn wf(&self) -> bool {
        &&& forall|i: int| 0 <= i < self.cell_xfs@.len() ==> self.xf_ok(#[trigger] self.cell_xfs@[i])
        &&& forall|k: int| 0 <= k < self.num_fmts@.len() ==> (#[trigger] self.num_fmts@[k]).num_fmt_id >= NDEF
        &&& forall|j: int, k: int| 0 <= j < k < self.num_fmts@.len() ==> (#[trigger] self.num_fmts@[j]).num_fmt_id != (#[trigger] self.num_fmts@[k]).num_fmt_id
    }
    /// the tables are far from the i32 index limit (`len() as i32 - 1` is how new indices are computed); each call adds at most one entry per table
    pub open spec fn room(&self, k: int) -> bool {
        self.fonts@.len() + k < 0x7fff_0000 && self.fills@.len() + k < 0x7fff_0000 && self.borders@.len() + k < 0x7fff_0000
            && self.cell_xfs@.len() + k < 0x7fff_0000 && self.cell_style_xfs@.len() + k < 0x7fff_0000
    }
    pub open spec fn xf_ok(&self, xf: CellXfs) -> bool {
        0 <= xf.font_id < self.fonts@.len() && 0 <= xf.fill_id < self.fills@.len() && 0 <= xf.border_id < self.borders@.len()
            && (0 <= xf.num_fmt_id < NDEF || first_with_id(self.num_fmts@, xf.num_fmt_id) is Some)
    }
    /// what index i reads back as: the abstract view of the table
    pub open spec fn reads(&self, i: int, s: Style) -> bool {
        let xf = self.cell_xfs@[i];
        s.alignment == xf.alignment && s.num_fmt@ == num_fmt_of(xf.num_fmt_id, self.num_fmts@) && s.fill == self.fills@[xf.fill_id as int]
            && s.font == self.fonts@[xf.font_id as int] && s.border == self.borders@[xf.border_id as int] && s.quote_prefix == xf.quote_prefix
    }
    /// nothing an existing index reads back has changed
    pub open spec fn keeps_views(&self, old: &Styles) -> bool {
        &&& old.cell_xfs@.len() <= self.cell_xfs@.len()
        &&& forall|i: int, s: Style| 0 <= i < old.cell_xfs@.len() && #[trigger] old.reads(i, s) ==> self.reads(i, s)
        &&& forall|i: int| 0 <= i < old.cell_xfs@.len() ==> (#[trigger] self.cell_xfs@[i]).xf_id == old.cell_xfs@[i].xf_id
    }
    /// the component pools only grow
    pub open spec fn pools_extend(&self, old: &Styles) -> bool {
        &&& old.fonts@.len() <= self.fonts@.len() && forall|i: int| 0 <= i < old.fonts@.len() ==> #[trigger] self.fonts@[i] == old.fonts@[i]
        &&& old.fills@.len() <= self.fills@.len() && forall|i: int| 0 <= i < old.fills@.len() ==> #[trigger] self.fills@[i] == old.fills@[i]
        &&& old.borders@.len() <= self.borders@.len() && forall|i: int| 0 <= i < old.borders@.len() ==> #[trigger] self.borders@[i] == old.borders@[i]
        &&& forall|id: i32| (0 <= id < NDEF || first_with_id(old.num_fmts@, id) is Some) ==> #[trigger] num_fmt_of(id, self.num_fmts@) == num_fmt_of(id, old.num_fmts@)
        &&& forall|id: i32| first_with_id(old.num_fmts@, id) is Some ==> #[trigger] first_with_id(self.num_fmts@, id) is Some
    }

//@fn base/src/styles.rs Styles::get_font_index
//@spec
    requires self.wf(), self.room(0)
    ensures r matches Some(i) ==> 0 <= i < self.fonts@.len() && self.fonts@[i as int] == *font
//@rewrite `-> Option<i32> {` => `-> (r: Option<i32>) {`
//@forwhile 1
//@loop 1
            invariant self.wf(), self.room(0), __font_index <= self.fonts@.len()
            decreases self.fonts@.len() - __font_index
//@end
//@fn base/src/styles.rs Styles::get_fill_index
//@spec
    requires self.wf(), self.room(0)
    ensures r matches Some(i) ==> 0 <= i < self.fills@.len() && self.fills@[i as int] == *fill
//@rewrite `-> Option<i32> {` => `-> (r: Option<i32>) {`
//@forwhile 1
//@loop 1
            invariant self.wf(), self.room(0), __fill_index <= self.fills@.len()
            decreases self.fills@.len() - __fill_index
//@end
//@fn base/src/styles.rs Styles::get_border_index
//@spec
    requires self.wf(), self.room(0)
    ensures r matches Some(i) ==> 0 <= i < self.borders@.len() && self.borders@[i as int] == *border
//@rewrite `-> Option<i32> {` => `-> (r: Option<i32>) {`
//@forwhile 1
//@loop 1
            invariant self.wf(), self.room(0), __border_index <= self.borders@.len()
            decreases self.borders@.len() - __border_index
//@end
//@fn base/src/styles.rs Styles::get_num_fmt_index
//@spec
    requires self.wf()
    ensures r matches Some(id) ==> num_fmt_of(id, self.num_fmts@) == format_code@ && (0 <= id < NDEF || first_with_id(self.num_fmts@, id) is Some)
//@rewrite `-> Option<i32> {` => `-> (r: Option<i32>) {`
//@rewrite* `item.format_code == format_code` => `text_eq(&item.format_code, format_code)`
//@after `if let Some(index) = get_default_num_fmt_id(format_code) {`
            proof { lemma_first_with_id(self.num_fmts@, index); }
//@loop 1 it
            invariant self.wf()
//@after? `if text_eq(&item.format_code, format_code) {`
                proof { lemma_first_with_id(self.num_fmts@, item.num_fmt_id); }
//@end

//@fn base/src/styles.rs Styles::get_or_create_component_ids
//@spec
    requires old(self).wf(), old(self).room(1)
    ensures
        final(self).wf(), final(self).pools_extend(old(self)),
        final(self).fonts@.len() <= old(self).fonts@.len() + 1 && final(self).fills@.len() <= old(self).fills@.len() + 1 && final(self).borders@.len() <= old(self).borders@.len() + 1,
        final(self).cell_xfs == old(self).cell_xfs, final(self).cell_style_xfs == old(self).cell_style_xfs,
        final(self).cell_styles == old(self).cell_styles, final(self).dxfs == old(self).dxfs,
        // the ids answer for exactly the components of `style`
        0 <= r.1 < final(self).fonts@.len() && final(self).fonts@[r.1 as int] == style.font,
        0 <= r.2 < final(self).fills@.len() && final(self).fills@[r.2 as int] == style.fill,
        0 <= r.3 < final(self).borders@.len() && final(self).borders@[r.3 as int] == style.border,
        num_fmt_of(r.0, final(self).num_fmts@) == style.num_fmt@ && (0 <= r.0 < NDEF || first_with_id(final(self).num_fmts@, r.0) is Some),
//@rewrite `-> (i32, i32, i32, i32) {` => `-> (r: (i32, i32, i32, i32)) {`
//@rewrite* `format_code: num_fmt.to_string(),` => `format_code: num_fmt.clone(),`
//@before `self.fonts.push(`
            let ghost g1 = *self;
//@afterstmt `self.fonts.push(`
            proof { lemma_wf_grow(&g1, &*self); }
//@before `self.fills.push(`
            let ghost g2 = *self;
//@afterstmt `self.fills.push(`
            proof { lemma_wf_grow(&g2, &*self); }
//@before `self.borders.push(`
            let ghost g3 = *self;
//@afterstmt `self.borders.push(`
            proof { lemma_wf_grow(&g3, &*self); }
//@afterstmt `let border_id = `
        let ghost g4 = *self;
        proof { assert(g4.pools_extend(old(self))); }
//@before `self.num_fmts.push(NumFmt {`
            let ghost g5 = *self;
//@before `(num_fmt_id, font_id, fill_id, border_id)`
        proof {
            if self.num_fmts@.len() != g4.num_fmts@.len() {
                lemma_wf_new_fmt(&g4, &*self, self.num_fmts@.last());
            }
        }
//@end

/// a new anonymous cell format: its index reads back as exactly `style`; every existing index reads back as before
//@fn base/src/styles.rs Styles::create_new_style
//@spec
    requires old(self).wf(), old(self).room(1)
    ensures final(self).wf(), final(self).keeps_views(old(self)), final(self).room(0),
        r as int == old(self).cell_xfs@.len() && final(self).cell_xfs@.len() == old(self).cell_xfs@.len() + 1,
        final(self).reads(r as int, *style), final(self).cell_xfs@[r as int].xf_id == 0,
//@rewrite `-> i32 {` => `-> (r: i32) {`
//@after `self.get_or_create_component_ids(style);`
        let ghost g1 = *self;
        proof { lemma_reads_kept(old(self), &g1); }
//@end

//@fn base/src/styles.rs Styles::get_style_index
//@spec
    requires self.wf(), self.room(0)
    ensures r matches Some(i) ==> 0 <= i < self.cell_xfs@.len() && self.reads(i as int, *style) && self.cell_xfs@[i as int].xf_id == 0
//@rewrite `-> Option<i32> {` => `-> (r: Option<i32>) {`
//@forwhile 1
//@loop 1
            invariant self.wf(), self.room(0), __index <= self.cell_xfs@.len()
            decreases self.cell_xfs@.len() - __index
//@after `let cell_xf = &self.cell_xfs[__index]; __index += 1;`
            proof { assert(self.xf_ok(self.cell_xfs@[index as int])); }
//@end

/// C30: the index answered for `style` reads back as `style`, and no other index changes what it reads back
//@fn base/src/styles.rs Styles::get_style_index_or_create
//@spec
    requires old(self).wf(), old(self).room(1)
    ensures final(self).wf(), final(self).keeps_views(old(self)), final(self).room(0),
        0 <= r < final(self).cell_xfs@.len() && final(self).reads(r as int, *style),
//@rewrite `-> i32 {` => `-> (r: i32) {`
//@end

/// the same style with the quote-prefix flag set / cleared / another number format: the answered index reads back as exactly that
//@fn base/src/styles.rs Styles::get_style_with_quote_prefix
//@spec
    requires old(self).wf(), old(self).room(1), 0 <= index
    ensures final(self).wf(), final(self).keeps_views(old(self)),
        r matches Ok(j) ==> 0 <= j < final(self).cell_xfs@.len() && (forall|s: Style| old(self).reads(index as int, s) ==> #[trigger] final(self).reads(j as int, Style { quote_prefix: true, ..s })),
//@rewrite `-> Result<i32, String> {` => `-> (r: Result<i32, String>) {`
//@end
//@fn base/src/styles.rs Styles::get_style_without_quote_prefix
//@spec
    requires old(self).wf(), old(self).room(1), 0 <= index
    ensures final(self).wf(), final(self).keeps_views(old(self)),
        r matches Ok(j) ==> 0 <= j < final(self).cell_xfs@.len() && (forall|s: Style| old(self).reads(index as int, s) ==> #[trigger] final(self).reads(j as int, Style { quote_prefix: false, ..s })),
//@rewrite `-> Result<i32, String> {` => `-> (r: Result<i32, String>) {`
//@end
//@fn base/src/styles.rs Styles::style_is_quote_prefix
//@spec
    requires 0 <= index < self.cell_xfs@.len()      // call-site fact: the index comes from a cell of this workbook (C27: style indices exist)
    ensures forall|s: Style| self.reads(index as int, s) ==> r == s.quote_prefix
//@rewrite `-> bool {` => `-> (r: bool) {`
//@end
//@fn base/src/styles.rs Styles::get_style
//@spec
    requires self.wf()
    ensures 0 <= index < self.cell_xfs@.len() ==> r.is_ok(),
            0 <= index && r.is_ok() ==> index < self.cell_xfs@.len(),
            // (a negative index is cast to usize first; Verus leaves that wrap-around unspecified, so nothing is claimed for it)
            0 <= index ==> (r matches Ok(s) ==> self.reads(index as int, s)),
//@rewrite `-> Result<Style, String> {` => `-> (r: Result<Style, String>) {`
//@before `let border_id = cell_xf.border_id as usize;`
        proof { if 0 <= index { assert(self.xf_ok(self.cell_xfs@[index as int])); } }
//@end
}
// ---- named styles: update_named_style rejects every bad request BEFORE it touches the table (C04), and its last step cannot fail ----
pub open spec fn has_name(cs: Seq<CellStyles>, n: Seq<char>) -> bool { exists|k: int| 0 <= k < cs.len() && (#[trigger] cs[k]).name@ == n }
/// `name != new_name` on &str
#[verifier::external_body]
pub fn str_ne(a: &str, b: &str) -> (r: bool) ensures r == (a@ != b@) { a != b }
impl Styles {
//@fn base/src/styles.rs Styles::get_xf_id_by_name
//@spec
    ensures r.is_ok() == has_name(self.cell_styles@, style_name@),
            r matches Ok(x) ==> exists|k: int| 0 <= k < self.cell_styles@.len() && (#[trigger] self.cell_styles@[k]).name@ == style_name@ && self.cell_styles@[k].xf_id == x,
//@rewrite `-> Result<i32, String> {` => `-> (r: Result<i32, String>) {`
//@rewrite* `cell_style.name == style_name` => `text_eq(&cell_style.name, style_name)`
//@loop 1 it
            invariant forall|k: int| 0 <= k < it.index@ ==> (#[trigger] self.cell_styles@[k]).name@ != style_name@
//@end
//@stub base/src/styles.rs Styles::is_builtin_style
//@end
// ASSUMED (iter_mut().find(closure) is outside Verus): renaming fails only when the old name is unknown, and touches only cell_styles
//@stub base/src/styles.rs Styles::rename_named_style_entry
    ensures has_name(old(self).cell_styles@, style_name@) ==> r.is_ok()
//@end
}
/// update_named_style up to its first mutation: every Err leaves the table untouched; what gets past is a known, modifiable style, a
/// new name that is free (or the same name), and an xf id that exists
pub fn update_named_style_validated_prefix(styles: &mut Styles, name: &str, new_name: &str) -> (r: Result<i32, String>)
    ensures *final(styles) == *old(styles),
        r matches Ok(x) ==> has_name(old(styles).cell_styles@, name@) && (name@ == new_name@ || !has_name(old(styles).cell_styles@, new_name@))
            && 0 <= x < old(styles).cell_style_xfs@.len(),
{
//@fragment base/src/styles.rs Model::update_named_style `if styles.is_builtin_style(name) {` .. `return Err(format!("Style '{name}' points to an invalid xf id"));`
//@rewrite* `name != new_name` => `str_ne(name, new_name)`
//@end
    Ok(xf_id)
}
/// ... and its last step: the rename cannot fail once the old name is known (D2: the rewrite of the records in between does not touch cell_styles)
pub fn update_named_style_rename_tail(styles: &mut Styles, name: &str, new_name: &str) -> (r: Result<(), String>)
    requires has_name(old(styles).cell_styles@, name@)
    ensures r.is_ok()
{
//@fragment base/src/styles.rs Model::update_named_style `if name != new_name {` .. `styles.rename_named_style_entry(name, new_name)?;`
//@rewrite* `name != new_name` => `str_ne(name, new_name)`
//@end
    Ok(())
}

// ---- the cell side: every kind of cell carries its style index in `s` ----
#[verifier::external_body] pub struct Error { _o: u8 }
//@type base/src/types.rs FormulaValue
//@type base/src/types.rs SpillValue
//@type base/src/types.rs ArrayKind
//@type base/src/types.rs Cell
pub open spec fn cell_style(c: Cell) -> i32 {
    match c {
        Cell::EmptyCell { s } => s, Cell::BooleanCell { s, .. } => s, Cell::NumberCell { s, .. } => s, Cell::ErrorCell { s, .. } => s,
        Cell::SharedString { s, .. } => s, Cell::CellFormula { s, .. } => s, Cell::ArrayFormula { s, .. } => s, Cell::SpillCell { s, .. } => s,
    }
}
impl Cell {
// (Cell::set_style is not under contract: Verus rejects an or-pattern that binds by mutable reference)
//@fn base/src/cell.rs Cell::get_style
//@spec
    ensures r == cell_style(*self)
//@rewrite `-> i32 {` => `-> (r: i32) {`
//@end
}
// ---- Model::set_cell_style: the index stored in the cell reads back as the style that was set; every other index keeps its reading ----
#[verifier::external_body] pub struct WorksheetRest { _o: u8 }
#[verifier::external_body] pub struct WorkbookRest { _o: u8 }
#[verifier::external_body] pub struct ModelRest { _o: u8 }
pub struct Worksheet { pub rest: WorksheetRest }
pub struct Workbook { pub worksheets: Vec<Worksheet>, pub styles: Styles, pub rest: WorkbookRest }
pub struct Model { pub workbook: Workbook, pub rest: ModelRest }
impl Worksheet {
    /// ghost: the style index stored for a cell position
    pub uninterp spec fn stored(&self, row: int, column: int) -> i32;
//@stub base/src/worksheet.rs Worksheet::set_cell_style
    ensures r.is_ok() ==> final(self).stored(row as int, column as int) == style_index
//@end
}
impl Workbook {
//@stub base/src/workbook.rs Workbook::worksheet_mut
    ensures r.is_ok() == ((worksheet_index as int) < old(self).worksheets@.len()),
            r.is_err() ==> *final(self) == *old(self),
            r.is_ok() ==> *r.unwrap() == old(self).worksheets@[worksheet_index as int]
                && final(self).worksheets@ == old(self).worksheets@.update(worksheet_index as int, *final(r.unwrap()))
                && final(self).styles == old(self).styles && final(self).rest == old(self).rest
//@end
}
impl Model {
//@fn base/src/styles.rs Model::set_cell_style
//@spec
    requires old(self).workbook.styles.wf(), old(self).workbook.styles.room(1)
    ensures final(self).workbook.styles.wf(), final(self).workbook.styles.keeps_views(&old(self).workbook.styles),
        r.is_ok() ==> (sheet as int) < final(self).workbook.worksheets@.len()
            && 0 <= final(self).workbook.worksheets@[sheet as int].stored(row as int, column as int) < final(self).workbook.styles.cell_xfs@.len()
            && final(self).workbook.styles.reads(final(self).workbook.worksheets@[sheet as int].stored(row as int, column as int) as int, *style),
//@rewrite `) -> Result<(), String> {` => `) -> (r: Result<(), String>) {`
//@end
}

/// what an index reads back depends only on its own record and on pool entries that are kept
pub proof fn lemma_reads_kept(a: &Styles, b: &Styles)
    requires a.wf(), b.pools_extend(a), b.cell_xfs == a.cell_xfs
    ensures forall|i: int, s: Style| 0 <= i < a.cell_xfs@.len() && #[trigger] a.reads(i, s) ==> b.reads(i, s)
{
    assert forall|i: int, s: Style| 0 <= i < a.cell_xfs@.len() && #[trigger] a.reads(i, s) implies b.reads(i, s) by {
        assert(a.xf_ok(a.cell_xfs@[i]));
    }
}
/// two styles that differ never end up behind one index: what an index reads back is one style
pub proof fn lemma_no_sharing(t: &Styles, i: int, a: Style, b: Style)
    requires t.reads(i, a), t.reads(i, b)
    ensures style_eq(a, b)
{}

} // verus!
fn main() {}
