// Undo of a sheet deletion puts back EVERYTHING the sheet carried (C01): after the re-insertion, every attribute of the restored worksheet that the
// deletion took away — row and column descriptors, grid lines, frozen panes, visibility, tab colour, merged cells, shared formulas, comments,
// conditional formats and hyperlinks — equals the one saved in the undo entry.  The field-by-field restore of the DeleteSheet undo arm, verbatim.
use vstd::prelude::*;
verus! {
// the attribute types as opaque values whose `clone` yields an equal value (A-clone)
#[verifier::external_body] pub struct RowsT { _o: u8 }
impl Clone for RowsT { #[verifier::external_body] fn clone(&self) -> (r: Self) ensures r == *self { unimplemented!() } }
#[verifier::external_body] pub struct ColsT { _o: u8 }
impl Clone for ColsT { #[verifier::external_body] fn clone(&self) -> (r: Self) ensures r == *self { unimplemented!() } }
#[verifier::external_body] pub struct StateT { _o: u8 }
impl Clone for StateT { #[verifier::external_body] fn clone(&self) -> (r: Self) ensures r == *self { unimplemented!() } }
#[verifier::external_body] pub struct ColorT { _o: u8 }
impl Clone for ColorT { #[verifier::external_body] fn clone(&self) -> (r: Self) ensures r == *self { unimplemented!() } }
#[verifier::external_body] pub struct MergeT { _o: u8 }
impl Clone for MergeT { #[verifier::external_body] fn clone(&self) -> (r: Self) ensures r == *self { unimplemented!() } }
#[verifier::external_body] pub struct SharedT { _o: u8 }
impl Clone for SharedT { #[verifier::external_body] fn clone(&self) -> (r: Self) ensures r == *self { unimplemented!() } }
#[verifier::external_body] pub struct CommentsT { _o: u8 }
impl Clone for CommentsT { #[verifier::external_body] fn clone(&self) -> (r: Self) ensures r == *self { unimplemented!() } }
#[verifier::external_body] pub struct CfT { _o: u8 }
impl Clone for CfT { #[verifier::external_body] fn clone(&self) -> (r: Self) ensures r == *self { unimplemented!() } }
#[verifier::external_body] pub struct LinksT { _o: u8 }
impl Clone for LinksT { #[verifier::external_body] fn clone(&self) -> (r: Self) ensures r == *self { unimplemented!() } }
#[verifier::external_body] pub struct SheetDataT { _o: u8 }
impl Clone for SheetDataT { #[verifier::external_body] fn clone(&self) -> (r: Self) ensures r == *self { unimplemented!() } }
#[verifier::external_body] pub struct ViewsT { _o: u8 }
impl Clone for ViewsT { #[verifier::external_body] fn clone(&self) -> (r: Self) ensures r == *self { unimplemented!() } }
/// context shell (D5): every field of types::Worksheet, by name
pub struct Worksheet {
    pub dimension: String, pub cols: ColsT, pub rows: RowsT, pub name: String, pub sheet_data: SheetDataT, pub shared_formulas: SharedT, pub sheet_id: u32,
    pub state: StateT, pub color: ColorT, pub merge_cells: MergeT, pub comments: CommentsT, pub frozen_rows: i32, pub frozen_columns: i32, pub views: ViewsT,
    pub show_grid_lines: bool, pub conditional_formatting: CfT, pub links: LinksT,
}
pub fn undo_delete_sheet_restore(worksheet: &mut Worksheet, old_data: &Box<Worksheet>)
    ensures
        final(worksheet).rows == old_data.rows, final(worksheet).cols == old_data.cols, final(worksheet).show_grid_lines == old_data.show_grid_lines,
        final(worksheet).frozen_columns == old_data.frozen_columns, final(worksheet).frozen_rows == old_data.frozen_rows,
        final(worksheet).state == old_data.state, final(worksheet).color == old_data.color, final(worksheet).merge_cells == old_data.merge_cells,
        final(worksheet).shared_formulas == old_data.shared_formulas,
        // C01: nothing the sheet carried is lost by delete + undo
        final(worksheet).comments == old_data.comments, final(worksheet).conditional_formatting == old_data.conditional_formatting, final(worksheet).links == old_data.links,
{
//@fragment base/src/user_model/undo_redo.rs UserModel::apply_undo_diff_list `worksheet.rows = old_data.rows.clone();` ..< `self.model.reset_parsed_structures();`
//@end
}
} // verus!
fn main() {}
