// Conditional formats under insert / delete / move: EVERY rule of the sheet (that has a readable anchor) gets its range displaced AND is handed
// to the rule-formula rewriter — whether or not its own range moved — and what is written back at index i is what was computed for index i.
// (C33: "conditional-format ranges and rule formulas move with the cells they belong to ... exactly as cell formulas do")
use vstd::prelude::*;
verus! {
//@type base/src/expressions/parser/stringify.rs DisplaceData
#[verifier::external_body] pub struct CfRule { _o: u8 }
impl Clone for CfRule { #[verifier::external_body] fn clone(&self) -> (r: Self) ensures r == *self { unimplemented!() } }
// context shells (D5)
pub struct ConditionalFormatting { pub range: String, pub cf_rule: CfRule }
pub struct Worksheet { pub conditional_formatting: Vec<ConditionalFormatting> }
pub struct Workbook { pub worksheets: Vec<Worksheet> }
pub struct Model { pub workbook: Workbook }
pub uninterp spec fn sq(old: Seq<char>, d: DisplaceData, sheet: u32) -> Seq<char>;      // what displace_cf_sqref answers (string code, unit refshift covers its corners)
pub uninterp spec fn anchor_of(range: Seq<char>) -> Option<(i32, i32)>;
#[verifier::external_body]
pub fn displace_cf_sqref(sqref: &str, displace_data: &DisplaceData, sheet: u32) -> (r: String) ensures r@ == sq(sqref@, *displace_data, sheet) { unimplemented!() }
#[verifier::external_body]
pub fn cf_sqref_anchor(sqref: &str) -> (r: Option<(i32, i32)>) ensures r == anchor_of(sqref@) { unimplemented!() }

impl Model {
/// phase 1 of displace_cf_ranges: the work list
#[verifier::loop_isolation(false)]
pub fn cf_collect(&self, sheet: u32, displace_data: &DisplaceData, count: usize) -> (phase1: Vec<(usize, String, CfRule, i32, i32)>)
    requires (sheet as int) < self.workbook.worksheets@.len(), count == self.workbook.worksheets@[sheet as int].conditional_formatting@.len()
    ensures
        // every rule with an anchor is in the list, once, with ITS displaced range, ITS rule and ITS anchor — no rule is skipped
        forall|i: int| 0 <= i < count && anchor_of(self.workbook.worksheets@[sheet as int].conditional_formatting@[i].range@) is Some ==>
            exists|k: int| 0 <= k < phase1@.len() && #[trigger] entry_for(phase1@[k], self.workbook.worksheets@[sheet as int].conditional_formatting@[i], i, *displace_data, sheet),
        forall|k: int| 0 <= k < phase1@.len() ==> 0 <= (#[trigger] phase1@[k]).0 < count
            && entry_for(phase1@[k], self.workbook.worksheets@[sheet as int].conditional_formatting@[phase1@[k].0 as int], phase1@[k].0 as int, *displace_data, sheet),
{
//@fragment base/src/actions.rs Model::displace_cf_ranges `let mut phase1: Vec<(usize, String, CfRule, i32, i32)> = ` .. `phase1.push((idx, new_range, rule, anchor_row, anchor_col));`
//@forwhile 1
//@loop 1
            invariant __idx <= count,
                forall|i: int| 0 <= i < __idx && anchor_of(self.workbook.worksheets@[sheet as int].conditional_formatting@[i].range@) is Some ==>
                    exists|k: int| 0 <= k < phase1@.len() && #[trigger] entry_for(phase1@[k], self.workbook.worksheets@[sheet as int].conditional_formatting@[i], i, *displace_data, sheet),
                forall|k: int| 0 <= k < phase1@.len() ==> 0 <= (#[trigger] phase1@[k]).0 < count
                    && entry_for(phase1@[k], self.workbook.worksheets@[sheet as int].conditional_formatting@[phase1@[k].0 as int], phase1@[k].0 as int, *displace_data, sheet),
            decreases count - __idx
//@before `phase1.push((idx, new_range, rule, anchor_row, anchor_col))`
                let ghost p0 = phase1@;
//@afterstmt `phase1.push((idx, new_range, rule, anchor_row, anchor_col))`
                proof {
                    let cfs = self.workbook.worksheets@[sheet as int].conditional_formatting@;
                    assert(entry_for(phase1@[phase1@.len() - 1], cfs[idx as int], idx as int, *displace_data, sheet));
                    assert forall|i: int| 0 <= i < __idx && anchor_of(cfs[i].range@) is Some implies
                        exists|k: int| 0 <= k < phase1@.len() && #[trigger] entry_for(phase1@[k], cfs[i], i, *displace_data, sheet) by {
                        if i < idx {
                            let k0 = choose|k: int| 0 <= k < p0.len() && #[trigger] entry_for(p0[k], cfs[i], i, *displace_data, sheet);
                            assert(phase1@[k0] == p0[k0]);
                        }
                    }
                }
//@end
    phase1
}
}
pub open spec fn entry_for(e: (usize, String, CfRule, i32, i32), cf: ConditionalFormatting, i: int, d: DisplaceData, sheet: u32) -> bool {
    e.0 == i && e.1@ == sq(cf.range@, d, sheet) && e.2 == cf.cf_rule && anchor_of(cf.range@) == Some((e.3, e.4))
}
} // verus!
fn main() {}
