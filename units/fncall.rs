// Function calls are printed as name(arg1 SEP arg2 SEP ...) with every argument in order and the locale's separator between any two (C09, C10, C16):
// stringify::format_function and move_formula::move_function, whole functions, verbatim.  As in unit parens, `format!` is a local macro that records
// the structure of the text; the `String` these two functions build is read as the structure-recording type Txt below.
use vstd::prelude::*;
use vstd::string::*;
macro_rules! format {
    ("{}{}{}", $a:expr, $k:expr, $b:expr $(,)?) => { more($a, $k, $b) };
    ("{},{}", $a:expr, $b:expr $(,)?) => { more($a, ',', $b) };          // a separator written into the format string is read as that character
    ("{};{}", $a:expr, $b:expr $(,)?) => { more($a, ';', $b) };
}
verus! {
#[verifier::external_body] pub struct Node { _o: u8 }
#[verifier::external_body] pub struct CellReferenceRC { _o: u8 }
#[verifier::external_body] pub struct DisplaceData { _o: u8 }
#[verifier::external_body] pub struct MoveContext { _o: u8 }
#[verifier::external_body] pub struct LocaleRest { _o: u8 }
#[verifier::external_body] pub struct Language { _o: u8 }
//@type base/src/locale/mod.rs NumbersSymbols
pub struct NumbersProperties { pub symbols: NumbersSymbols, pub rest: LocaleRest }     // context shell (D5)
pub struct Locale { pub numbers: NumbersProperties, pub rest: LocaleRest }             // context shell (D5)
pub trait VerifIs { fn verif_is(&self, lit: &str) -> (r: bool); }
impl VerifIs for String {
    #[verifier::external_body]
    fn verif_is(&self, lit: &str) -> (r: bool) ensures r == (self@ == lit@) { self == lit }
}
/// structure of an argument list: nothing yet, the text of one node, or list SEP node
pub enum A { Empty, One(Node), More(Box<A>, char, Node) }
/// the text type of the two printers in this file (their `-> String` is read as this structure-recording type)
pub struct Txt { pub a: Ghost<A> }
pub struct Printed { pub name: Ghost<Seq<char>>, pub args: Ghost<A> }
pub fn empty() -> (r: Txt) ensures r.a@ == A::Empty { Txt { a: Ghost(A::Empty) } }
pub fn more(a: Txt, sep: char, b: Txt) -> (r: Txt)
    requires b.a@ is One
    ensures r.a@ == A::More(Box::new(a.a@), sep, b.a@->One_0)
{ Txt { a: Ghost(A::More(Box::new(a.a@), sep, b.a@->One_0)) } }
pub fn named(name: &str, arguments: Txt) -> (r: Printed) ensures r.name@ == name@, r.args@ == arguments.a@ { Printed { name: Ghost(name@), args: Ghost(arguments.a@) } }
/// args[0] SEP args[1] SEP ... SEP args[n-1]
pub open spec fn list(args: Seq<Node>, n: int, sep: char) -> A
    decreases n
{
    if n <= 0 { A::Empty } else if n == 1 { A::One(args[0]) } else { A::More(Box::new(list(args, n - 1, sep)), sep, args[n - 1]) }
}
pub open spec fn locale_sep(l: &Locale) -> char { if l.numbers.symbols.decimal@ == "."@ { ',' } else { ';' } }
#[verifier::external_body]
pub fn stringify(node: &Node, context: Option<&CellReferenceRC>, displace_data: &DisplaceData, export_to_excel: bool, locale: &Locale, language: &Language) -> (r: Txt)
    ensures r.a@ == A::One(*node) { unimplemented!() }
#[verifier::external_body]
pub fn to_string_moved(node: &Node, move_context: &MoveContext, locale: &Locale, language: &Language) -> (r: Txt)
    ensures r.a@ == A::One(*node) { unimplemented!() }

//@fn base/src/expressions/parser/stringify.rs format_function
//@attr
#[verifier::loop_isolation(false)]
//@spec
    ensures r.name@ == name@, r.args@ == list(args@, args@.len() as int, locale_sep(locale))
//@rewrite `) -> String {` => `) -> (r: Printed) {`
//@rewrite `let mut arguments = "".to_string();` => `let mut arguments = empty();`
//@rewrite* `symbols.decimal == "."` => `symbols.decimal.verif_is(".")`
//@rewrite `for el in args {` => `for el in it: args.iter() {`
//@before `let mut first = true;`
    proof { reveal_strlit("."); }
//@rewrite `format!("{name}({arguments})")` => `named(name, arguments)`
//@loop 1
        invariant first == (it.index@ == 0), arguments.a@ == list(args@, it.index@, locale_sep(locale))
//@end
//@fn base/src/expressions/parser/move_formula.rs move_function
//@attr
#[verifier::loop_isolation(false)]
//@spec
    ensures r.name@ == name@, r.args@ == list(args@, args@.len() as int, locale_sep(locale))
//@rewrite `) -> String {` => `) -> (r: Printed) {`
//@rewrite `let mut arguments = "".to_string();` => `let mut arguments = empty();`
//@rewrite* `symbols.decimal == "."` => `symbols.decimal.verif_is(".")`
//@rewrite `for el in args {` => `for el in it: args.iter() {`
//@before `let mut first = true;`
    proof { reveal_strlit("."); }
//@rewrite `format!("{name}({arguments})")` => `named(name, arguments)`
//@loop 1
        invariant first == (it.index@ == 0), arguments.a@ == list(args@, it.index@, locale_sep(locale))
//@end
} // verus!
fn main() {}
