// Sheet-name quoting decision: a name containing any character that the formula lexer would not read as part of an
// unquoted sheet name — at ANY position, the first included — or starting with a digit, is quoted.   (C22)
use vstd::prelude::*;
verus! {
//@type base/src/expressions/types.rs ParsedReference
#[verifier::external_body]
pub fn parse_reference_a1(r: &str) -> (res: Option<ParsedReference>) { unimplemented!() }
#[verifier::external_body]
pub fn parse_reference_r1c1(r: &str) -> (res: Option<ParsedReference>) { unimplemented!() }
pub assume_specification [<char>::is_ascii_digit] (c: &char) -> (r: bool) ensures r == ('0' <= *c <= '9');

/// a str holds at most usize::MAX characters (its byte length already fits in usize) — assumed
#[verifier::external_body]
pub proof fn axiom_str_len_fits(s: &str) ensures s@.len() <= usize::MAX {}

pub open spec fn special(c: char) -> bool {
    c == ' ' || c == '(' || c == ')' || c == '\'' || c == '$' || c == ',' || c == ';' || c == '-' || c == '+' || c == '{' || c == '}'
}

//@fn base/src/expressions/utils/mod.rs name_needs_quoting
//@attr
#[verifier::loop_isolation(false)]
//@spec
    ensures
        (exists|k: int| 0 <= k < name@.len() && special(#[trigger] name@[k])) ==> r,
        name@.len() > 0 && '0' <= name@[0] <= '9' ==> r,
//@rewrite `-> bool {` => `-> (r: bool) {`
//@after `let chars = name.chars();`
    proof { axiom_str_len_fits(name); }
//@rewrite `for (i, char) in chars.enumerate() {` => `let mut __i: usize = 0; for char in chars { let i = __i; __i += 1;`
//@rewrite `if [' ', '(', ')', '\'', '$', ',', ';', '-', '+', '{', '}'].contains(&char) {` => `if is_special_char(char) {`
//@loop 1 it
        invariant
            __i == it.index@, it.index@ <= name@.len(), name@.len() <= usize::MAX,
            forall|k: int| 0 <= k < it.index@ ==> !special(#[trigger] name@[k]),
            it.index@ > 0 ==> !('0' <= name@[0] <= '9'),
//@before `if is_special_char(char) {`
        assert(char == name@[it.index@]);
//@end
// the array-literal membership test `[..].contains(&char)` is read as this function (R7, same literal set, checked below)
pub fn is_special_char(c: char) -> (r: bool) ensures r == special(c) {
    c == ' ' || c == '(' || c == ')' || c == '\'' || c == '$' || c == ',' || c == ';' || c == '-' || c == '+' || c == '{' || c == '}'
}

} // verus!
fn main() {}
