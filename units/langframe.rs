// Frame conditions of the language / locale / timezone switches of the engine: switching the display LANGUAGE touches nothing in the workbook
// (no stored formula, defined name, cell value or setting); switching the LOCALE or the TIMEZONE touches, in the workbook, only the setting itself
// before the engine re-evaluates — stored formulas and defined names are outside what these functions write.   (C10)
use vstd::prelude::*;
verus! {
#[verifier::external_body] pub struct Language { _o: u8 }
#[verifier::external_body] pub struct Locale { _o: u8 }
#[verifier::external_body] pub struct Tz { _o: u8 }
#[verifier::external_body] pub struct DefinedName { _o: u8 }
#[verifier::external_body] pub struct WorksheetRest { _o: u8 }
#[verifier::external_body] pub struct WorkbookRest { _o: u8 }
#[verifier::external_body] pub struct ModelRest { _o: u8 }
#[verifier::external_body] pub struct Parser<'a> { _p: core::marker::PhantomData<&'a u8> }
//@type base/src/types.rs WorkbookSettings
// context shells (D5): the fields these functions touch, the stored formulas and names they must not touch, an opaque rest
pub struct Worksheet { pub shared_formulas: Vec<String>, pub rest: WorksheetRest }
pub struct Workbook { pub worksheets: Vec<Worksheet>, pub defined_names: Vec<DefinedName>, pub settings: WorkbookSettings, pub rest: WorkbookRest }
pub struct Model<'a> { pub workbook: Workbook, pub parser: Parser<'a>, pub locale: &'a Locale, pub language: &'a Language, pub tz: Tz, pub rest: ModelRest }
impl<'a> Parser<'a> {
//@stub base/src/expressions/parser/mod.rs Parser::set_language
//@end
//@stub base/src/expressions/parser/mod.rs Parser::set_locale
//@end
}
//@stub base/src/language/mod.rs get_language
//@end
//@stub base/src/locale/mod.rs get_locale
//@end
pub mod tzshell {
    #[allow(unused_imports)] use super::*;
    impl Tz { #[verifier::external_body] pub fn parse(s: &str) -> (r: Result<Tz, String>) { unimplemented!() } }
}
#[verifier::external_body]
pub fn shim_to_string(s: &str) -> (r: String) ensures r@ == s@ { s.to_string() }
/// stored formulas and defined names
pub open spec fn same_formulas(a: &Workbook, b: &Workbook) -> bool {
    a.defined_names == b.defined_names && a.worksheets@.len() == b.worksheets@.len()
        && forall|i: int| 0 <= i < a.worksheets@.len() ==> (#[trigger] a.worksheets@[i]).shared_formulas == b.worksheets@[i].shared_formulas
}
impl<'a> Model<'a> {
    // ASSUMED (the evaluator is not under contract): evaluation writes values, never stored formulas, defined names or settings
    #[verifier::external_body]
    pub fn evaluate(&mut self)
        ensures same_formulas(&final(self).workbook, &old(self).workbook), final(self).workbook.settings == old(self).workbook.settings
    { unimplemented!() }
//@fn base/src/model.rs Model::set_language
//@spec
    ensures final(self).workbook == old(self).workbook,      // NOTHING in the workbook changes: formulas, names, values, settings
        r.is_err() ==> *final(self) == *old(self),
//@rewrite `-> Result<(), String> {` => `-> (r: Result<(), String>) {`
//@end
//@fn base/src/model.rs Model::set_locale
//@spec
    ensures same_formulas(&final(self).workbook, &old(self).workbook), final(self).workbook.settings.tz == old(self).workbook.settings.tz,
        r.is_err() ==> *final(self) == *old(self),
        r.is_ok() ==> final(self).workbook.settings.locale@ == locale_id@,
//@rewrite `-> Result<(), String> {` => `-> (r: Result<(), String>) {`
//@rewrite* `locale_id.to_string()` => `shim_to_string(locale_id)`
//@end
//@fn base/src/model.rs Model::set_timezone
//@spec
    ensures same_formulas(&final(self).workbook, &old(self).workbook), final(self).workbook.settings.locale == old(self).workbook.settings.locale,
        r.is_err() ==> *final(self) == *old(self),
        r.is_ok() ==> final(self).workbook.settings.tz@ == timezone@,
//@rewrite `-> Result<(), String> {` => `-> (r: Result<(), String>) {`
//@rewrite* `timezone.to_string()` => `shim_to_string(timezone)`
//@end
}
} // verus!
fn main() {}
