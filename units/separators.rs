// Printer / parser agreement on separators (C10, C16): at every site where a formula printer (stringify.rs for display, move_formula.rs for cut and
// paste) chooses the character that separates function arguments, LAMBDA parameters / call arguments, the elements of an array row or the rows of
// an array, that character is lexed — by the real arms of Lexer::next_token, in the SAME locale — as exactly the token the parser asks for at that
// position (Parser::get_argument_separator_token / get_column_separator_token), for EVERY locale (any decimal symbol).
use vstd::prelude::*;
use vstd::string::*;
verus! {
#[verifier::external_body] pub struct LocaleRest { _o: u8 }
#[verifier::external_body] pub struct LexerRest { _o: u8 }
#[verifier::external_body] pub struct ParserRest { _o: u8 }
#[verifier::external_body] pub struct Error { _o: u8 }
#[verifier::external_body] pub struct TableSpecifier { _o: u8 }
#[verifier::external_body] pub struct TableReference { _o: u8 }
//@type base/src/locale/mod.rs NumbersSymbols
pub struct NumbersProperties { pub symbols: NumbersSymbols, pub rest: LocaleRest }     // context shell (D5)
pub struct Locale { pub numbers: NumbersProperties, pub rest: LocaleRest }             // context shell (D5)
//@type base/src/expressions/lexer/mod.rs LexerError
//@type base/src/expressions/types.rs ParsedReference
//@type base/src/expressions/token.rs OpCompare
//@type base/src/expressions/token.rs OpSum
//@type base/src/expressions/token.rs OpProduct
//@type base/src/expressions/token.rs TokenType
pub struct Lexer<'a> { pub locale: &'a Locale, pub rest: LexerRest }                   // context shell (D5)
pub struct Parser<'a> { pub locale: &'a Locale, pub rest: ParserRest }                 // context shell (D5)

/// `<String> == "<literal>"`
pub trait VerifIs { fn verif_is(&self, lit: &str) -> (r: bool); }
impl VerifIs for String {
    #[verifier::external_body]
    fn verif_is(&self, lit: &str) -> (r: bool) ensures r == (self@ == lit@) { self == lit }
}
pub open spec fn dot(l: &Locale) -> bool { l.numbers.symbols.decimal@ == "."@ }
pub open spec fn comma(l: &Locale) -> bool { l.numbers.symbols.decimal@ == ","@ }
pub proof fn lemma_literals()
    ensures "."@ != ","@, ","@.len() == 1, ";"@.len() == 1, ","@[0] == ',', ";"@[0] == ';'
{
    reveal_strlit("."); reveal_strlit(","); reveal_strlit(";");
    assert("."@[0] == '.');
}

impl<'a> Lexer<'a> {
    #[verifier::external_body]
    fn consume_number(&mut self, c: char) -> (r: core::result::Result<f64, LexerError>) ensures final(self).locale == old(self).locale { unimplemented!() }

    /// the single-character arms of Lexer::next_token up to and including ',' (verbatim), None for every later arm
    pub fn lex_simple(&mut self, char: char) -> (r: Option<TokenType>)
        ensures
            final(self).locale == old(self).locale,
            char == ';' ==> r == Some(TokenType::Semicolon),
            char == '\\' ==> r == Some(TokenType::Backslash),
            char == ',' && !comma(old(self).locale) ==> r == Some(TokenType::Comma),
            char == ',' && comma(old(self).locale) ==> r != Some(TokenType::Comma),
            char == '/' ==> r == Some(TokenType::Product(OpProduct::Divide)),
    {
        let t = match char {
//@fragment base/src/expressions/lexer/mod.rs Lexer::next_token `'+' => TokenType::Addition(OpSum::Add),` ..< `'.' => {`
//@rewrite* `symbols.decimal == ","` => `symbols.decimal.verif_is(",")`
//@end
            _ => { return None; }
        };
        Some(t)
    }
}
impl<'a> Parser<'a> {
//@fn base/src/expressions/parser/mod.rs Parser::get_argument_separator_token
//@spec
    ensures r == (if dot(self.locale) { TokenType::Comma } else { TokenType::Semicolon })
//@rewrite `-> TokenType {` => `-> (r: TokenType) {`
//@rewrite* `symbols.decimal == "."` => `symbols.decimal.verif_is(".")`
//@end
//@fn base/src/expressions/parser/mod.rs Parser::get_column_separator_token
//@spec
    ensures r == (if dot(self.locale) { TokenType::Semicolon } else { TokenType::Backslash })
//@rewrite `-> TokenType {` => `-> (r: TokenType) {`
//@rewrite* `symbols.decimal == "."` => `symbols.decimal.verif_is(".")`
//@end
}
/// what the parser expects between two arguments / two elements of an array row, and between two array rows
pub open spec fn arg_token(l: &Locale) -> TokenType { if dot(l) { TokenType::Comma } else { TokenType::Semicolon } }
pub open spec fn row_token(l: &Locale) -> TokenType { if dot(l) { TokenType::Semicolon } else { TokenType::Backslash } }
/// a one-character separator given as &str (the LAMBDA arms use `parts.join(arg_sep)`)
pub fn sep_char(s: &str) -> (c: char) requires s@.len() == 1 ensures c == s@[0] { s.get_char(0) }
/// `<list>.join(sep)`: records the separator the site really joins with
pub fn site_join(sep: &str) -> (r: &str) ensures r == sep { sep }

// ------------------------------------------------------------------------------------------------ display printer (stringify.rs)
pub fn stringify_format_function(parser: &Parser, lexer: &mut Lexer, locale: &Locale)
    requires parser.locale == locale, old(lexer).locale == locale
{
    proof { lemma_literals(); }
//@fragment base/src/expressions/parser/stringify.rs format_function `let arg_separator = if locale.numbers.symbols.decimal` .. `};`
//@rewrite* `symbols.decimal == "."` => `symbols.decimal.verif_is(".")`
//@end
    let t = lexer.lex_simple(arg_separator);
    let e = parser.get_argument_separator_token();
    assert(t == Some(e));                                  // C10: the printed argument separator is read as the argument separator
}
pub fn stringify_array(parser: &Parser, lexer: &mut Lexer, locale: &Locale)
    requires parser.locale == locale, old(lexer).locale == locale
{
    proof { lemma_literals(); }
//@fragment base/src/expressions/parser/stringify.rs stringify `let row_separator = if locale.numbers.symbols.decimal` .. `let col_separator =`
//@rewrite* `symbols.decimal == "."` => `symbols.decimal.verif_is(".")`
//@end
    let t1 = lexer.lex_simple(row_separator);
    let t2 = lexer.lex_simple(col_separator);
    let e1 = parser.get_column_separator_token();          // (sic) the token parse_array loops on between ROWS
    let e2 = parser.get_argument_separator_token();        // the token parse_array_row loops on between elements
    assert(t1 == Some(e1));                                // C10: printed row separator is read as the row separator
    assert(t2 == Some(e2));
}
pub fn stringify_lambda_def(parser: &Parser, lexer: &mut Lexer, locale: &Locale, export_to_excel: bool)
    requires parser.locale == locale, old(lexer).locale == locale
{
    proof { lemma_literals(); }
    let joined: &str =
//@arm base/src/expressions/parser/stringify.rs stringify `LambdaDefKind { parameters, body } =>`
//@dropstmt `let mut parts: Vec<String> = parameters`
//@dropstmt `parts.push(stringify(`
//@rewrite `format!("{}({})", lambda_name, parts.join(` => `site_join((`
//@rewrite* `symbols.decimal == "."` => `symbols.decimal.verif_is(".")`
//@end
    ;
    let t = lexer.lex_simple(sep_char(joined));
    let e = parser.get_argument_separator_token();
    assert(t == Some(e));                                  // C10: LAMBDA parameters are joined with the argument separator
}
pub fn stringify_lambda_call(parser: &Parser, lexer: &mut Lexer, locale: &Locale)
    requires parser.locale == locale, old(lexer).locale == locale
{
    proof { lemma_literals(); }
    let joined: &str =
//@arm base/src/expressions/parser/stringify.rs stringify `LambdaCallKind { lambda, args } =>`
//@dropstmt `let lambda_str = match lambda.as_ref() {`
//@dropstmt `let call_args: Vec<String> = args`
//@rewrite `format!("{}({})", lambda_str, call_args.join(` => `site_join((`
//@rewrite* `symbols.decimal == "."` => `symbols.decimal.verif_is(".")`
//@end
    ;
    let t = lexer.lex_simple(sep_char(joined));
    let e = parser.get_argument_separator_token();
    assert(t == Some(e));                                  // C10: LAMBDA call arguments are joined with the argument separator
}
// ------------------------------------------------------------------------------------------------ cut-and-paste printer (move_formula.rs)
pub fn moved_function(parser: &Parser, lexer: &mut Lexer, locale: &Locale)
    requires parser.locale == locale, old(lexer).locale == locale
{
    proof { lemma_literals(); }
//@fragment base/src/expressions/parser/move_formula.rs move_function `let arg_separator = if locale.numbers.symbols.decimal` .. `};`
//@rewrite* `symbols.decimal == "."` => `symbols.decimal.verif_is(".")`
//@end
    let t = lexer.lex_simple(arg_separator);
    let e = parser.get_argument_separator_token();
    assert(t == Some(e));                                  // C16/C10: the moved formula keeps the locale's argument separator
}
pub fn moved_array(parser: &Parser, lexer: &mut Lexer, locale: &Locale)
    requires parser.locale == locale, old(lexer).locale == locale
{
    proof { lemma_literals(); }
//@fragment base/src/expressions/parser/move_formula.rs to_string_moved `let row_separator = if locale.numbers.symbols.decimal` .. `let col_separator =`
//@rewrite* `symbols.decimal == "."` => `symbols.decimal.verif_is(".")`
//@end
    let t1 = lexer.lex_simple(row_separator);
    let t2 = lexer.lex_simple(col_separator);
    let e1 = parser.get_column_separator_token();
    let e2 = parser.get_argument_separator_token();
    assert(t1 == Some(e1));
    assert(t2 == Some(e2));
}
pub fn moved_lambda_def(parser: &Parser, lexer: &mut Lexer, locale: &Locale)
    requires parser.locale == locale, old(lexer).locale == locale
{
    proof { lemma_literals(); }
    let joined: &str =
//@arm base/src/expressions/parser/move_formula.rs to_string_moved `LambdaDefKind { parameters, body } =>`
//@dropstmt `let mut parts: Vec<String> = parameters`
//@dropstmt `parts.push(to_string_moved(`
//@rewrite `format!("LAMBDA({})", parts.join(` => `site_join((`
//@rewrite* `symbols.decimal == "."` => `symbols.decimal.verif_is(".")`
//@end
    ;
    let t = lexer.lex_simple(sep_char(joined));
    let e = parser.get_argument_separator_token();
    assert(t == Some(e));
}
pub fn moved_lambda_call(parser: &Parser, lexer: &mut Lexer, locale: &Locale)
    requires parser.locale == locale, old(lexer).locale == locale
{
    proof { lemma_literals(); }
    let joined: &str =
//@arm base/src/expressions/parser/move_formula.rs to_string_moved `LambdaCallKind { lambda, args } =>`
//@dropstmt `let lambda_str = to_string_moved(`
//@dropstmt `let call_args: Vec<String> = args`
//@rewrite `format!("{}({})", lambda_str, call_args.join(` => `site_join((`
//@rewrite* `symbols.decimal == "."` => `symbols.decimal.verif_is(".")`
//@end
    ;
    let t = lexer.lex_simple(sep_char(joined));
    let e = parser.get_argument_separator_token();
    assert(t == Some(e));
}
} // verus!
fn main() {}
