// ---- std_specs.rs: assumed specifications of std functions without a vstd spec (trusted base, R3) ----
// Each states the documented std behaviour.
pub assume_specification<T, E> [std::result::Result::<T, E>::unwrap_or] (res: std::result::Result<T, E>, default: T) -> (r: T)
    ensures r == (match res { Ok(v) => v, Err(_) => default });
