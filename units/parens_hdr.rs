// ---- parens_hdr.rs: shared vocabulary of units parens / parensmoved (levels, text structure, the precedence table and the operand printers) ----
#[verifier::external_body] pub struct Function { _o: u8 }
#[verifier::external_body] pub struct NamedVariable { _o: u8 }
#[verifier::external_body] pub struct ArrayNode { _o: u8 }
#[verifier::external_body] pub struct DefinedNameS { _o: u8 }
#[verifier::external_body] pub struct ExpectedTokens { _o: u8 }
#[verifier::external_body] pub struct OpCompare { _o: u8 }
#[verifier::external_body] pub struct CellReferenceRC { _o: u8 }
#[verifier::external_body] pub struct DisplaceData { _o: u8 }
#[verifier::external_body] pub struct MoveContext { _o: u8 }
#[verifier::external_body] pub struct Locale { _o: u8 }
#[verifier::external_body] pub struct Language { _o: u8 }
//@type base/src/expressions/token.rs OpUnary
pub mod token {
    #[allow(unused_imports)] use super::*;
//@type base/src/expressions/token.rs OpSum
//@type base/src/expressions/token.rs OpProduct
    #[verifier::external_body] pub struct Error { _o: u8 }
}
pub use token::OpSum;
pub use token::OpProduct;
//@type base/src/expressions/parser/mod.rs Node
pub use Node::*;

/// grammar level of the rule that produces a node = how tightly its outermost operator binds (9: a primary)
pub open spec fn level(n: Node) -> int {
    match n {
        Node::CompareKind { .. } => 1,
        Node::OpConcatenateKind { .. } => 2,
        Node::OpSumKind { .. } => 3,
        Node::OpProductKind { .. } => 4,
        Node::OpPowerKind { .. } => 5,
        Node::UnaryKind { .. } => 6,
        Node::OpRangeKind { .. } => 7,
        Node::ImplicitIntersection { .. } => 8,
        Node::SpillRangeOperator { .. } => 8,
        _ => 9,
    }
}
/// structure of a printed text: a child's own text, a parenthesised text, operand-operator-operand, prefix / postfix operator, f(text)
pub enum T { Of(Node), Paren(Box<T>), Bin(Box<T>, Box<T>), Pre(Box<T>), Post(Box<T>), Call(Box<T>) }
pub struct Txt { pub t: Ghost<T> }
pub fn paren(x: Txt) -> (r: Txt) ensures r.t@ == T::Paren(Box::new(x.t@)) { Txt { t: Ghost(T::Paren(Box::new(x.t@))) } }
pub fn bin(a: Txt, b: Txt) -> (r: Txt) ensures r.t@ == T::Bin(Box::new(a.t@), Box::new(b.t@)) { Txt { t: Ghost(T::Bin(Box::new(a.t@), Box::new(b.t@))) } }
pub fn pre(x: Txt) -> (r: Txt) ensures r.t@ == T::Pre(Box::new(x.t@)) { Txt { t: Ghost(T::Pre(Box::new(x.t@))) } }
pub fn post(x: Txt) -> (r: Txt) ensures r.t@ == T::Post(Box::new(x.t@)) { Txt { t: Ghost(T::Post(Box::new(x.t@))) } }
pub fn call(x: Txt) -> (r: Txt) ensures r.t@ == T::Call(Box::new(x.t@)) { Txt { t: Ghost(T::Call(Box::new(x.t@))) } }
/// the operand `child`, printed where the parser reads an operand of level >= `required`, is either wrapped or binds tightly enough
pub open spec fn operand_ok(t: T, child: Node, required: int) -> bool {
    t == T::Paren(Box::new(T::Of(child))) || (t == T::Of(child) && level(child) >= required)
}
pub open spec fn bin_ok(t: T, left: Node, lreq: int, right: Node, rreq: int) -> bool {
    t matches T::Bin(l, r) && operand_ok(*l, left, lreq) && operand_ok(*r, right, rreq)
}
pub open spec fn pre_ok(t: T, child: Node, req: int) -> bool { t matches T::Pre(x) && operand_ok(*x, child, req) }
pub open spec fn post_ok(t: T, child: Node, req: int) -> bool { t matches T::Post(x) && operand_ok(*x, child, req) }

// the recursive calls: the text of the child (D5 stubs; what a child prints is the same function one level down)
#[verifier::external_body]
pub fn stringify(node: &Node, context: Option<&CellReferenceRC>, displace_data: &DisplaceData, export_to_excel: bool, locale: &Locale, language: &Language) -> (r: Txt)
    ensures r.t@ == T::Of(*node) { unimplemented!() }
#[verifier::external_body]
pub fn to_string_moved(node: &Node, move_context: &MoveContext, locale: &Locale, language: &Language) -> (r: Txt)
    ensures r.t@ == T::Of(*node) { unimplemented!() }

// ------------------------------------------------------------------------------------------------ the shared table and the two operand printers
//@fn base/src/expressions/parser/stringify.rs precedence
//@spec
    ensures r as int == level(*node)
//@rewrite `-> u8 {` => `-> (r: u8) {`
//@end
//@fn base/src/expressions/parser/stringify.rs stringify_operand
//@spec
    ensures operand_ok(r.t@, *node, level as int)
//@rewrite `) -> String {` => `) -> (r: Txt) {`
//@rewrite `format!("({s})")` => `paren(s)`
//@end
//@fn base/src/expressions/parser/move_formula.rs to_string_moved_operand
//@spec
    ensures operand_ok(r.t@, *node, level as int)
//@rewrite `) -> String {` => `) -> (r: Txt) {`
//@rewrite `format!("({s})")` => `paren(s)`
//@end
