// U-rowops: row descriptors of a worksheet against the abstract view.   (C29, C27)
use vstd::prelude::*;
use vstd::std_specs::ops::*;
use vstd::std_specs::cmp::*;
use vstd::std_specs::iter::IteratorSpec;
use std::collections::HashMap;
verus! {
pub mod f64_m {
    #[allow(unused_imports)] use super::*;
//@include std_f64.rs
}
pub use f64_m::*;
// f64 `/` and `*` never panic: available in EVERY function, wherever the arithmetic sits (not only after a hint anchored in today's text)
broadcast use f64_m::group_f64_total;
//@include std_specs.rs
//@include std_iter.rs
//@include ws_types.rs

pub open spec fn rows_wf(v: Seq<Row>) -> bool {
    forall|i: int, j: int| 0 <= i < j < v.len() ==> (#[trigger] v[i]).r != (#[trigger] v[j]).r
}
/// every row descriptor with r != except occurs unchanged in w
#[verifier::opaque]
pub open spec fn rows_sub(v: Seq<Row>, w: Seq<Row>, except: int) -> bool {
    forall|i: int| 0 <= i < v.len() && (#[trigger] v[i]).r != except ==> exists|j: int| 0 <= j < w.len() && #[trigger] w[j] == v[i]
}
pub open spec fn rows_same_except(v: Seq<Row>, w: Seq<Row>, except: int) -> bool {
    rows_sub(v, w, except) && rows_sub(w, v, except)
}
pub open spec fn has_row(v: Seq<Row>, x: int) -> bool { exists|i: int| 0 <= i < v.len() && (#[trigger] v[i]).r == x }
pub open spec fn row_idx(v: Seq<Row>, x: int) -> int { choose|i: int| 0 <= i < v.len() && (#[trigger] v[i]).r == x }
pub open spec fn row_at(v: Seq<Row>, x: int) -> Row { v[row_idx(v, x)] }

pub proof fn lemma_row_unique(v: Seq<Row>, x: int, i: int)
    requires rows_wf(v), 0 <= i < v.len(), v[i].r == x
    ensures has_row(v, x), row_idx(v, x) == i
{
    let j = row_idx(v, x);
    if j < i { assert(v[j].r != v[i].r); }
    if i < j { assert(v[i].r != v[j].r); }
}
pub proof fn lemma_rows_update(v: Seq<Row>, w: Seq<Row>, k: int, row: int)
    requires
        rows_wf(v), 0 <= k < v.len(), w.len() == v.len(), v[k].r == row, w[k].r == row,
        forall|i: int| 0 <= i < v.len() && i != k ==> w[i] == v[i],
    ensures rows_wf(w), rows_same_except(v, w, row), has_row(w, row), row_idx(w, row) == k, has_row(v, row), row_idx(v, row) == k
{
    reveal(rows_sub);
    assert forall|i: int, j: int| 0 <= i < j < w.len() implies (#[trigger] w[i]).r != (#[trigger] w[j]).r by {
        assert(v[i].r != v[j].r);
    }
    assert forall|i: int| 0 <= i < v.len() && (#[trigger] v[i]).r != row implies exists|j: int| 0 <= j < w.len() && #[trigger] w[j] == v[i] by {
        assert(w[i] == v[i]);
    }
    assert forall|i: int| 0 <= i < w.len() && (#[trigger] w[i]).r != row implies exists|j: int| 0 <= j < v.len() && #[trigger] v[j] == w[i] by {
        assert(v[i] == w[i]);
    }
    lemma_row_unique(w, row, k);
    lemma_row_unique(v, row, k);
}
pub proof fn lemma_rows_push(v: Seq<Row>, w: Seq<Row>, nr: Row)
    requires rows_wf(v), w =~= v.push(nr), forall|i: int| 0 <= i < v.len() ==> (#[trigger] v[i]).r != nr.r
    ensures rows_wf(w), rows_same_except(v, w, nr.r as int), has_row(w, nr.r as int), row_at(w, nr.r as int) == nr, !has_row(v, nr.r as int)
{
    reveal(rows_sub);
    assert forall|i: int| 0 <= i < v.len() && (#[trigger] v[i]).r != nr.r implies exists|j: int| 0 <= j < w.len() && #[trigger] w[j] == v[i] by {
        assert(w[i] == v[i]);
    }
    assert forall|i: int| 0 <= i < w.len() && (#[trigger] w[i]).r != nr.r implies exists|j: int| 0 <= j < v.len() && #[trigger] v[j] == w[i] by {
        assert(i < v.len()); assert(v[i] == w[i]);
    }
    lemma_row_unique(w, nr.r as int, v.len() as int);
}
pub proof fn lemma_rows_same(v: Seq<Row>, row: int)
    ensures rows_same_except(v, v, row)
{ reveal(rows_sub); }

impl Worksheet {

//@fn base/src/worksheet.rs Worksheet::is_row_hidden
//@attr
#[verifier::loop_isolation(false)]
//@spec
    requires rows_wf(self.rows@)
    ensures
        r.is_err() <==> !(1 <= row <= 1048576),
        r.is_ok() ==> r.unwrap() == (if has_row(self.rows@, row as int) { row_at(self.rows@, row as int).hidden } else { false }),
//@rewrite `-> Result<bool, String>` => `-> (r: Result<bool, String>)`
//@after `let rows = &self.rows;`
        proof { broadcast use group_f64_total; }
//@loop 1 it
            invariant
                forall|k: int| 0 <= k < it.index@ ==> (#[trigger] rows@[k]).r != row,
//@after `if r.r == row {`
                proof { lemma_row_unique(rows@, row as int, it.index@); }
//@end

//@fn base/src/worksheet.rs Worksheet::row_height
//@attr
#[verifier::loop_isolation(false)]
//@spec
    requires rows_wf(self.rows@)
    ensures
        r.is_err() <==> !(1 <= row <= 1048576),
        r.is_ok() ==> (if !has_row(self.rows@, row as int) { r.unwrap() == constants::DEFAULT_ROW_HEIGHT } else if row_at(self.rows@, row as int).hidden { r.unwrap() == 0.0f64 } else { mul_ensures::<f64>(row_at(self.rows@, row as int).height, constants::ROW_HEIGHT_FACTOR, r.unwrap()) }),
//@rewrite `-> Result<f64, String>` => `-> (r: Result<f64, String>)`
//@after `let rows = &self.rows;`
        proof { broadcast use group_f64_total; }
//@loop 1 it
            invariant
                forall|k: int| 0 <= k < it.index@ ==> (#[trigger] rows@[k]).r != row,
//@after `if r.r == row {`
                proof { lemma_row_unique(rows@, row as int, it.index@); }
//@end

//@fn base/src/worksheet.rs Worksheet::set_row_style
//@attr
#[verifier::loop_isolation(false)]
#[verifier::spinoff_prover]
//@spec
    requires rows_wf(old(self).rows@)
    ensures
        rows_wf(final(self).rows@),
        r.is_err() ==> final(self).rows@ =~= old(self).rows@,
        r.is_ok(),
        rows_same_except(old(self).rows@, final(self).rows@, row as int),
        has_row(final(self).rows@, row as int),
        row_at(final(self).rows@, row as int).s == style_index && row_at(final(self).rows@, row as int).custom_format == (style_index != 0),
        has_row(old(self).rows@, row as int) ==> row_at(final(self).rows@, row as int).height == row_at(old(self).rows@, row as int).height && row_at(final(self).rows@, row as int).custom_height == row_at(old(self).rows@, row as int).custom_height && row_at(final(self).rows@, row as int).hidden == row_at(old(self).rows@, row as int).hidden,
        !has_row(old(self).rows@, row as int) ==> !row_at(final(self).rows@, row as int).custom_height && !row_at(final(self).rows@, row as int).hidden,
//@rewrite `-> Result<(), String>` => `-> (r: Result<(), String>)`
//@before `for r in self.rows.iter_mut()`
        let ghost oc = self.rows@;
        proof { broadcast use group_f64_total; }
//@loop 1 it
            invariant
                oc.len() == self.rows@.len(),
                forall|i: int| 0 <= i < it.index@ ==> self.rows@[i] == oc[i],
                forall|i: int| 0 <= i < it.index@ ==> (#[trigger] oc[i]).r != row,
                it.iter.remaining().len() + it.index@ == oc.len(),
                forall|j: int| 0 <= j < it.iter.remaining().len() ==> *#[trigger] it.iter.remaining()[j] == oc[it.index@ + j],
                forall|j: int| 0 <= j < it.iter.remaining().len() ==> *final(#[trigger] it.iter.remaining()[j]) == self.rows@[it.index@ + j],
//@before `return Ok(());`
                proof {
                    let k = it.index@;
                    axiom_iter_mut_dropped(&it.iter);
                    assert(it.iter.remaining().len() >= 1);
                    assert forall|j: int| k < j < oc.len() implies self.rows@[j] == oc[j] by {
                        let t = it.iter.remaining()[j - k];
                    }
                    assert(oc[k].r == row);
                    lemma_rows_update(oc, self.rows@, k, row as int);
                }
//@before `self.rows.push(Row {`
        assert(self.rows@ =~= oc);
//@before#2 `Ok(())`
        proof { lemma_rows_push(oc, self.rows@, self.rows@[oc.len() as int]); }
//@end

//@fn base/src/worksheet.rs Worksheet::set_row_hidden
//@attr
#[verifier::loop_isolation(false)]
#[verifier::spinoff_prover]
//@spec
    requires rows_wf(old(self).rows@)
    ensures
        rows_wf(final(self).rows@),
        r.is_err() ==> final(self).rows@ =~= old(self).rows@,
        r.is_err() <==> !(1 <= row <= 1048576),
        r.is_ok() ==> rows_same_except(old(self).rows@, final(self).rows@, row as int)
            && has_row(final(self).rows@, row as int) && row_at(final(self).rows@, row as int).hidden == hidden,
        r.is_ok() && has_row(old(self).rows@, row as int) ==> row_at(final(self).rows@, row as int).height == row_at(old(self).rows@, row as int).height && row_at(final(self).rows@, row as int).custom_height == row_at(old(self).rows@, row as int).custom_height
            && row_at(final(self).rows@, row as int).s == row_at(old(self).rows@, row as int).s && row_at(final(self).rows@, row as int).custom_format == row_at(old(self).rows@, row as int).custom_format,
        r.is_ok() && !has_row(old(self).rows@, row as int) ==> !row_at(final(self).rows@, row as int).custom_height && !row_at(final(self).rows@, row as int).custom_format && row_at(final(self).rows@, row as int).s == 0,
//@rewrite `-> Result<(), String>` => `-> (r: Result<(), String>)`
//@after `let rows = &mut self.rows;`
        let ghost oc = rows@;
        proof { broadcast use group_f64_total; }
//@loop 1 it
            invariant
                oc.len() == rows@.len(),
                forall|i: int| 0 <= i < it.index@ ==> rows@[i] == oc[i],
                forall|i: int| 0 <= i < it.index@ ==> (#[trigger] oc[i]).r != row,
                it.iter.remaining().len() + it.index@ == oc.len(),
                forall|j: int| 0 <= j < it.iter.remaining().len() ==> *#[trigger] it.iter.remaining()[j] == oc[it.index@ + j],
                forall|j: int| 0 <= j < it.iter.remaining().len() ==> *final(#[trigger] it.iter.remaining()[j]) == rows@[it.index@ + j],
//@before `return Ok(());`
                proof {
                    let k = it.index@;
                    axiom_iter_mut_dropped(&it.iter);
                    assert(it.iter.remaining().len() >= 1);
                    assert forall|j: int| k < j < oc.len() implies rows@[j] == oc[j] by {
                        let t = it.iter.remaining()[j - k];
                    }
                    assert(oc[k].r == row);
                    lemma_rows_update(oc, rows@, k, row as int);
                }
//@before `rows.push(Row {`
        assert(rows@ =~= oc);
//@before#2 `Ok(())`
        proof { lemma_rows_push(oc, rows@, rows@[oc.len() as int]); }
//@end

//@fn base/src/worksheet.rs Worksheet::set_row_height
//@attr
#[verifier::loop_isolation(false)]
#[verifier::spinoff_prover]
//@spec
    requires rows_wf(old(self).rows@)
    ensures
        rows_wf(final(self).rows@),
        r.is_err() ==> final(self).rows@ =~= old(self).rows@,
        r.is_err() ==> !(1 <= row <= 1048576) || lt_ensures::<f64>(height, 0.0f64, true),
        r.is_ok() ==> 1 <= row <= 1048576 && lt_ensures::<f64>(height, 0.0f64, false),
        r.is_ok() ==> rows_same_except(old(self).rows@, final(self).rows@, row as int)
            && has_row(final(self).rows@, row as int) && row_at(final(self).rows@, row as int).custom_height
            && div_ensures::<f64>(height, constants::ROW_HEIGHT_FACTOR, row_at(final(self).rows@, row as int).height),
        r.is_ok() && has_row(old(self).rows@, row as int) ==> row_at(final(self).rows@, row as int).hidden == row_at(old(self).rows@, row as int).hidden && row_at(final(self).rows@, row as int).s == row_at(old(self).rows@, row as int).s && row_at(final(self).rows@, row as int).custom_format == row_at(old(self).rows@, row as int).custom_format,
        r.is_ok() && !has_row(old(self).rows@, row as int) ==> !row_at(final(self).rows@, row as int).hidden && !row_at(final(self).rows@, row as int).custom_format && row_at(final(self).rows@, row as int).s == 0,
//@rewrite `-> Result<(), String>` => `-> (r: Result<(), String>)`
//@after `let rows = &mut self.rows;`
        let ghost oc = rows@;
        proof { broadcast use group_f64_total; }
//@loop 1 it
            invariant
                oc.len() == rows@.len(),
                forall|i: int| 0 <= i < it.index@ ==> rows@[i] == oc[i],
                forall|i: int| 0 <= i < it.index@ ==> (#[trigger] oc[i]).r != row,
                it.iter.remaining().len() + it.index@ == oc.len(),
                forall|j: int| 0 <= j < it.iter.remaining().len() ==> *#[trigger] it.iter.remaining()[j] == oc[it.index@ + j],
                forall|j: int| 0 <= j < it.iter.remaining().len() ==> *final(#[trigger] it.iter.remaining()[j]) == rows@[it.index@ + j],
//@before `return Ok(());`
                proof {
                    let k = it.index@;
                    axiom_iter_mut_dropped(&it.iter);
                    assert(it.iter.remaining().len() >= 1);
                    assert forall|j: int| k < j < oc.len() implies rows@[j] == oc[j] by {
                        let t = it.iter.remaining()[j - k];
                    }
                    assert(oc[k].r == row);
                    lemma_rows_update(oc, rows@, k, row as int);
                }
//@before `rows.push(Row {`
        assert(rows@ =~= oc);
//@before#2 `Ok(())`
        proof { lemma_rows_push(oc, rows@, rows@[oc.len() as int]); }
//@end

//@fn base/src/worksheet.rs Worksheet::delete_row_style
//@spec
    requires rows_wf(old(self).rows@)
    ensures
        rows_wf(final(self).rows@), r.is_ok(),
        rows_same_except(old(self).rows@, final(self).rows@, row as int),
        has_row(final(self).rows@, row as int) == has_row(old(self).rows@, row as int),
        has_row(old(self).rows@, row as int) ==> row_at(final(self).rows@, row as int).s == 0 && !row_at(final(self).rows@, row as int).custom_format
            && row_at(final(self).rows@, row as int).height == row_at(old(self).rows@, row as int).height && row_at(final(self).rows@, row as int).custom_height == row_at(old(self).rows@, row as int).custom_height && row_at(final(self).rows@, row as int).hidden == row_at(old(self).rows@, row as int).hidden,
//@rewrite `-> Result<(), String>` => `-> (r: Result<(), String>)`
//@rewrite `let mut index = None;` => `let mut index: Option<usize> = None;`
//@forwhile 1
//@loop 1
            invariant_except_break
                index.is_none(),
                forall|k: int| 0 <= k < __i ==> (#[trigger] self.rows@[k]).r != row,
            invariant
                __i <= self.rows@.len(), self.rows@ == old(self).rows@, rows_wf(self.rows@),
            ensures
                self.rows@ == old(self).rows@,
                index.is_some() ==> index.unwrap() < self.rows@.len() && self.rows@[index.unwrap() as int].r == row,
                index.is_none() ==> forall|k: int| 0 <= k < self.rows@.len() ==> (#[trigger] self.rows@[k]).r != row,
            decreases self.rows@.len() - __i
//@before `if let Some(i) = index {`
        let ghost oc = self.rows@;
//@before `Ok(())`
        proof {
            if index.is_some() {
                lemma_rows_update(oc, self.rows@, index.unwrap() as int, row as int);
            } else {
                lemma_rows_same(oc, row as int);
                assert(!has_row(oc, row as int));
            }
        }
//@end
}

} // verus!
fn main() {}
