// U-record: what a user-model operation does to the engine is exactly what REDO of the diff it records means, and the
// recorded diff carries the operation's own arguments (after any adjustment the operation applied).   (C02, C01, C03)
use vstd::prelude::*;
use std::collections::HashMap;
verus! {
//@include um_shells.rs
//@include diff_meaning.rs

#[verifier::external_body] pub struct Progression { _o: u8 }
impl Progression { #[verifier::external_body] pub fn next(&self, i: usize) -> String { unimplemented!() } }
pub uninterp spec fn g_sheet() -> u32;
pub uninterp spec fn g_row() -> i32;
pub uninterp spec fn g_column() -> i32;
pub uninterp spec fn g_name() -> Seq<char>;
pub uninterp spec fn g_scope() -> Option<u32>;
pub uninterp spec fn g_text() -> Seq<char>;
/// redo of one recorded diff (variants under contract here)
pub open spec fn redo_of(d: Diff) -> Seq<Call> {
    match d {
        Diff::InsertRows { sheet, row, count } => redo_InsertRows(&sheet, &row, &count),
        Diff::InsertColumns { sheet, column, count } => redo_InsertColumns(&sheet, &column, &count),
        Diff::MoveRows { sheet, row, row_count, delta } => redo_MoveRows(&sheet, &row, &row_count, &delta),
        Diff::MoveColumns { sheet, column, column_count, delta } => redo_MoveColumns(&sheet, &column, &column_count, &delta),
        Diff::SetFrozenRowsCount { sheet, new_value, old_value } => redo_SetFrozenRowsCount(&sheet, &new_value, &old_value),
        Diff::SetFrozenColumnsCount { sheet, new_value, old_value } => redo_SetFrozenColumnsCount(&sheet, &new_value, &old_value),
        Diff::SetTimezone { old_value, new_value } => redo_SetTimezone(&old_value, &new_value),
        Diff::SetLocale { old_value, new_value } => redo_SetLocale(&old_value, &new_value),
        Diff::SetShowGridLines { sheet, old_value, new_value } => redo_SetShowGridLines(&sheet, &old_value, &new_value),
        Diff::SetSheetColor { index, old_value, new_value } => redo_SetSheetColor(&index, &old_value, &new_value),
        Diff::RenameSheet { index, old_value, new_value } => redo_RenameSheet(&index, &old_value, &new_value),
        _ => arbitrary(),
    }
}
/// the operation recorded exactly the single diff d and did to the engine what redo of d does
pub open spec fn recorded(a: &UserModel, b: &UserModel, d: Diff) -> bool {
    one_entry(a, b) && b.history.undo_stack@.last()@ =~= seq![d] && b.model.log() =~= a.model.log() + redo_of(d)
}

impl<'a> Model<'a> {
    pub uninterp spec fn log(&self) -> Seq<Call>;
    pub uninterp spec fn frozen_rows(&self, sheet: u32) -> i32;
    pub uninterp spec fn frozen_columns(&self, sheet: u32) -> i32;
    pub uninterp spec fn timezone(&self) -> Seq<char>;
    pub uninterp spec fn locale(&self) -> Seq<char>;
//@stub base/src/actions.rs Model::insert_rows
    ensures r.is_ok() ==> final(self).log() == old(self).log().push(Call::InsertRows(sheet, row, row_count)), r.is_err() ==> *final(self) == *old(self)
//@end
//@stub base/src/actions.rs Model::insert_columns
    ensures r.is_ok() ==> final(self).log() == old(self).log().push(Call::InsertColumns(sheet, column, column_count)), r.is_err() ==> *final(self) == *old(self)
//@end
//@stub base/src/actions.rs Model::move_rows_action
    ensures r.is_ok() ==> final(self).log() == old(self).log().push(Call::MoveRowsAction(sheet, row, row_count, delta)), r.is_err() ==> *final(self) == *old(self)
//@end
//@stub base/src/actions.rs Model::move_columns_action
    ensures r.is_ok() ==> final(self).log() == old(self).log().push(Call::MoveColumnsAction(sheet, column, column_count, delta)), r.is_err() ==> *final(self) == *old(self)
//@end
//@stub base/src/model.rs Model::get_frozen_rows_count
    ensures r.is_ok() ==> r.unwrap() == self.frozen_rows(sheet)
//@end
//@stub base/src/model.rs Model::get_frozen_columns_count
    ensures r.is_ok() ==> r.unwrap() == self.frozen_columns(sheet)
//@end
//@stub base/src/model.rs Model::set_frozen_rows
    ensures r.is_ok() ==> final(self).log() == old(self).log().push(Call::SetFrozenRows(sheet, frozen_rows)), r.is_err() ==> *final(self) == *old(self)
//@end
//@stub base/src/model.rs Model::set_frozen_columns
    ensures r.is_ok() ==> final(self).log() == old(self).log().push(Call::SetFrozenColumns(sheet, frozen_columns)), r.is_err() ==> *final(self) == *old(self)
//@end
//@stub base/src/model.rs Model::get_timezone
    ensures r@ == self.timezone()
//@end
//@stub base/src/model.rs Model::get_locale
    ensures r@ == self.locale()
//@end
//@stub base/src/model.rs Model::set_timezone
    ensures r.is_ok() ==> final(self).log() == old(self).log().push(Call::SetTimezone(timezone@)), r.is_err() ==> *final(self) == *old(self)
//@end
//@stub base/src/model.rs Model::set_locale
    ensures r.is_ok() ==> final(self).log() == old(self).log().push(Call::SetLocale(locale_id@)), r.is_err() ==> *final(self) == *old(self)
//@end
//@stub base/src/model.rs Model::evaluate
    ensures final(self).log() == old(self).log()
//@end
//@stub base/src/model.rs Model::set_sheet_state
    ensures r.is_ok() ==> final(self).log() == old(self).log().push(Call::SetSheetState(sheet, state)), r.is_err() ==> *final(self) == *old(self)
//@end
//@stub base/src/new_empty.rs Model::delete_sheet
    ensures r.is_ok() ==> final(self).log() == old(self).log().push(Call::DeleteSheet(sheet_index)), r.is_err() ==> *final(self) == *old(self)
//@end
//@stub base/src/new_empty.rs Model::move_sheet
    ensures r.is_ok() ==> final(self).log() == old(self).log().push(Call::MoveSheet(sheet_index, new_index)), r.is_err() ==> *final(self) == *old(self)
//@end
    // per-cell link and own style as state functions of the engine
    pub uninterp spec fn link_at(&self, sheet: u32, row: i32, column: i32) -> Option<Link>;
    pub uninterp spec fn own_style_at(&self, sheet: u32, row: i32, column: i32) -> Option<Style>;
//@stub base/src/links.rs Model::get_cell_link
    ensures r.is_ok() ==> r.unwrap() == self.link_at(sheet, row, column)
//@end
//@stub base/src/links.rs Model::set_cell_link
    ensures r.is_ok() == old(self).cell_ok(sheet, row, column),      // fails only for a bad sheet / cell position (check_valid_cell, worksheet_mut)
            r.is_ok() ==> final(self).link_at(sheet, row, column) == Some(link), r.is_err() ==> *final(self) == *old(self)
//@end
//@stub base/src/links.rs Model::delete_cell_link
    ensures r.is_ok() == old(self).cell_ok(sheet, row, column),
            r.is_ok() ==> final(self).link_at(sheet, row, column) == None::<Link>, r.is_err() ==> *final(self) == *old(self)
//@end
    pub uninterp spec fn cell_ok(&self, sheet: u32, row: i32, column: i32) -> bool;
//@stub base/src/model.rs Model::get_cell_style_or_none
    ensures r.is_ok() ==> r.unwrap() == self.own_style_at(sheet, row, column)
//@end
//@stub base/src/model.rs Model::get_style_for_cell
//@end
//@stub base/src/model.rs Model::extend_to
//@end
//@stub base/src/model.rs Model::set_user_input
    ensures r.is_err() ==> *final(self) == *old(self)
//@end
    // ghost constants naming "the call being recorded" (the uninterpreted-precondition trick: the stub's precondition pins the argument)
//@stub base/src/styles.rs Model::set_cell_style
    requires sheet == g_sheet() && row == g_row() && column == g_column()
//@end
//@stub base/src/model.rs Model::update_defined_name
    requires name@ == g_name() && new_name@ == g_name() && scope == g_scope() && new_scope == g_scope() && new_formula@ == g_text()
//@end
    // column widths / row heights as a state function of the engine (A-setget frame: a set changes only its own line — proved for the
    // Worksheet setters in units cols / rows, whole-view contracts)
    pub uninterp spec fn width(&self, sheet: u32, column: i32) -> f64;
    pub uninterp spec fn height(&self, sheet: u32, row: i32) -> f64;
//@stub base/src/model.rs Model::get_column_width
    ensures r.is_ok() ==> r.unwrap() == self.width(sheet, column)
//@end
//@stub base/src/model.rs Model::set_column_width
    ensures r.is_ok() ==> final(self).log() == old(self).log().push(Call::SetColumnWidth(sheet, column, width))
                && (forall|c2: i32| c2 != column ==> #[trigger] final(self).width(sheet, c2) == old(self).width(sheet, c2)),
            r.is_err() ==> *final(self) == *old(self)
//@end
//@stub base/src/model.rs Model::get_row_height
    ensures r.is_ok() ==> r.unwrap() == self.height(sheet, row)
//@end
//@stub base/src/model.rs Model::set_row_height
    ensures r.is_ok() ==> final(self).log() == old(self).log().push(Call::SetRowHeight(sheet, column, height))
                && (forall|r2: i32| r2 != column ==> #[trigger] final(self).height(sheet, r2) == old(self).height(sheet, r2)),
            r.is_err() ==> *final(self) == *old(self)
//@end
//@stub base/src/model.rs Model::set_show_grid_lines
    ensures r.is_ok() ==> final(self).log() == old(self).log().push(Call::SetShowGridLines(sheet, show_grid_lines)), r.is_err() ==> *final(self) == *old(self)
//@end
//@stub base/src/model.rs Model::set_sheet_color
    ensures r.is_ok() ==> final(self).log() == old(self).log().push(Call::SetSheetColor(sheet, *color)), r.is_err() ==> *final(self) == *old(self)
//@end
//@stub base/src/new_empty.rs Model::rename_sheet_by_index
    ensures r.is_ok() ==> final(self).log() == old(self).log().push(Call::RenameSheet(sheet_index, new_name@)), r.is_err() ==> *final(self) == *old(self)
//@end
}
impl Clone for Worksheet { #[verifier::external_body] fn clone(&self) -> (r: Self) ensures r == *self { unimplemented!() } }
impl Workbook {
    pub uninterp spec fn ws(&self, i: u32) -> Worksheet;
//@stub base/src/workbook.rs Workbook::worksheet
    ensures r.is_ok() ==> *r.unwrap() == self.ws(worksheet_index)
//@end
}
impl Worksheet {
//@stub base/src/worksheet.rs Worksheet::is_row_hidden
//@end
//@stub base/src/worksheet.rs Worksheet::is_column_hidden
//@end
}

//@type base/src/constants.rs LAST_COLUMN
//@type base/src/constants.rs LAST_ROW
//@fn base/src/expressions/utils/mod.rs is_valid_column_number
//@spec
    ensures r == (1 <= column <= 16384)
//@rewrite `-> bool` => `-> (r: bool)`
//@end
//@fn base/src/expressions/utils/mod.rs is_valid_row
//@spec
    ensures r == (1 <= row <= 1048576)
//@rewrite `-> bool` => `-> (r: bool)`
//@end
impl History {
//@fn base/src/user_model/history.rs History::push
//@spec
    ensures
        final(self).undo_stack@ =~= old(self).undo_stack@.push(diff_list),
        final(self).redo_stack@.len() == 0,
//@end
}

impl<'a> UserModel<'a> {
//@fn base/src/user_model/common.rs UserModel::push_diff_list
//@spec
    ensures
        final(self).model == old(self).model, final(self).pause_evaluation == old(self).pause_evaluation,
        one_entry(old(self), final(self)), final(self).history.undo_stack@.last()@ =~= diff_list@,
//@end
//@fn base/src/user_model/common.rs UserModel::evaluate_if_not_paused
//@spec
    ensures
        final(self).history == old(self).history, final(self).send_queue == old(self).send_queue,
        final(self).model.log() == old(self).model.log(),
//@end
//@fn base/src/user_model/common.rs UserModel::get_timezone
//@spec
    ensures r@ == self.model.timezone()
//@rewrite `-> String {` => `-> (r: String) {`
//@end
//@fn base/src/user_model/common.rs UserModel::get_locale
//@spec
    ensures r@ == self.model.locale()
//@rewrite `-> String {` => `-> (r: String) {`
//@end

//@fn base/src/user_model/common.rs UserModel::insert_rows
//@spec
    ensures r.is_ok() ==> recorded(old(self), final(self), Diff::InsertRows { sheet, row, count: row_count }),
//@rewrite `-> Result<(), String> {` => `-> (r: Result<(), String>) {`
//@end
//@fn base/src/user_model/common.rs UserModel::insert_columns
//@spec
    ensures r.is_ok() ==> recorded(old(self), final(self), Diff::InsertColumns { sheet, column, count: column_count }),
//@rewrite `) -> Result<(), String> {` => `) -> (r: Result<(), String>) {`
//@end
//@fn base/src/user_model/common.rs UserModel::set_frozen_rows_count
//@spec
    ensures r.is_ok() ==> recorded(old(self), final(self), Diff::SetFrozenRowsCount { sheet, new_value: frozen_rows, old_value: old(self).model.frozen_rows(sheet) }),
//@rewrite `-> Result<(), String> {` => `-> (r: Result<(), String>) {`
//@end
//@fn base/src/user_model/common.rs UserModel::set_frozen_columns_count
//@spec
    ensures r.is_ok() ==> recorded(old(self), final(self), Diff::SetFrozenColumnsCount { sheet, new_value: frozen_columns, old_value: old(self).model.frozen_columns(sheet) }),
//@rewrite `) -> Result<(), String> {` => `) -> (r: Result<(), String>) {`
//@end

//@fn base/src/user_model/common.rs UserModel::set_show_grid_lines
//@spec
    ensures r.is_ok() ==> recorded(old(self), final(self), Diff::SetShowGridLines { sheet, new_value: show_grid_lines, old_value: old(self).model.workbook.ws(sheet).show_grid_lines }),
//@rewrite `-> Result<(), String> {` => `-> (r: Result<(), String>) {`
//@end
//@fn base/src/user_model/common.rs UserModel::set_sheet_color
//@spec
    ensures r.is_ok() ==> recorded(old(self), final(self), Diff::SetSheetColor { index: sheet, new_value: *color, old_value: old(self).model.workbook.ws(sheet).color }),
//@rewrite `-> Result<(), String> {` => `-> (r: Result<(), String>) {`
//@end
//@fn base/src/user_model/common.rs UserModel::rename_sheet
//@spec
    ensures r.is_ok() ==> same_state(old(self), final(self)) || exists|ov: String, nv: String| ov@ == old(self).model.workbook.ws(sheet).name@ && nv@ == new_name@
                && #[trigger] recorded(old(self), final(self), Diff::RenameSheet { index: sheet, old_value: ov, new_value: nv }),
//@rewrite `-> Result<(), String> {` => `-> (r: Result<(), String>) {`
//@before#2 `Ok(())`
        proof {
            let d = self.history.undo_stack@.last()@[0];
            match d {
                Diff::RenameSheet { index, old_value: ov, new_value: nv } => { assert(recorded(old(self), self, Diff::RenameSheet { index: sheet, old_value: ov, new_value: nv })); }
                _ => {}
            }
        }
//@end
//@fn base/src/user_model/common.rs UserModel::move_rows_action
//@attr
#[verifier::loop_isolation(false)]
//@spec
    requires small(row as int), small(row_count as int), small(delta as int)
    ensures
        r.is_ok() ==> same_state(old(self), final(self))
            || exists|nd: i32| recorded(old(self), final(self), Diff::MoveRows { sheet, row, row_count, delta: nd }),
//@rewrite `) -> Result<(), String> {` => `) -> (r: Result<(), String>) {`
//@loop 1
                invariant delta <= new_delta <= delta + (r - (row + row_count)), row + row_count <= r <= row + row_count + delta + 1
//@loop 2
                invariant delta - (r - (row + delta)) <= new_delta <= delta, row + delta <= r <= row
//@before#2 `Ok(())`
        assert(recorded(old(self), self, Diff::MoveRows { sheet, row, row_count, delta: new_delta }));
//@end
//@fn base/src/user_model/common.rs UserModel::move_columns_action
//@attr
#[verifier::loop_isolation(false)]
//@spec
    requires small(column as int), small(column_count as int), small(delta as int)
    ensures
        r.is_ok() ==> same_state(old(self), final(self))
            || exists|nd: i32| recorded(old(self), final(self), Diff::MoveColumns { sheet, column, column_count, delta: nd }),
//@rewrite `) -> Result<(), String> {` => `) -> (r: Result<(), String>) {`
//@loop 1
                invariant delta <= new_delta <= delta + (col - (column + column_count)), column + column_count <= col <= column + column_count + delta + 1
//@loop 2
                invariant delta - (col - (column + delta)) <= new_delta <= delta, column + delta <= col <= column
//@before#2 `Ok(())`
        assert(recorded(old(self), self, Diff::MoveColumns { sheet, column, column_count, delta: new_delta }));
//@end

// typing into a cell: the link and the cell's own style that go into the recorded diffs are the ones the cell had BEFORE the engine
// processed the input (so undo puts back the pre-input link and style)
//@fn base/src/user_model/common.rs UserModel::set_user_input_with_link_diffs
//@spec
    ensures
        r.is_ok() ==> final(diff_list)@.len() >= old(diff_list)@.len() && final(diff_list)@.subrange(0, old(diff_list)@.len() as int) =~= old(diff_list)@,
        r.is_ok() ==> forall|k: int| old(diff_list)@.len() <= k < final(diff_list)@.len() ==> match #[trigger] final(diff_list)@[k] {
            Diff::SetCellStyle { sheet: s, row: r0, column: c, old_value, new_value } => s == sheet && r0 == row && c == column && *old_value == old(self).model.own_style_at(sheet, row, column),
            Diff::SetCellLink { sheet: s, row: r0, column: c, old_value, new_value } => s == sheet && r0 == row && c == column && *old_value == old(self).model.link_at(sheet, row, column)
                && *new_value == final(self).model.link_at(sheet, row, column),
            _ => false,
        },
        final(self).history == old(self).history, final(self).send_queue == old(self).send_queue,
//@rewrite `) -> Result<(), String> {` => `) -> (r: Result<(), String>) {`
//@end
/// set_cell_link, label step: if the label cannot be written (the engine refuses, changing nothing), the link that was attached a moment
/// ago is put back to what the cell had before the call — the failed call leaves the cell's link as it was (C04)
pub fn set_cell_link_label_step(&mut self, sheet: u32, row: i32, column: i32, label: &str, link_changed: bool, old_link: Option<Link>) -> (r: Result<(), String>)
    requires !link_changed ==> old(self).model.link_at(sheet, row, column) == old_link,
        link_changed ==> old(self).model.cell_ok(sheet, row, column),      // the link was attached a moment ago with these coordinates
    ensures r.is_err() ==> final(self).model.link_at(sheet, row, column) == old_link,
            final(self).history == old(self).history, final(self).send_queue == old(self).send_queue,
{
//@fragment base/src/user_model/links.rs UserModel::set_cell_link `if let Err(e) = self` .. `return Err(e);`
//@end
    Ok(())
}
// cut & paste, the three places where the cut rewrites cells outside the pasted block: each recorded diff names exactly the sheet / cell /
// name the engine call next to it was made on, and carries the value that call wrote (so redo, and a replica, repeat the same call)
pub fn cut_source_style_reset(&mut self, sheet: u32, source_sheet: u32, row: i32, column: i32, default_style: Style, old_style: Option<Style>, diff_list: &mut Vec<Diff>) -> (r: Result<(), String>)
    requires source_sheet == g_sheet(), row == g_row(), column == g_column()
    ensures r.is_ok() ==> final(diff_list)@.len() == old(diff_list)@.len() + 1 && (final(diff_list)@.last() matches Diff::SetCellStyle { sheet: s, row: r0, column: c, old_value, new_value }
        && s == g_sheet() && r0 == g_row() && c == g_column() && *old_value == old_style)
{
    self.model
//@fragment base/src/user_model/clipboard.rs UserModel::paste_from_clipboard `.set_cell_style(source_sheet, row, column, &default_style)?;` .. `new_value: Box::new(default_style),`
//@end
    Ok(())
}
/// autofill (rows): the style recorded as the OLD value of the filled cell is the one it had BEFORE the fill wrote into it (C01: undo puts it back)
pub fn autofill_rows_cell(&mut self, sheet: u32, row: i32, column: i32, anchor_row: i32, index: i32, range_idx: usize, possible_progression: Option<Progression>, diff_list: &mut Vec<Diff>) -> (r: Result<(), String>)
    requires -0x100000 <= anchor_row <= 0x100000, -0x100000 <= index <= 0x100000, sheet == g_sheet() && row == g_row() && column == g_column()
    ensures r.is_ok() ==> final(diff_list)@.len() == old(diff_list)@.len() + 1 && (final(diff_list)@.last() matches Diff::SetCellStyle { sheet: s, row: r0, column: c, old_value, new_value }
        && s == sheet && r0 == row && c == column && *old_value == old(self).model.own_style_at(sheet, row, column)),
{
//@fragment base/src/user_model/autofill.rs UserModel::auto_fill_rows `let old_value = saved_cse` .. `new_value: Box::new(new_style),`
//@dropstmt `let old_value = saved_cse`
//@rewrite* `target_value.to_string()` => `target_value.clone()`
//@end
    Ok(())
}
/// a cut also moves the link away from the source cell: the source cell has no link afterwards and the removal is recorded with the link it had (C33)
pub fn cut_source_link_removed(&mut self, source_sheet: u32, row: i32, column: i32, diff_list: &mut Vec<Diff>) -> (r: Result<(), String>)
    ensures r.is_ok() ==> final(self).model.link_at(source_sheet, row, column) == None::<Link>,
        r.is_ok() && old(self).model.link_at(source_sheet, row, column) is Some ==> final(diff_list)@.len() == old(diff_list)@.len() + 1
            && (final(diff_list)@.last() matches Diff::SetCellLink { sheet: s, row: r0, column: c, old_value, new_value }
                && s == source_sheet && r0 == row && c == column && *old_value == old(self).model.link_at(source_sheet, row, column) && *new_value == None::<Link>),
{
//@fragment base/src/user_model/clipboard.rs UserModel::paste_from_clipboard `let old_link = self.model.get_cell_link(source_sheet, row, column)?;` .. `new_value: Box::new(None),`
//@end
    Ok(())
}
pub fn cut_defined_name_update(&mut self, dn_name: String, dn_scope: Option<u32>, old_formula: String, new_formula: String, diff_list: &mut Vec<Diff>) -> (r: Result<(), String>)
    requires dn_name@ == g_name(), dn_scope == g_scope(), new_formula@ == g_text()
    ensures r.is_ok() ==> final(diff_list)@.len() == old(diff_list)@.len() + 1 && (final(diff_list)@.last() matches Diff::UpdateDefinedName { name, scope, old_formula: of, new_name, new_scope, new_formula: nf }
        && name@ == g_name() && new_name@ == g_name() && scope == g_scope() && new_scope == g_scope() && nf@ == g_text() && of@ == old_formula@)
{
//@fragment base/src/user_model/clipboard.rs UserModel::paste_from_clipboard `diff_list.push(Diff::UpdateDefinedName {` .. `&new_formula,`
//@end
    Ok(())
}
// sheet visibility / deletion / move: the recorded diff names the sheet, carries the state (or the whole sheet) as it was BEFORE the call,
// and the engine call is the redo of that diff
//@fn base/src/user_model/common.rs UserModel::unhide_sheet
//@spec
    ensures r.is_ok() ==> one_entry(old(self), final(self))
        && final(self).history.undo_stack@.last()@ =~= seq![Diff::SetSheetState { index: sheet, new_value: SheetState::Visible, old_value: old(self).model.workbook.ws(sheet).state }]
        && final(self).model.log() =~= old(self).model.log().push(Call::SetSheetState(sheet, SheetState::Visible)),
//@rewrite `-> Result<(), String> {` => `-> (r: Result<(), String>) {`
//@end
/// delete_sheet up to the engine call (D2: the selection update that follows is under contract in unit uisel)
pub fn delete_sheet_recorded(&mut self, sheet: u32) -> (r: Result<Box<Worksheet>, String>)
    ensures r matches Ok(d) ==> *d == old(self).model.workbook.ws(sheet) && final(self).model.log() =~= old(self).model.log().push(Call::DeleteSheet(sheet)),
{
//@fragment base/src/user_model/common.rs UserModel::delete_sheet `let old_data = Box::new(` .. `self.model.delete_sheet(sheet)?;`
//@end
    Ok(old_data)
}
// bulk size setters: ONE history entry holding, for every line of the range in order, the size it had BEFORE the operation and the
// requested size; the engine saw exactly the redo of that list
//@fn base/src/user_model/common.rs UserModel::set_columns_width
//@attr
#[verifier::loop_isolation(false)]
//@spec
    requires small(column_start as int), small(column_end as int)
    ensures r.is_ok() ==> one_entry(old(self), final(self)) && ({
        let list = final(self).history.undo_stack@.last()@;
        let n = if column_end >= column_start { column_end - column_start + 1 } else { 0 };
        &&& list.len() == n
        &&& forall|k: int| 0 <= k < n ==> #[trigger] list[k] == (Diff::SetColumnWidth { sheet, column: (column_start + k) as i32, new_value: width, old_value: old(self).model.width(sheet, (column_start + k) as i32) })
        &&& final(self).model.log() =~= old(self).model.log() + Seq::new(n as nat, |k: int| Call::SetColumnWidth(sheet, (column_start + k) as i32, width))
    }),
//@rewrite `) -> Result<(), String> {` => `) -> (r: Result<(), String>) {`
//@forwhile 1
//@loop 1
            invariant column_start <= __column, column_start <= column_end ==> __column <= column_end + 1, column_start > column_end ==> __column == column_start,
                self.history == old(self).history, self.send_queue == old(self).send_queue,
                diff_list@.len() == __column - column_start,
                forall|k: int| 0 <= k < diff_list@.len() ==> #[trigger] diff_list@[k] == (Diff::SetColumnWidth { sheet, column: (column_start + k) as i32, new_value: width, old_value: old(self).model.width(sheet, (column_start + k) as i32) }),
                forall|c2: i32| c2 >= __column ==> #[trigger] self.model.width(sheet, c2) == old(self).model.width(sheet, c2),
                self.model.log() =~= old(self).model.log() + Seq::new((__column - column_start) as nat, |k: int| Call::SetColumnWidth(sheet, (column_start + k) as i32, width)),
            decreases column_end + 1 - __column
//@end
//@fn base/src/user_model/common.rs UserModel::set_rows_height
//@attr
#[verifier::loop_isolation(false)]
//@spec
    requires small(row_start as int), small(row_end as int)
    ensures r.is_ok() ==> one_entry(old(self), final(self)) && ({
        let list = final(self).history.undo_stack@.last()@;
        let n = if row_end >= row_start { row_end - row_start + 1 } else { 0 };
        &&& list.len() == n
        &&& forall|k: int| 0 <= k < n ==> #[trigger] list[k] == (Diff::SetRowHeight { sheet, row: (row_start + k) as i32, new_value: height, old_value: old(self).model.height(sheet, (row_start + k) as i32) })
        &&& final(self).model.log() =~= old(self).model.log() + Seq::new(n as nat, |k: int| Call::SetRowHeight(sheet, (row_start + k) as i32, height))
    }),
//@rewrite `) -> Result<(), String> {` => `) -> (r: Result<(), String>) {`
//@forwhile 1
//@loop 1
            invariant row_start <= __row, row_start <= row_end ==> __row <= row_end + 1, row_start > row_end ==> __row == row_start,
                self.history == old(self).history, self.send_queue == old(self).send_queue,
                diff_list@.len() == __row - row_start,
                forall|k: int| 0 <= k < diff_list@.len() ==> #[trigger] diff_list@[k] == (Diff::SetRowHeight { sheet, row: (row_start + k) as i32, new_value: height, old_value: old(self).model.height(sheet, (row_start + k) as i32) }),
                forall|r2: i32| r2 >= __row ==> #[trigger] self.model.height(sheet, r2) == old(self).model.height(sheet, r2),
                self.model.log() =~= old(self).model.log() + Seq::new((__row - row_start) as nat, |k: int| Call::SetRowHeight(sheet, (row_start + k) as i32, height)),
            decreases row_end + 1 - __row
//@end
}

} // verus!
fn main() {}
