// Panic freedom of the column-name scanner of structured references (formula lexer): for ANY character vector the scan
// position never passes the end, so the slice taken afterwards is in range.   (C11)
use vstd::prelude::*;
verus! {
#[verifier::external_body] pub struct Locale { _o: u8 }
#[verifier::external_body] pub struct Language { _o: u8 }
#[verifier::external_body] pub struct LexerMode { _o: u8 }
//@type base/src/expressions/lexer/mod.rs LexerError
//@type base/src/expressions/lexer/mod.rs Lexer

pub assume_specification [<char>::to_ascii_uppercase] (c: &char) -> (r: char);
pub assume_specification [<char>::is_alphanumeric] (c: char) -> (r: bool);
pub assume_specification [<char>::is_ascii_digit] (c: &char) -> (r: bool);

impl<'a> Lexer<'a> {
    pub open spec fn wf(&self) -> bool { self.len == self.chars@.len() && self.position <= self.len }

pub fn scan_column_name(&mut self, end_char: char) -> (r: core::result::Result<usize, LexerError>)
    requires old(self).wf()
    ensures
        // the slice self.chars[self.position..position] taken next is in range
        r matches Ok(p) ==> final(self).position <= p <= final(self).len && final(self).wf(),
{
//@fragment base/src/expressions/lexer/structured_references.rs Lexer::consume_column_reference `let mut position = self.position;` .. `let chars: String`
//@loop 1
            invariant self.wf(), self.position <= position <= self.len
            decreases self.len - position
//@rewrite `let chars: String = self.chars[self.position..position].iter().collect();` => `return Ok(position);`
//@end
}
// ---- the cursor primitives: the invariant position <= len == chars.len() is kept, every index is in range ----
//@fn base/src/expressions/lexer/mod.rs Lexer::set_error
//@spec
    requires old(self).wf()
    ensures final(self).wf()
//@end
//@fn base/src/expressions/lexer/mod.rs Lexer::peek_char
//@spec
    requires old(self).wf()
    ensures final(self).wf(), final(self).position == old(self).position
//@end
//@fn base/src/expressions/lexer/mod.rs Lexer::read_next_char
//@spec
    requires old(self).wf()
    ensures final(self).wf(), final(self).position >= old(self).position
//@end
//@fn base/src/expressions/lexer/mod.rs Lexer::expect_char
//@spec
    requires old(self).wf()
    ensures final(self).wf()
//@rewrite `-> Result<()> {` => `-> core::result::Result<(), LexerError> {`
//@end
//@fn base/src/expressions/lexer/mod.rs Lexer::consume_whitespace
//@spec
    requires old(self).wf()
    ensures final(self).wf(), final(self).position >= old(self).position
//@loop 1
            invariant self.wf(), len == self.len, self.position <= position <= len
            decreases len - position
//@end
pub fn scan_identifier(&mut self) -> (position: usize)
    requires old(self).wf()
    ensures final(self).wf(), final(self).position <= position <= final(self).len
{
//@fragment base/src/expressions/lexer/mod.rs Lexer::consume_identifier `let mut position = self.position;` .. `let chars = self.chars[self.position..position]`
//@loop 1
            invariant self.wf(), self.position <= position <= self.len
            decreases self.len - position
//@rewrite `let chars = self.chars[self.position..position].iter().collect();` => `return position;`
//@end
}
pub fn scan_integer(&mut self) -> (position: usize)
    requires old(self).wf()
    ensures final(self).wf(), position <= final(self).len
{
    let mut chars = String::new();
//@fragment base/src/expressions/lexer/mod.rs Lexer::consume_integer `let mut position = self.position;` .. `self.position = position;`
//@loop 1
            invariant self.wf(), len == self.len, position <= len
            decreases len - position
//@rewrite `let mut chars = first.to_string();` => ``
//@rewrite `chars.push(next_char);` => ``
//@end
    position
}

pub fn scan_reference_a1(&mut self) -> (r: core::result::Result<usize, LexerError>)
    requires old(self).wf()
    ensures final(self).wf()
{
//@fragment base/src/expressions/lexer/ranges.rs Lexer::consume_reference_a1 `let mut absolute_column = false;` .. `self.position = position;`
//@loop 1
            invariant self.wf(), len == self.len, position <= len
            decreases len - position
//@loop 2
            invariant self.wf(), len == self.len, position <= len
            decreases len - position
//@end
    Ok(position)
}

//@fn base/src/expressions/lexer/mod.rs Lexer::consume_string
//@spec
    requires old(self).wf()
    ensures final(self).wf()
//@rewrite `-> Result<String> {` => `-> core::result::Result<String, LexerError> {`
//@loop 1
            invariant self.wf(), len == self.len, position <= len
            decreases len - position
//@end

pub fn scan_single_quote_string(&mut self) -> (r: core::result::Result<(usize, usize), LexerError>)
    requires old(self).wf()
    ensures
        // the slice self.chars[self.position..position - 1] taken next is in range
        r matches Ok((start, end)) ==> start <= end <= final(self).len && final(self).wf(),
{
//@fragment base/src/expressions/lexer/mod.rs Lexer::consume_single_quote_string `let mut position = self.position;` .. `let chars: String = self.chars[self.position..position - 1]`
//@loop 1
            invariant_except_break success == false
            invariant self.wf(), len == self.len, self.position <= position <= len
            ensures self.wf(), position <= len, success ==> self.position + 1 <= position
            decreases len - position
//@rewrite `let chars: String = self.chars[self.position..position - 1].iter().collect();` => `return Ok((self.position, position - 1));`
//@end
}

}
} // verus!
fn main() {}
