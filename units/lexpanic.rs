// Panic freedom of the column-name scanner of structured references (formula lexer): for ANY character vector the scan
// position never passes the end, so the slice taken afterwards is in range.   (C11)
use vstd::prelude::*;
verus! {
#[verifier::external_body] pub struct Locale { _o: u8 }
#[verifier::external_body] pub struct Language { _o: u8 }
#[verifier::external_body] pub struct LexerMode { _o: u8 }
//@type base/src/expressions/lexer/mod.rs LexerError
//@type base/src/expressions/lexer/mod.rs Lexer

impl<'a> Lexer<'a> {
    pub open spec fn wf(&self) -> bool { self.len == self.chars@.len() && self.position <= self.len }

pub fn scan_column_name(&mut self, end_char: char) -> (r: core::result::Result<usize, LexerError>)
    requires old(self).wf()
    ensures
        // the slice self.chars[self.position..position] taken next is in range
        r matches Ok(p) ==> final(self).position <= p <= final(self).len && final(self).wf(),
{
//@fragment base/src/expressions/lexer/structured_references.rs Lexer::consume_column_reference `let mut position = self.position;` .. `let chars: String`
//@loop 1
            invariant self.wf(), self.position <= position <= self.len
            decreases self.len - position
//@rewrite `let chars: String = self.chars[self.position..position].iter().collect();` => `return Ok(position);`
//@end
}
}
} // verus!
fn main() {}
