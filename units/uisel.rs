// Selection setters of the user model (ui.rs) and the sheet / hidden-line operations that move the selection: the selected
// sheet exists, the selected cell lies in the selected range, both lie on the grid — as an invariant every operation under
// contract preserves, for all workbooks.   (C28; C04 for the Err paths)
#![feature(allocator_api)]
use vstd::prelude::*;
use vstd::std_specs::hash::*;
use std::collections::HashMap;
verus! {
pub mod std_hash_m {
    #[allow(unused_imports)] use super::*;
//@include std_hash.rs
}
pub use std_hash_m::*;
broadcast use vstd::std_specs::hash::group_hash_axioms, std_hash_m::axiom_hm_mutated_deref;
pub mod constants {
    #[allow(unused_imports)] use super::*;
//@type base/src/constants.rs LAST_COLUMN
//@type base/src/constants.rs LAST_ROW
}
pub use constants::{LAST_COLUMN, LAST_ROW};
//@fn base/src/expressions/utils/mod.rs is_valid_column_number
//@spec
    ensures r == (1 <= column <= 16384)
//@rewrite `-> bool` => `-> (r: bool)`
//@end
//@fn base/src/expressions/utils/mod.rs is_valid_row
//@spec
    ensures r == (1 <= row <= 1048576)
//@rewrite `-> bool` => `-> (r: bool)`
//@end
//@type base/src/user_model/ui.rs SelectedView
//@include um_shells.rs

pub open spec fn small(x: int) -> bool { -4194304 <= x <= 4194304 }
pub open spec fn on_grid(row: int, column: int) -> bool { 1 <= row <= 1048576 && 1 <= column <= 16384 }
pub open spec fn between(x: int, a: int, b: int) -> bool { a <= x <= b || b <= x <= a }
/// C28 for one worksheet view: cell and range on the grid, cell inside the range
pub open spec fn view_ok(v: WorksheetView) -> bool {
    on_grid(v.row as int, v.column as int) && on_grid(v.range@[0] as int, v.range@[1] as int) && on_grid(v.range@[2] as int, v.range@[3] as int)
        && between(v.row as int, v.range@[0] as int, v.range@[2] as int) && between(v.column as int, v.range@[1] as int, v.range@[3] as int)
}
/// every worksheet view is view_ok; THE view is `view_id`, which every constructor sets to 0 and nothing reassigns (scan view-id-writers)
pub open spec fn views_inv(m: &Model) -> bool {
    &&& m.view_id == 0
    &&& m.workbook.worksheets@.len() >= 1
    &&& forall|i: int, k: u32| 0 <= i < m.workbook.worksheets@.len() && m.workbook.worksheets@[i].views@.contains_key(k)
            ==> view_ok(#[trigger] m.workbook.worksheets@[i].views@[k])
}
/// C28 for the workbook: the selected sheet exists, and every worksheet view is view_ok
pub open spec fn sel_inv(m: &Model) -> bool {
    &&& views_inv(m)
    &&& m.workbook.views@.contains_key(m.view_id) ==> m.workbook.views@[m.view_id].sheet < m.workbook.worksheets@.len()
}
/// sheet indices are u32 in every API; the engine never holds 2^31 sheets (assumption, not provable: Model::new_sheet has no such check)
pub open spec fn few_sheets(m: &Model) -> bool { m.workbook.worksheets@.len() < 0x8000_0000 }
/// equality of engine states as far as this unit can see them (hash maps compared by their contents)
pub open spec fn same_model(a: &Model, b: &Model) -> bool {
    &&& a.view_id == b.view_id && a.rest == b.rest && a.workbook.rest == b.workbook.rest && a.workbook.name == b.workbook.name
    &&& a.workbook.views@ =~= b.workbook.views@
    &&& a.workbook.worksheets@.len() == b.workbook.worksheets@.len()
    &&& forall|i: int| 0 <= i < a.workbook.worksheets@.len() ==> same_sheet(#[trigger] a.workbook.worksheets@[i], b.workbook.worksheets@[i])
}
pub open spec fn same_sheet(x: Worksheet, y: Worksheet) -> bool {
    x.rest == y.rest && x.name == y.name && x.color == y.color && x.show_grid_lines == y.show_grid_lines && x.state == y.state && x.views@ =~= y.views@
}
/// what the hidden-flag setters of the engine leave alone: every view (by content), the sheet list's length
pub open spec fn hidden_frame(a: &Model, b: &Model) -> bool {
    &&& b.workbook.views@ =~= a.workbook.views@ && b.view_id == a.view_id && b.workbook.worksheets@.len() == a.workbook.worksheets@.len()
    &&& forall|i: int| 0 <= i < a.workbook.worksheets@.len() ==> (#[trigger] b.workbook.worksheets@[i]).views@ =~= a.workbook.worksheets@[i].views@
}
/// the selection setters touch nothing but the engine's views
pub open spec fn ui_frame(a: &UserModel, b: &UserModel) -> bool { a.history == b.history && a.send_queue == b.send_queue && a.pause_evaluation == b.pause_evaluation }
/// the sheet the selection setters work on (the code's own rule: the view's sheet, 0 without a view)
pub open spec fn cur_sheet(m: &Model) -> int {
    if m.workbook.views@.contains_key(m.view_id) { m.workbook.views@[m.view_id].sheet as int } else { 0 }
}

/// what C04 says a failed call must leave alone, with the engine compared through same_model
pub open spec fn same_state_v(a: &UserModel, b: &UserModel) -> bool {
    same_model(&a.model, &b.model) && a.history.undo_stack@ =~= b.history.undo_stack@ && a.history.redo_stack@ =~= b.history.redo_stack@
        && a.send_queue@ =~= b.send_queue@
}
impl Clone for Worksheet { #[verifier::external_body] fn clone(&self) -> (r: Self) ensures r == *self { unimplemented!() } }
impl<'a> Model<'a> {
    #[verifier::external_body]
    pub fn reset_parsed_structures(&mut self) ensures final(self).workbook == old(self).workbook, final(self).view_id == old(self).view_id { unimplemented!() }
//@stub base/src/model.rs Model::evaluate
    ensures final(self).workbook.views == old(self).workbook.views, final(self).view_id == old(self).view_id,
            final(self).workbook.worksheets@.len() == old(self).workbook.worksheets@.len(),
            forall|i: int| 0 <= i < old(self).workbook.worksheets@.len() ==> (#[trigger] final(self).workbook.worksheets@[i]).views == old(self).workbook.worksheets@[i].views
//@end
//@fn base/src/model.rs Model::set_sheet_state
//@spec
    ensures
        r.is_ok() == ((sheet as int) < old(self).workbook.worksheets@.len()),
        r.is_err() ==> same_model(final(self), old(self)),
        final(self).workbook.views == old(self).workbook.views && final(self).view_id == old(self).view_id && final(self).rest == old(self).rest
            && final(self).workbook.rest == old(self).workbook.rest && final(self).workbook.name == old(self).workbook.name,
        final(self).workbook.worksheets@.len() == old(self).workbook.worksheets@.len(),
        forall|i: int| 0 <= i < old(self).workbook.worksheets@.len() ==> (#[trigger] final(self).workbook.worksheets@[i]).views == old(self).workbook.worksheets@[i].views
            && (i != sheet ==> final(self).workbook.worksheets@[i] == old(self).workbook.worksheets@[i]),
        r.is_ok() ==> final(self).workbook.worksheets@[sheet as int].state == state,
//@rewrite `-> Result<(), String> {` => `-> (r: Result<(), String>) {`
//@end
// ASSUMED (string-heavy engine code): a new or duplicated sheet arrives with on-grid views, at the stated index, and the other sheets,
// the workbook views and view_id are kept
//@stub base/src/new_empty.rs Model::new_sheet
    ensures final(self).workbook.worksheets@.len() == old(self).workbook.worksheets@.len() + 1,
            r.1 as int == old(self).workbook.worksheets@.len(),
            final(self).workbook.worksheets@.drop_last() =~= old(self).workbook.worksheets@,
            forall|k: u32| final(self).workbook.worksheets@.last().views@.contains_key(k) ==> view_ok(#[trigger] final(self).workbook.worksheets@.last().views@[k]),
            final(self).workbook.views == old(self).workbook.views && final(self).view_id == old(self).view_id
//@end
//@stub base/src/new_empty.rs Model::insert_sheet
    ensures r.is_err() ==> *final(self) == *old(self),
            r.is_ok() ==> (sheet_index as int) <= old(self).workbook.worksheets@.len()
                && final(self).workbook.worksheets@.len() == old(self).workbook.worksheets@.len() + 1
                && final(self).workbook.worksheets@.remove(sheet_index as int) =~= old(self).workbook.worksheets@
                && (forall|k: u32| final(self).workbook.worksheets@[sheet_index as int].views@.contains_key(k) ==> view_ok(#[trigger] final(self).workbook.worksheets@[sheet_index as int].views@[k]))
                && final(self).workbook.views == old(self).workbook.views && final(self).view_id == old(self).view_id
//@end
//@stub base/src/new_empty.rs Model::duplicate_sheet
    ensures r.is_err() ==> *final(self) == *old(self),
            r.is_ok() ==> (source_index as int) < old(self).workbook.worksheets@.len() && r.unwrap().1 == source_index + 1
                && final(self).workbook.worksheets@.len() == old(self).workbook.worksheets@.len() + 1
                && final(self).workbook.worksheets@.remove(source_index as int + 1) =~= old(self).workbook.worksheets@
                && final(self).workbook.worksheets@[source_index as int + 1].views == old(self).workbook.worksheets@[source_index as int].views
                && final(self).workbook.views == old(self).workbook.views && final(self).view_id == old(self).view_id
//@end
// A-valid-ok / A-atomic for the hidden flag (ASSUMED here; Worksheet::set_column_hidden / set_row_hidden carry the `Err iff off-grid`
// contract in units cols / rows and unit delegates proves the Model one-liners pass their arguments through)
//@stub base/src/model.rs Model::set_column_hidden
    ensures r.is_err() ==> *final(self) == *old(self),
            old(self).has_sheet(sheet) && 1 <= column <= 16384 ==> r.is_ok(),
            hidden_frame(old(self), final(self))
//@end
//@stub base/src/model.rs Model::set_row_hidden
    ensures r.is_err() ==> *final(self) == *old(self),
            old(self).has_sheet(sheet) && 1 <= row <= 1048576 ==> r.is_ok(),
            hidden_frame(old(self), final(self))
//@end
    pub open spec fn has_sheet(&self, sheet: u32) -> bool { (sheet as int) < self.workbook.worksheets@.len() }
// the engine's own sheet deletion / move (also under contract in unit modelatomic): validation first, then exactly one sheet
// is removed / re-positioned; the views are not touched
//@fn base/src/new_empty.rs Model::delete_sheet
//@spec
    ensures
        r.is_err() ==> final(self).workbook == old(self).workbook && final(self).view_id == old(self).view_id && final(self).rest == old(self).rest,
        r.is_ok() ==> old(self).workbook.worksheets@.len() > 1 && sheet_index < old(self).workbook.worksheets@.len()
            && final(self).workbook.worksheets@ =~= old(self).workbook.worksheets@.remove(sheet_index as int)
            && final(self).workbook.views == old(self).workbook.views && final(self).view_id == old(self).view_id,
//@rewrite `-> Result<(), String> {` => `-> (r: Result<(), String>) {`
//@end
//@fn base/src/new_empty.rs Model::move_sheet
//@spec
    ensures
        r.is_err() ==> final(self).workbook == old(self).workbook && final(self).view_id == old(self).view_id && final(self).rest == old(self).rest,
        r.is_ok() ==> sheet_index < old(self).workbook.worksheets@.len() && new_index < old(self).workbook.worksheets@.len()
            && final(self).workbook.views == old(self).workbook.views && final(self).view_id == old(self).view_id
            && (sheet_index == new_index ==> final(self).workbook.worksheets@ =~= old(self).workbook.worksheets@)
            && (sheet_index != new_index ==> final(self).workbook.worksheets@ =~= old(self).workbook.worksheets@.remove(sheet_index as int).insert(new_index as int, old(self).workbook.worksheets@[sheet_index as int])),
//@rewrite `-> Result<(), String> {` => `-> (r: Result<(), String>) {`
//@end
}
//@fn base/src/user_model/common.rs selected_sheet_after_move
//@spec
    requires selected < 4294967295
    ensures r <= selected || r <= from || r <= to,     // hence an existing sheet whenever the three indices are
//@rewrite `-> u32 {` => `-> (r: u32) {`
//@end
//@fn base/src/user_model/common.rs selected_sheet_after_delete
//@spec
    ensures selected < sheet_count && deleted < sheet_count && sheet_count > 1 ==> r < sheet_count - 1,
//@rewrite `-> u32 {` => `-> (r: u32) {`
//@end
impl History {
//@fn base/src/user_model/history.rs History::push
//@spec
    ensures
        final(self).undo_stack@ =~= old(self).undo_stack@.push(diff_list),
        final(self).redo_stack@.len() == 0,
//@end
}

impl Worksheet {
//@stub base/src/worksheet.rs Worksheet::is_row_hidden
    ensures r.is_ok() == (1 <= row <= 1048576)
//@end
//@stub base/src/worksheet.rs Worksheet::is_column_hidden
    ensures r.is_ok() == (1 <= column <= 16384)
//@end
}
impl Workbook {
//@stub base/src/workbook.rs Workbook::worksheet
    ensures r.is_ok() == ((worksheet_index as int) < self.worksheets@.len()),
            r.is_ok() ==> *r.unwrap() == self.worksheets@[worksheet_index as int]
//@end
//@stub base/src/workbook.rs Workbook::worksheet_mut
    ensures r.is_ok() == ((worksheet_index as int) < old(self).worksheets@.len()),
            r.is_err() ==> *final(self) == *old(self),
            r.is_ok() ==> *r.unwrap() == old(self).worksheets@[worksheet_index as int]
                && final(self).worksheets@ == old(self).worksheets@.update(worksheet_index as int, *final(r.unwrap()))
                && final(self).views == old(self).views && final(self).rest == old(self).rest && final(self).name == old(self).name
//@end
}

impl<'a> UserModel<'a> {
//@stub base/src/user_model/ui.rs UserModel::ui_row_height
//@end
//@stub base/src/user_model/ui.rs UserModel::ui_column_width
//@end
//@fn base/src/user_model/ui.rs UserModel::get_selected_sheet
//@spec
    ensures r as int == cur_sheet(&self.model)
//@rewrite `-> u32 {` => `-> (r: u32) {`
//@end

//@fn base/src/user_model/ui.rs UserModel::get_selected_cell
//@spec
    requires sel_inv(&self.model)
    ensures (r.0 as int) < self.model.workbook.worksheets@.len(), on_grid(r.1 as int, r.2 as int)
//@rewrite `-> (u32, i32, i32) {` => `-> (r: (u32, i32, i32)) {`
//@end

//@fn base/src/user_model/ui.rs UserModel::set_selected_sheet
//@spec
    requires views_inv(&old(self).model)     // (not sel_inv: this is the call that RE-establishes the selected sheet after a sheet was removed)
    ensures
        ui_frame(old(self), final(self)),
        r.is_ok() ==> sel_inv(&final(self).model),
        sel_inv(&old(self).model) ==> sel_inv(&final(self).model),
        r.is_err() ==> same_model(&final(self).model, &old(self).model),
        r.is_ok() == ((sheet as int) < old(self).model.workbook.worksheets@.len()),
        final(self).model.workbook.worksheets == old(self).model.workbook.worksheets,
        r.is_ok() && old(self).model.workbook.views@.contains_key(0) ==> final(self).model.workbook.views@[0].sheet == sheet,
//@rewrite `-> Result<(), String> {` => `-> (r: Result<(), String>) {`
//@end

//@fn base/src/user_model/ui.rs UserModel::set_selected_cell
//@spec
    requires sel_inv(&old(self).model)
    ensures
        ui_frame(old(self), final(self)),
        sel_inv(&final(self).model),
        r.is_err() ==> same_model(&final(self).model, &old(self).model),
        r.is_ok() == on_grid(row as int, column as int),
        final(self).model.workbook.views == old(self).model.workbook.views, final(self).model.view_id == old(self).model.view_id,
        final(self).model.workbook.worksheets@.len() == old(self).model.workbook.worksheets@.len(),
        // only view 0 of the current sheet changes: it gets the cell and the one-cell range
        forall|i: int, k: u32| 0 <= i < old(self).model.workbook.worksheets@.len() && !(i == cur_sheet(&old(self).model) && k == 0)
            ==> final(self).model.workbook.worksheets@[i].views@.contains_key(k) == old(self).model.workbook.worksheets@[i].views@.contains_key(k)
                && (old(self).model.workbook.worksheets@[i].views@.contains_key(k) ==> #[trigger] final(self).model.workbook.worksheets@[i].views@[k] == old(self).model.workbook.worksheets@[i].views@[k]),
        final(self).model.workbook.worksheets@[cur_sheet(&old(self).model)].views@.contains_key(0) == old(self).model.workbook.worksheets@[cur_sheet(&old(self).model)].views@.contains_key(0),
        r.is_ok() && old(self).model.workbook.worksheets@[cur_sheet(&old(self).model)].views@.contains_key(0) ==> ({
            let v = final(self).model.workbook.worksheets@[cur_sheet(&old(self).model)].views@[0];
            final(self).model.workbook.worksheets@[cur_sheet(&old(self).model)].views@.contains_key(0)
            && v.row == row && v.column == column && v.range@ =~= seq![row, column, row, column] }),
//@rewrite `-> Result<(), String> {` => `-> (r: Result<(), String>) {`
//@end

//@fn base/src/user_model/ui.rs UserModel::set_selected_range
//@spec
    requires sel_inv(&old(self).model)
    ensures
        ui_frame(old(self), final(self)),
        sel_inv(&final(self).model),
        r.is_err() ==> same_model(&final(self).model, &old(self).model),
        r.is_ok() ==> on_grid(start_row as int, start_column as int) && on_grid(end_row as int, end_column as int),
        final(self).model.workbook.views == old(self).model.workbook.views, final(self).model.view_id == old(self).model.view_id,
        final(self).model.workbook.worksheets@.len() == old(self).model.workbook.worksheets@.len(),
        forall|i: int, k: u32| 0 <= i < old(self).model.workbook.worksheets@.len() && !(i == cur_sheet(&old(self).model) && k == 0)
            ==> final(self).model.workbook.worksheets@[i].views@.contains_key(k) == old(self).model.workbook.worksheets@[i].views@.contains_key(k)
                && (old(self).model.workbook.worksheets@[i].views@.contains_key(k) ==> #[trigger] final(self).model.workbook.worksheets@[i].views@[k] == old(self).model.workbook.worksheets@[i].views@[k]),
        // a full row/column band through the selected cell is always accepted (what the hidden-line setters ask for)
        on_grid(start_row as int, start_column as int) && on_grid(end_row as int, end_column as int)
            && old(self).model.workbook.worksheets@[cur_sheet(&old(self).model)].views@.contains_key(0)
            && ({ let v = old(self).model.workbook.worksheets@[cur_sheet(&old(self).model)].views@[0];
                  (start_row == 1 && end_row == 1048576 && (v.column == start_column || v.column == end_column))
                  || (!(start_row == 1 && end_row == 1048576) && start_column == 1 && end_column == 16384 && (v.row == start_row || v.row == end_row)) })
            ==> r.is_ok(),
        on_grid(start_row as int, start_column as int) && on_grid(end_row as int, end_column as int)
            && !old(self).model.workbook.worksheets@[cur_sheet(&old(self).model)].views@.contains_key(0) ==> r.is_ok(),
        // a range with the selected cell at one of its corners is always accepted (what the paste operations ask for)
        on_grid(start_row as int, start_column as int) && on_grid(end_row as int, end_column as int)
            && old(self).model.workbook.worksheets@[cur_sheet(&old(self).model)].views@.contains_key(0)
            && ({ let v = old(self).model.workbook.worksheets@[cur_sheet(&old(self).model)].views@[0];
                  (v.row == start_row || v.row == end_row) && (v.column == start_column || v.column == end_column) })
            ==> r.is_ok(),
//@rewrite `) -> Result<(), String> {` => `) -> (r: Result<(), String>) {`
//@end

// the remaining writers of (row, column, range) in ui.rs.  The scroll arithmetic in front of these tails is f64 code (Verus
// cannot translate the i64 -> f64 casts), so page up/down are taken from the point where the new top row is known.
/// on_page_down from `let row_delta` on: `last_row` passed the is_valid_row check just above
pub fn on_page_down_tail(&mut self, sheet: u32, view: &WorksheetView, last_row: i32)
    requires sel_inv(&old(self).model), view_ok(*view), small(view.top_row as int), 1 <= last_row <= 1048576
    ensures sel_inv(&final(self).model)
{
//@fragment base/src/user_model/ui.rs UserModel::on_page_down `let row_delta = view.row - view.top_row;` .. `view.range = [view.row, view.column, view.row, view.column];`
//@end
}
/// on_page_up from `let row_delta` on: `first_row` only decreases from the (on-grid) top row and stops at 1
pub fn on_page_up_tail(&mut self, sheet: u32, view: &WorksheetView, first_row: i32)
    requires sel_inv(&old(self).model), view_ok(*view), small(view.top_row as int), small(first_row as int)
    ensures sel_inv(&final(self).model)
{
//@fragment base/src/user_model/ui.rs UserModel::on_page_up `let row_delta = view.row - view.top_row;` .. `view.range = [view.row, view.column, view.row, view.column];`
//@end
}

/// on_area_selecting, reading step: what it takes for the selected cell IS the selected cell of (sheet, view_id)
pub fn on_area_selecting_read(&self, sheet: u32) -> (r: Option<(i32, i32, i32, i32)>)
    ensures r matches Some(t) ==> (sheet as int) < self.model.workbook.worksheets@.len()
        && self.model.workbook.worksheets@[sheet as int].views@.contains_key(self.model.view_id)
        && t.0 == self.model.workbook.worksheets@[sheet as int].views@[self.model.view_id].row
        && t.1 == self.model.workbook.worksheets@[sheet as int].views@[self.model.view_id].column
{
//@fragment base/src/user_model/ui.rs UserModel::on_area_selecting `let (selected_row, selected_column, top_row, left_column) =` .. `};`
//@rewritex2 `return Ok(());` => `return None;`
//@end
    Some((selected_row, selected_column, top_row, left_column))
}
/// on_area_selecting, validation step: only on-grid targets get past it
pub fn on_area_selecting_validate(&self, target_row: i32, target_column: i32) -> (r: Result<(), String>)
    ensures r.is_ok() ==> on_grid(target_row as int, target_column as int)
{
//@fragment base/src/user_model/ui.rs UserModel::on_area_selecting `if !is_valid_row(target_row) {` .. `return Err(format!("Invalid column: '{target_column}'"));`
//@end
    Ok(())
}
/// on_area_selecting, writing step: the new area is anchored at the selected cell and ends at the (on-grid) target
pub fn on_area_selecting_write(&mut self, sheet: u32, selected_row: i32, selected_column: i32, target_row: i32, target_column: i32,
                               top_row: i32, new_top_row: i32, left_column: i32, new_left_column: i32)
    requires sel_inv(&old(self).model), on_grid(target_row as int, target_column as int),
        (sheet as int) < old(self).model.workbook.worksheets@.len() && old(self).model.workbook.worksheets@[sheet as int].views@.contains_key(old(self).model.view_id)
            ==> selected_row == old(self).model.workbook.worksheets@[sheet as int].views@[old(self).model.view_id].row
             && selected_column == old(self).model.workbook.worksheets@[sheet as int].views@[old(self).model.view_id].column,
    ensures sel_inv(&final(self).model)
{
//@fragment base/src/user_model/ui.rs UserModel::on_area_selecting `if let Ok(worksheet) = self.model.workbook.worksheet_mut(sheet) {` .. `view.left_column = new_left_column;`
//@end
}

// arrow keys: the write step (the target line is proved on-grid in unit nav; here: writing it keeps the invariant).
// D2: the scroll adjustment after the range assignment (f64 comparison with an i64 -> f64 cast) is dropped where present.
pub fn on_arrow_right_write(&mut self, sheet: u32, new_column: i32)
    requires sel_inv(&old(self).model), 1 <= new_column <= 16384
    ensures sel_inv(&final(self).model)
{
//@fragment base/src/user_model/ui.rs UserModel::on_arrow_right `if let Ok(worksheet) = self.model.workbook.worksheet_mut(sheet) {` ..< `if width > window_width as f64 {`
//@end
}
pub fn on_arrow_left_write(&mut self, sheet: u32, new_column: i32)
    requires sel_inv(&old(self).model), 1 <= new_column <= 16384
    ensures sel_inv(&final(self).model)
{
//@fragment base/src/user_model/ui.rs UserModel::on_arrow_left `if let Ok(worksheet) = self.model.workbook.worksheet_mut(sheet) {` .. `view.left_column = new_column;`
//@end
}
pub fn on_arrow_up_write(&mut self, sheet: u32, new_row: i32)
    requires sel_inv(&old(self).model), 1 <= new_row <= 1048576
    ensures sel_inv(&final(self).model)
{
//@fragment base/src/user_model/ui.rs UserModel::on_arrow_up `if let Ok(worksheet) = self.model.workbook.worksheet_mut(sheet) {` .. `view.top_row = new_row;`
//@end
}
pub fn on_arrow_down_write(&mut self, sheet: u32, new_row: i32)
    requires sel_inv(&old(self).model), 1 <= new_row <= 1048576
    ensures sel_inv(&final(self).model)
{
//@fragment base/src/user_model/ui.rs UserModel::on_arrow_down `if let Ok(worksheet) = self.model.workbook.worksheet_mut(sheet) {` ..< `if height > window_height as f64 {`
//@end
}
/// Ctrl+arrow: whatever Worksheet::navigate_to_edge_in_direction answers is validated before it is written
pub fn on_navigate_validate(&self, new_row: i32, new_column: i32) -> (r: Result<(), String>)
    ensures r.is_ok() ==> on_grid(new_row as int, new_column as int)
{
//@fragment base/src/user_model/ui.rs UserModel::on_navigate_to_edge_in_direction `if !is_valid_row(new_row) || !is_valid_column_number(new_column) {` .. `return Err("Invalid row or column after navigation".to_string());`
//@end
    Ok(())
}
pub fn on_navigate_write(&mut self, sheet: u32, new_row: i32, new_column: i32, top_row: i32, left_column: i32)
    requires sel_inv(&old(self).model), on_grid(new_row as int, new_column as int)
    ensures sel_inv(&final(self).model)
{
//@fragment base/src/user_model/ui.rs UserModel::on_navigate_to_edge_in_direction `if let Ok(worksheet) = self.model.workbook.worksheet_mut(sheet) {` .. `view.left_column = left_column;`
//@end
}

// ---- sheet operations of the user model: the selection stays on an existing sheet; a failed call changes nothing ----
//@fn base/src/user_model/common.rs UserModel::push_diff_list
//@spec
    ensures
        final(self).model == old(self).model, final(self).pause_evaluation == old(self).pause_evaluation,
        one_entry(old(self), final(self)),
//@end
//@fn base/src/user_model/common.rs UserModel::evaluate_if_not_paused
//@spec
    ensures
        final(self).history == old(self).history, final(self).send_queue == old(self).send_queue,
        sel_inv(&old(self).model) ==> sel_inv(&final(self).model),
//@end
//@fn base/src/user_model/common.rs UserModel::delete_sheet
//@spec
    requires sel_inv(&old(self).model), few_sheets(&old(self).model)
    ensures sel_inv(&final(self).model),
        r.is_err() ==> same_state_v(old(self), final(self)),
        r.is_ok() ==> one_entry(old(self), final(self)),
//@rewrite `-> Result<(), String> {` => `-> (r: Result<(), String>) {`
//@end
//@fn base/src/user_model/common.rs UserModel::move_sheet
//@spec
    requires sel_inv(&old(self).model), few_sheets(&old(self).model)
    ensures sel_inv(&final(self).model),
        r.is_err() ==> same_state_v(old(self), final(self)),
        r.is_ok() ==> one_entry(old(self), final(self)) || same_state_v(old(self), final(self)),
//@rewrite `-> Result<(), String> {` => `-> (r: Result<(), String>) {`
//@end

//@fn base/src/user_model/common.rs UserModel::hide_sheet
//@attr
#[verifier::loop_isolation(false)]
//@spec
    requires sel_inv(&old(self).model), few_sheets(&old(self).model)
    ensures sel_inv(&final(self).model),
        r.is_err() ==> same_state_v(old(self), final(self)),
        r.is_ok() ==> one_entry(old(self), final(self)),
//@rewrite `-> Result<(), String> {` => `-> (r: Result<(), String>) {`
//@loop 1
            invariant sel_inv(&self.model), self.model.workbook.worksheets@.len() == sheet_count, sheet < sheet_count,
                self.history == old(self).history, self.send_queue == old(self).send_queue, self.pause_evaluation == old(self).pause_evaluation,
//@end
//@fn base/src/user_model/common.rs UserModel::new_sheet
//@spec
    requires sel_inv(&old(self).model), few_sheets(&old(self).model)
    ensures sel_inv(&final(self).model),
        r.is_ok(),     // (the Err exit after the engine call is unreachable)
        one_entry(old(self), final(self)),
//@rewrite `-> Result<(), String> {` => `-> (r: Result<(), String>) {`
//@after `self.model.new_sheet();`
        proof {
            let n = old(self).model.workbook.worksheets@.len() as int;
            assert forall|i: int, k: u32| 0 <= i < n + 1 && self.model.workbook.worksheets@[i].views@.contains_key(k)
                implies view_ok(#[trigger] self.model.workbook.worksheets@[i].views@[k]) by {
                if i < n { assert(self.model.workbook.worksheets@[i] == self.model.workbook.worksheets@.drop_last()[i]); }
                else { assert(self.model.workbook.worksheets@[i] == self.model.workbook.worksheets@.last()); }
            }
        }
//@end
//@fn base/src/user_model/common.rs UserModel::duplicate_sheet
//@spec
    requires sel_inv(&old(self).model), few_sheets(&old(self).model)
    ensures sel_inv(&final(self).model),
        r.is_err() ==> same_state_v(old(self), final(self)),
        r.is_ok() ==> one_entry(old(self), final(self)),
//@rewrite `-> Result<(), String> {` => `-> (r: Result<(), String>) {`
//@after `self.model.duplicate_sheet(sheet)?;`
        proof {
            let n = old(self).model.workbook.worksheets@.len() as int;
            let s0 = old(self).model.workbook.worksheets@;
            let s1 = self.model.workbook.worksheets@;
            assert forall|i: int, k: u32| 0 <= i < n + 1 && s1[i].views@.contains_key(k) implies view_ok(#[trigger] s1[i].views@[k]) by {
                if i < sheet + 1 { assert(s1[i] == s1.remove(sheet as int + 1)[i]); }
                else if i > sheet + 1 { assert(s1[i] == s1.remove(sheet as int + 1)[i - 1]); }
                else { assert(s1[i].views == s0[sheet as int].views); }
            }
        }
//@end

// hiding lines: the whole request is validated before the first line is touched, the search for the next visible line never
// leaves the grid, and the re-selection it ends with is always accepted (R4 on the inclusive-range `for`, as in unit atomic)
//@fn base/src/user_model/common.rs UserModel::set_columns_hidden
//@attr
#[verifier::loop_isolation(false)]
//@spec
    requires sel_inv(&old(self).model), small(column_start as int), small(column_end as int)
    ensures sel_inv(&final(self).model),
        r.is_err() ==> same_state_v(old(self), final(self)),
        r.is_ok() ==> one_entry(old(self), final(self)),
//@rewrite `) -> Result<(), String> {` => `) -> (r: Result<(), String>) {`
//@forwhile 1
//@loop 1
            invariant column_start <= __column, column_start <= column_end ==> __column <= column_end + 1, column_start > column_end ==> __column == column_start,
                hidden_frame(&old(self).model, &self.model), self.history == old(self).history, self.send_queue == old(self).send_queue,
                self.pause_evaluation == old(self).pause_evaluation,
                __column == column_start ==> same_state_v(old(self), self),
            decreases column_end + 1 - __column
//@loop 2
                    invariant column_start <= column_end ==> column_end < column <= 16385,
                        column_start > column_end ==> same_state_v(old(self), self),
                        hidden_frame(&old(self).model, &self.model), self.history == old(self).history, self.send_queue == old(self).send_queue,
                        self.pause_evaluation == old(self).pause_evaluation,
                    decreases 16385 - column
//@loop 3
                        invariant column_start <= column_end ==> 0 <= column < column_start,
                            column_start > column_end ==> same_state_v(old(self), self),
                            hidden_frame(&old(self).model, &self.model), self.history == old(self).history, self.send_queue == old(self).send_queue,
                            self.pause_evaluation == old(self).pause_evaluation,
                        decreases column
//@end
//@fn base/src/user_model/common.rs UserModel::set_rows_hidden
//@attr
#[verifier::loop_isolation(false)]
//@spec
    requires sel_inv(&old(self).model), small(row_start as int), small(row_end as int)
    ensures sel_inv(&final(self).model),
        r.is_err() ==> same_state_v(old(self), final(self)),
        r.is_ok() ==> one_entry(old(self), final(self)),
//@rewrite `) -> Result<(), String> {` => `) -> (r: Result<(), String>) {`
//@forwhile 1
//@loop 1
            invariant row_start <= __row, row_start <= row_end ==> __row <= row_end + 1, row_start > row_end ==> __row == row_start,
                hidden_frame(&old(self).model, &self.model), self.history == old(self).history, self.send_queue == old(self).send_queue,
                self.pause_evaluation == old(self).pause_evaluation,
                __row == row_start ==> same_state_v(old(self), self),
            decreases row_end + 1 - __row
//@loop 2
                    invariant row_start <= row_end ==> row_end < row <= 1048577,
                        row_start > row_end ==> same_state_v(old(self), self),
                        hidden_frame(&old(self).model, &self.model), self.history == old(self).history, self.send_queue == old(self).send_queue,
                        self.pause_evaluation == old(self).pause_evaluation,
                    decreases 1048577 - row
//@loop 3
                        invariant row_start <= row_end ==> 0 <= row < row_start,
                            row_start > row_end ==> same_state_v(old(self), self),
                            hidden_frame(&old(self).model, &self.model), self.history == old(self).history, self.send_queue == old(self).send_queue,
                            self.pause_evaluation == old(self).pause_evaluation,
                        decreases row
//@end

/// paste_csv_string / paste_from_clipboard, last step (it runs AFTER the cells were written and the undo entry pushed, so it must not
/// fail: C04): the active cell is moved to the first pasted cell, which makes the range selection acceptable
pub fn paste_csv_select(&mut self, area_row: i32, area_column: i32, row: i32, last_column: i32) -> (r: Result<(), String>)
    requires sel_inv(&old(self).model), on_grid(area_row as int, area_column as int), on_grid(row - 1, last_column as int)
    ensures r.is_ok(), sel_inv(&final(self).model)
{
//@fragment base/src/user_model/clipboard.rs UserModel::paste_csv_string `self.set_selected_cell(area.row, area.column)?;` .. `self.set_selected_range(area.row, area.column, row - 1, last_column)?;`
//@rewritex2 `area.row` => `area_row`
//@rewritex2 `area.column` => `area_column`
//@end
    Ok(())
}
pub fn paste_clipboard_select(&mut self, selected_row: i32, selected_column: i32, max_row: i32, max_column: i32) -> (r: Result<(), String>)
    requires sel_inv(&old(self).model), on_grid(selected_row as int, selected_column as int), on_grid(max_row as int, max_column as int)
    ensures r.is_ok(), sel_inv(&final(self).model)
{
//@fragment base/src/user_model/clipboard.rs UserModel::paste_from_clipboard `self.set_selected_cell(selected_row, selected_column)?;` .. `self.set_selected_range(selected_row, selected_column, max_row, max_column)?;`
//@end
    Ok(())
}
/// on_paste_styles, area step: the area that gets styled (and then selected) covers the old selected range, whichever way that range
/// was dragged, and lies on the grid — checked BEFORE the first cell is styled (C04)
pub fn on_paste_styles_area(range: [i32; 4], styles_height: i32, styles_width: i32) -> (r: Result<(i32, i32, i32, i32), String>)
    requires on_grid(range@[0] as int, range@[1] as int), on_grid(range@[2] as int, range@[3] as int), 0 <= styles_height <= 4194304, 0 <= styles_width <= 4194304
    ensures r matches Ok(t) ==> {
        &&& 1 <= t.0 <= t.2 <= 1048576 && 1 <= t.1 <= t.3 <= 16384
        &&& t.0 <= range@[0] <= t.2 && t.0 <= range@[2] <= t.2 && t.1 <= range@[1] <= t.3 && t.1 <= range@[3] <= t.3
    }
{
//@fragment base/src/user_model/common.rs UserModel::on_paste_styles `let [row1, column1, row2, column2] = range;` .. `return Err("Incorrect row or column".to_string());`
//@end
    Ok((row_start, column_start, last_row, last_column))
}
/// on_paste_styles, last step: that area becomes the selected range; the selected cell, which was inside the old range, is inside it
pub fn on_paste_styles_select(&mut self, sheet: u32, range: [i32; 4], row_start: i32, column_start: i32, last_row: i32, last_column: i32, styles_height: i32, styles_width: i32)
    requires sel_inv(&old(self).model),
        (sheet as int) < old(self).model.workbook.worksheets@.len() && old(self).model.workbook.worksheets@[sheet as int].views@.contains_key(old(self).model.view_id)
            ==> old(self).model.workbook.worksheets@[sheet as int].views@[old(self).model.view_id].range@ =~= range@,
        1 <= row_start <= last_row <= 1048576 && 1 <= column_start <= last_column <= 16384,
        row_start <= range@[0] <= last_row && row_start <= range@[2] <= last_row && column_start <= range@[1] <= last_column && column_start <= range@[3] <= last_column,
    ensures sel_inv(&final(self).model)
{
//@fragment base/src/user_model/common.rs UserModel::on_paste_styles `if let Ok(worksheet) = self.model.workbook.worksheet_mut(sheet) {` .. `view.range = `
//@end
}

}
/// the views a NEW worksheet is created with (Model::new_empty_worksheet): one per workbook view id, each with the selection on A1 — this is what
/// backs the assumed clause "a new sheet arrives with on-grid views" of the Model::new_sheet / insert_sheet stubs above
pub fn new_worksheet_views(view_ids: &[&u32]) -> (views: HashMap<u32, WorksheetView>)
    ensures forall|k: u32| views@.contains_key(k) ==> view_ok(#[trigger] views@[k])
{
//@fragment base/src/new_empty.rs Model::new_empty_worksheet `let mut views = HashMap::new();` .. `left_column: 1,`
//@loop 1 it
            invariant forall|k: u32| views@.contains_key(k) ==> view_ok(#[trigger] views@[k])
//@end
    views
}
impl<'a> UserModel<'a> {
// ---- undo / redo of the sheet-structure diffs: the selection is an existing sheet afterwards (C28: "undoing or redoing such changes
// keep the selection on an existing sheet") ----
pub proof fn lemma_inserted_views_ok(s0: Seq<Worksheet>, s1: Seq<Worksheet>, at: int)
    requires 0 <= at <= s0.len(), s1.len() == s0.len() + 1, s1.remove(at) =~= s0,
        forall|i: int, k: u32| 0 <= i < s0.len() && s0[i].views@.contains_key(k) ==> view_ok(#[trigger] s0[i].views@[k]),
        forall|k: u32| s1[at].views@.contains_key(k) ==> view_ok(#[trigger] s1[at].views@[k]),
    ensures forall|i: int, k: u32| 0 <= i < s1.len() && s1[i].views@.contains_key(k) ==> view_ok(#[trigger] s1[i].views@[k])
{
    assert forall|i: int, k: u32| 0 <= i < s1.len() && s1[i].views@.contains_key(k) implies view_ok(#[trigger] s1[i].views@[k]) by {
        if i < at { assert(s1[i] == s1.remove(at)[i]); } else if i > at { assert(s1[i] == s1.remove(at)[i - 1]); }
    }
}
pub fn redo_arm_delete_sheet(&mut self, sheet: &u32) -> (r: Result<(), String>)
    requires sel_inv(&old(self).model), few_sheets(&old(self).model)
    ensures r.is_ok() ==> sel_inv(&final(self).model)
{
//@arm base/src/user_model/undo_redo.rs UserModel::apply_diff_list `Diff::DeleteSheet {`
//@end
    ;
    Ok(())
}
pub fn redo_arm_new_sheet(&mut self, index: &u32, name: &String) -> (r: Result<(), String>)
    requires sel_inv(&old(self).model), few_sheets(&old(self).model)
    ensures r.is_ok() ==> sel_inv(&final(self).model)
{
//@arm base/src/user_model/undo_redo.rs UserModel::apply_diff_list `Diff::NewSheet {`
//@after `self.model.insert_sheet(name, *index, None)?;`
                    proof { Self::lemma_inserted_views_ok(old(self).model.workbook.worksheets@, self.model.workbook.worksheets@, *index as int); }
//@end
    ;
    Ok(())
}
pub fn redo_arm_duplicate_sheet(&mut self, source_index: &u32, new_index: &u32) -> (r: Result<(), String>)
    requires sel_inv(&old(self).model), few_sheets(&old(self).model)
    ensures r.is_ok() ==> sel_inv(&final(self).model)
{
    let mut needs_evaluation = false;
//@arm base/src/user_model/undo_redo.rs UserModel::apply_diff_list `Diff::DuplicateSheet {`
//@after `self.model.duplicate_sheet(*source_index)?;`
                    proof { Self::lemma_inserted_views_ok(old(self).model.workbook.worksheets@, self.model.workbook.worksheets@, *source_index as int + 1); }
//@end
    ;
    Ok(())
}
pub fn redo_arm_move_sheet(&mut self, sheet_index: &u32, new_index: &u32) -> (r: Result<(), String>)
    requires sel_inv(&old(self).model), few_sheets(&old(self).model)
    ensures r.is_ok() ==> sel_inv(&final(self).model)
{
//@arm base/src/user_model/undo_redo.rs UserModel::apply_diff_list `Diff::MoveSheet {`
//@end
    ;
    Ok(())
}
pub fn undo_arm_new_sheet(&mut self, index: &u32) -> (r: Result<(), String>)
    requires sel_inv(&old(self).model), few_sheets(&old(self).model),
        *index >= 1,      // the recorded index is where Model::new_sheet appended the sheet, in a workbook that already had one
    ensures r.is_ok() ==> sel_inv(&final(self).model)
{
//@arm base/src/user_model/undo_redo.rs UserModel::apply_undo_diff_list `Diff::NewSheet {`
//@end
    ;
    Ok(())
}
pub fn undo_arm_duplicate_sheet(&mut self, source_index: &u32, new_index: &u32) -> (r: Result<(), String>)
    requires sel_inv(&old(self).model), few_sheets(&old(self).model),
        *source_index < *new_index,     // the copy was placed right after its source
    ensures r.is_ok() ==> sel_inv(&final(self).model)
{
    let mut needs_evaluation = false;
//@arm base/src/user_model/undo_redo.rs UserModel::apply_undo_diff_list `Diff::DuplicateSheet {`
//@dropstmt `.retain(`
//@end
    ;
    Ok(())
}
pub fn undo_arm_move_sheet(&mut self, sheet_index: &u32, new_index: &u32) -> (r: Result<(), String>)
    requires sel_inv(&old(self).model), few_sheets(&old(self).model)
    ensures r.is_ok() ==> sel_inv(&final(self).model)
{
//@arm base/src/user_model/undo_redo.rs UserModel::apply_undo_diff_list `Diff::MoveSheet {`
//@end
    ;
    Ok(())
}
}

} // verus!
fn main() {}
