// Selection setters of the user model (ui.rs) and the sheet / hidden-line operations that move the selection: the selected
// sheet exists, the selected cell lies in the selected range, both lie on the grid — as an invariant every operation under
// contract preserves, for all workbooks.   (C28; C04 for the Err paths)
#![feature(allocator_api)]
use vstd::prelude::*;
use vstd::std_specs::hash::*;
use std::collections::HashMap;
verus! {
pub mod std_hash_m {
    #[allow(unused_imports)] use super::*;
//@include std_hash.rs
}
pub use std_hash_m::*;
broadcast use vstd::std_specs::hash::group_hash_axioms, std_hash_m::axiom_hm_mutated_deref;
pub mod constants {
    #[allow(unused_imports)] use super::*;
//@type base/src/constants.rs LAST_COLUMN
//@type base/src/constants.rs LAST_ROW
}
pub use constants::{LAST_COLUMN, LAST_ROW};
//@fn base/src/expressions/utils/mod.rs is_valid_column_number
//@spec
    ensures r == (1 <= column <= 16384)
//@rewrite `-> bool` => `-> (r: bool)`
//@end
//@fn base/src/expressions/utils/mod.rs is_valid_row
//@spec
    ensures r == (1 <= row <= 1048576)
//@rewrite `-> bool` => `-> (r: bool)`
//@end
//@type base/src/types.rs WorkbookView
//@type base/src/types.rs WorksheetView
//@type base/src/user_model/ui.rs SelectedView
// ---- context shells (D5): the fields the selection code touches; everything else behind an opaque rest ----
#[verifier::external_body] pub struct WorksheetRest { _o: u8 }
#[verifier::external_body] pub struct WorkbookRest { _o: u8 }
#[verifier::external_body] pub struct ModelRest { _o: u8 }
pub struct Worksheet { pub views: HashMap<u32, WorksheetView>, pub rest: WorksheetRest }
pub struct Workbook { pub worksheets: Vec<Worksheet>, pub views: HashMap<u32, WorkbookView>, pub rest: WorkbookRest }
pub struct Model { pub workbook: Workbook, pub view_id: u32, pub rest: ModelRest }
pub struct UserModel { pub model: Model }

pub open spec fn on_grid(row: int, column: int) -> bool { 1 <= row <= 1048576 && 1 <= column <= 16384 }
pub open spec fn between(x: int, a: int, b: int) -> bool { a <= x <= b || b <= x <= a }
/// C28 for one worksheet view: cell and range on the grid, cell inside the range
pub open spec fn view_ok(v: WorksheetView) -> bool {
    on_grid(v.row as int, v.column as int) && on_grid(v.range@[0] as int, v.range@[1] as int) && on_grid(v.range@[2] as int, v.range@[3] as int)
        && between(v.row as int, v.range@[0] as int, v.range@[2] as int) && between(v.column as int, v.range@[1] as int, v.range@[3] as int)
}
/// C28 for the workbook: every view's selected sheet exists, every worksheet view is view_ok
pub open spec fn sel_inv(m: &Model) -> bool {
    &&& m.workbook.worksheets@.len() >= 1
    &&& forall|k: u32| m.workbook.views@.contains_key(k) ==> (#[trigger] m.workbook.views@[k]).sheet < m.workbook.worksheets@.len()
    &&& forall|i: int, k: u32| 0 <= i < m.workbook.worksheets@.len() && m.workbook.worksheets@[i].views@.contains_key(k)
            ==> view_ok(#[trigger] m.workbook.worksheets@[i].views@[k])
}
/// equality of engine states as far as this unit can see them (hash maps compared by their contents)
pub open spec fn same_model(a: &Model, b: &Model) -> bool {
    &&& a.view_id == b.view_id && a.rest == b.rest && a.workbook.rest == b.workbook.rest && a.workbook.views@ =~= b.workbook.views@
    &&& a.workbook.worksheets@.len() == b.workbook.worksheets@.len()
    &&& forall|i: int| 0 <= i < a.workbook.worksheets@.len() ==> (#[trigger] a.workbook.worksheets@[i]).rest == b.workbook.worksheets@[i].rest
            && a.workbook.worksheets@[i].views@ =~= b.workbook.worksheets@[i].views@
}
/// the sheet the selection setters work on (the code's own rule: the view's sheet, 0 without a view)
pub open spec fn cur_sheet(m: &Model) -> int {
    if m.workbook.views@.contains_key(m.view_id) { m.workbook.views@[m.view_id].sheet as int } else { 0 }
}

impl Workbook {
//@stub base/src/workbook.rs Workbook::worksheet
    ensures r.is_ok() == ((worksheet_index as int) < self.worksheets@.len()),
            r.is_ok() ==> *r.unwrap() == self.worksheets@[worksheet_index as int]
//@end
//@stub base/src/workbook.rs Workbook::worksheet_mut
    ensures r.is_ok() == ((worksheet_index as int) < old(self).worksheets@.len()),
            r.is_err() ==> *final(self) == *old(self),
            r.is_ok() ==> *r.unwrap() == old(self).worksheets@[worksheet_index as int]
                && final(self).worksheets@ == old(self).worksheets@.update(worksheet_index as int, *final(r.unwrap()))
                && final(self).views == old(self).views && final(self).rest == old(self).rest
//@end
}

impl UserModel {
//@fn base/src/user_model/ui.rs UserModel::get_selected_sheet
//@spec
    ensures r as int == cur_sheet(&self.model)
//@rewrite `-> u32 {` => `-> (r: u32) {`
//@end

//@fn base/src/user_model/ui.rs UserModel::get_selected_cell
//@spec
    requires sel_inv(&self.model)
    ensures (r.0 as int) < self.model.workbook.worksheets@.len(), on_grid(r.1 as int, r.2 as int)
//@rewrite `-> (u32, i32, i32) {` => `-> (r: (u32, i32, i32)) {`
//@end

//@fn base/src/user_model/ui.rs UserModel::set_selected_sheet
//@spec
    requires sel_inv(&old(self).model)
    ensures
        sel_inv(&final(self).model),
        r.is_err() ==> same_model(&final(self).model, &old(self).model),
        r.is_ok() == ((sheet as int) < old(self).model.workbook.worksheets@.len()),
        final(self).model.workbook.worksheets == old(self).model.workbook.worksheets,
        r.is_ok() && old(self).model.workbook.views@.contains_key(0) ==> final(self).model.workbook.views@[0].sheet == sheet,
//@rewrite `-> Result<(), String> {` => `-> (r: Result<(), String>) {`
//@end

//@fn base/src/user_model/ui.rs UserModel::set_selected_cell
//@spec
    requires sel_inv(&old(self).model)
    ensures
        sel_inv(&final(self).model),
        r.is_err() ==> same_model(&final(self).model, &old(self).model),
        r.is_ok() == on_grid(row as int, column as int),
        final(self).model.workbook.views == old(self).model.workbook.views, final(self).model.view_id == old(self).model.view_id,
        final(self).model.workbook.worksheets@.len() == old(self).model.workbook.worksheets@.len(),
        // only view 0 of the current sheet changes: it gets the cell and the one-cell range
        forall|i: int, k: u32| 0 <= i < old(self).model.workbook.worksheets@.len() && !(i == cur_sheet(&old(self).model) && k == 0)
            ==> final(self).model.workbook.worksheets@[i].views@.contains_key(k) == old(self).model.workbook.worksheets@[i].views@.contains_key(k)
                && (old(self).model.workbook.worksheets@[i].views@.contains_key(k) ==> #[trigger] final(self).model.workbook.worksheets@[i].views@[k] == old(self).model.workbook.worksheets@[i].views@[k]),
        r.is_ok() && old(self).model.workbook.worksheets@[cur_sheet(&old(self).model)].views@.contains_key(0) ==> ({
            let v = final(self).model.workbook.worksheets@[cur_sheet(&old(self).model)].views@[0];
            final(self).model.workbook.worksheets@[cur_sheet(&old(self).model)].views@.contains_key(0)
            && v.row == row && v.column == column && v.range@ =~= seq![row, column, row, column] }),
//@rewrite `-> Result<(), String> {` => `-> (r: Result<(), String>) {`
//@end

//@fn base/src/user_model/ui.rs UserModel::set_selected_range
//@spec
    requires sel_inv(&old(self).model)
    ensures
        sel_inv(&final(self).model),
        r.is_err() ==> same_model(&final(self).model, &old(self).model),
        r.is_ok() ==> on_grid(start_row as int, start_column as int) && on_grid(end_row as int, end_column as int),
        final(self).model.workbook.views == old(self).model.workbook.views, final(self).model.view_id == old(self).model.view_id,
        final(self).model.workbook.worksheets@.len() == old(self).model.workbook.worksheets@.len(),
        forall|i: int, k: u32| 0 <= i < old(self).model.workbook.worksheets@.len() && !(i == cur_sheet(&old(self).model) && k == 0)
            ==> final(self).model.workbook.worksheets@[i].views@.contains_key(k) == old(self).model.workbook.worksheets@[i].views@.contains_key(k)
                && (old(self).model.workbook.worksheets@[i].views@.contains_key(k) ==> #[trigger] final(self).model.workbook.worksheets@[i].views@[k] == old(self).model.workbook.worksheets@[i].views@[k]),
        // a full row/column band through the selected cell is always accepted (what the hidden-line setters ask for)
        on_grid(start_row as int, start_column as int) && on_grid(end_row as int, end_column as int)
            && old(self).model.workbook.worksheets@[cur_sheet(&old(self).model)].views@.contains_key(0)
            && ({ let v = old(self).model.workbook.worksheets@[cur_sheet(&old(self).model)].views@[0];
                  (start_row == 1 && end_row == 1048576 && (v.column == start_column || v.column == end_column))
                  || (!(start_row == 1 && end_row == 1048576) && start_column == 1 && end_column == 16384 && (v.row == start_row || v.row == end_row)) })
            ==> r.is_ok(),
//@rewrite `) -> Result<(), String> {` => `) -> (r: Result<(), String>) {`
//@end
}

} // verus!
fn main() {}
