// ---- ws_types.rs: the real Worksheet/Col/Row types; field types no unit looks into are opaque ----
#[verifier::external_body] pub struct SheetData { _o: u8 }
#[verifier::external_body] pub struct SheetState { _o: u8 }
#[verifier::external_body] pub struct Color { _o: u8 }
#[verifier::external_body] pub struct Comment { _o: u8 }
#[verifier::external_body] pub struct WorksheetView { _o: u8 }
#[verifier::external_body] pub struct ConditionalFormatting { _o: u8 }
#[verifier::external_body] pub struct Link { _o: u8 }
pub mod constants {
    #[allow(unused_imports)] use super::*;
//@type base/src/constants.rs DEFAULT_COLUMN_WIDTH
//@type base/src/constants.rs DEFAULT_ROW_HEIGHT
//@type base/src/constants.rs COLUMN_WIDTH_FACTOR
//@type base/src/constants.rs ROW_HEIGHT_FACTOR
//@type base/src/constants.rs LAST_COLUMN
//@type base/src/constants.rs LAST_ROW
}
pub use constants::{LAST_COLUMN, LAST_ROW};
//@type base/src/types.rs Col
//@type base/src/types.rs Row
//@type base/src/types.rs Worksheet
//@fn base/src/expressions/utils/mod.rs is_valid_column_number
//@spec
    ensures r == (1 <= column <= 16384)
//@rewrite `-> bool` => `-> (r: bool)`
//@end
//@fn base/src/expressions/utils/mod.rs is_valid_row
//@spec
    ensures r == (1 <= row <= 1048576)
//@rewrite `-> bool` => `-> (r: bool)`
//@end
