// C19 (sign slice): in parse_formatted_number, every way of recognising "-<currency><number>" stores the NEGATED magnitude, and the
// plain "<currency><number>" / "<number><currency>" forms store the magnitude as parsed.
use vstd::prelude::*;
use vstd::std_specs::ops::*;
verus! {
//@type base/src/formatter/format.rs NumberOptions
/// the magnitude parse_number returned for the text after the sign and currency symbol (opaque: float text conversion)
pub uninterp spec fn g_f() -> f64;
#[verifier::external_body]
pub fn parse_number(value: &str, decimal_separator: char, group_separator: char) -> (r: Result<(f64, NumberOptions), String>)
    ensures r matches Ok((f, _)) ==> f == g_f()
{ unimplemented!() }
// Verus cannot read unary minus on f64: `-f` is read as this shim (result uninterpreted except that it is the negation relation)
pub uninterp spec fn is_neg(a: f64, b: f64) -> bool;
#[verifier::external_body]
pub fn shim_neg(a: f64) -> (r: f64) ensures is_neg(a, r) { -a }
pub assume_specification [str::trim] (s: &str) -> (r: &str);

pub fn negative_currency_case(p: &str, currency: &str, scientific_format: &str, decimal_separator: char, group_separator: char) -> (r: Result<(f64, Option<String>), String>)
    ensures r matches Ok((v, _)) ==> is_neg(g_f(), v)      // the stored value is -magnitude on EVERY accepting path
{
//@fragment#2 base/src/formatter/format.rs parse_formatted_number `let (f, options) = parse_number(p.trim(), decimal_separator, group_separator)?;` .. `return Ok((-f, Some(format!("{currency}#,##0"))));`
//@rewrite* `Ok((-f,` => `Ok((shim_neg(f),`
//@end
}
pub fn positive_currency_prefix_case(p: &str, currency: &str, scientific_format: &str, decimal_separator: char, group_separator: char) -> (r: Result<(f64, Option<String>), String>)
    ensures r matches Ok((v, _)) ==> v == g_f()
{
//@fragment#3 base/src/formatter/format.rs parse_formatted_number `let (f, options) = parse_number(p.trim(), decimal_separator, group_separator)?;` .. `return Ok((f, Some(format!("{currency}#,##0"))));`
//@end
}

} // verus!
fn main() {}
