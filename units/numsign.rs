// C19 (sign slice): in parse_formatted_number, every way of recognising "-<currency><number>" stores the NEGATED magnitude, and the
// plain "<currency><number>" / "<number><currency>" forms store the magnitude as parsed.
use vstd::prelude::*;
use vstd::std_specs::ops::*;
verus! {
//@type base/src/formatter/format.rs NumberOptions
/// the magnitude parse_number returned for the text after the sign and currency symbol (opaque: float text conversion)
pub uninterp spec fn g_f() -> f64;
#[verifier::external_body]
pub fn parse_number(value: &str, decimal_separator: char, group_separator: char) -> (r: Result<(f64, NumberOptions), String>)
    ensures r matches Ok((f, _)) ==> f == g_f()
{ unimplemented!() }
// Verus cannot read unary minus on f64: `-f` is read as this shim (result uninterpreted except that it is the negation relation)
pub uninterp spec fn is_neg(a: f64, b: f64) -> bool;
#[verifier::external_body]
pub fn shim_neg(a: f64) -> (r: f64) ensures is_neg(a, r) { -a }
pub uninterp spec fn trimmed(s: Seq<char>) -> Seq<char>;
pub assume_specification [str::trim] (s: &str) -> (r: &str) ensures r@ == trimmed(s@);
pub open spec fn signed(s: Seq<char>) -> bool { s.len() > 0 && (s[0] == '-' || s[0] == '+') }
/// `<str>.starts_with(['-', '+'])`
#[verifier::external_body]
pub fn starts_with_sign(s: &str) -> (r: bool) ensures r == signed(s@) { s.starts_with(['-', '+']) }
#[verifier::external_body] pub fn shim_err() -> String { unimplemented!() }

pub fn negative_currency_case(p: &str, currency: &str, scientific_format: &str, decimal_separator: char, group_separator: char) -> (r: Result<(f64, Option<String>), String>)
    ensures r matches Ok((v, _)) ==> is_neg(g_f(), v),     // the stored value is -magnitude on EVERY accepting path
        r is Ok ==> !signed(trimmed(p@)),                   // and the text after "-<currency>" carries no second sign ("-$-5" is not a number)
{
//@fragment base/src/formatter/format.rs parse_formatted_number `if p.trim().starts_with(['-', '+']) {` .. `return Ok((-f, Some(format!("{currency}#,##0"))));`
//@rewrite `if p.trim().starts_with(['-', '+']) {` => `if starts_with_sign(p.trim()) {`
//@rewrite `return Err("Cannot parse number".to_string());` => `return Err(shim_err());`
//@rewrite* `Ok((-f,` => `Ok((shim_neg(f),`
//@end
}
pub fn positive_currency_prefix_case(p: &str, currency: &str, scientific_format: &str, decimal_separator: char, group_separator: char) -> (r: Result<(f64, Option<String>), String>)
    ensures r matches Ok((v, _)) ==> v == g_f()
{
//@fragment#3 base/src/formatter/format.rs parse_formatted_number `let (f, options) = parse_number(p.trim(), decimal_separator, group_separator)?;` .. `return Ok((f, Some(format!("{currency}#,##0"))));`
//@end
}

} // verus!
fn main() {}
