// U-queue: UserModel::{push_diff_list, undo, redo, can_undo, can_redo, flush_send_queue, apply_external_diffs}
// against the abstract views (history list+cursor, outgoing queue, opaque model view).   (C01, C02, C03)
use vstd::prelude::*;
verus! {
//@include um_types.rs

// ---- abstract effect of applying one recorded diff list forwards / backwards (uninterpreted: A-apply) ----
pub uninterp spec fn spec_redo(m: MView, l: Seq<Diff>) -> MView;
pub uninterp spec fn spec_undo(m: MView, l: Seq<Diff>) -> MView;
pub open spec fn is_redo(t: DiffType) -> bool { t is Redo }
pub open spec fn apply_entry(m: MView, e: QueueDiffs) -> MView {
    if is_redo(e.r#type) { spec_redo(m, e.list@) } else { spec_undo(m, e.list@) }
}
pub open spec fn apply_seq(m: MView, q: Seq<QueueDiffs>) -> MView
    decreases q.len()
{
    if q.len() == 0 { m } else { apply_entry(apply_seq(m, q.drop_last()), q.last()) }
}
/// cutting the queue into batches differently only re-brackets a concatenation (any flush schedule)
pub proof fn lemma_apply_seq_concat(m: MView, a: Seq<QueueDiffs>, b: Seq<QueueDiffs>)
    ensures apply_seq(m, a + b) == apply_seq(apply_seq(m, a), b)
    decreases b.len()
{
    if b.len() == 0 { assert(a + b =~= a); }
    else {
        assert((a + b).drop_last() =~= a + b.drop_last());
        assert((a + b).last() == b.last());
        lemma_apply_seq_concat(m, a, b.drop_last());
    }
}

// ---- bitcode (external crate): assumed lossless on the queue (A-bitcode) ----
pub uninterp spec fn enc(q: Seq<QueueDiffs>) -> Seq<u8>;
pub uninterp spec fn dec(b: Seq<u8>) -> Option<Seq<QueueDiffs>>;
#[verifier::external_body]
pub broadcast proof fn axiom_dec_enc(q: Seq<QueueDiffs>)
    ensures #[trigger] dec(enc(q)) == Some(q)
{}
pub mod bitcode {
    use super::*;
    #[derive(Debug)] pub struct Error { pub e: u8 }
    #[verifier::external_body]
    pub fn encode(t: &Vec<QueueDiffs>) -> (r: Vec<u8>)
        ensures r@ == enc(t@)
    { unimplemented!() }
    #[verifier::external_body]
    pub fn decode<T: DecodeTarget>(b: &[u8]) -> (r: Result<T, Error>)
        ensures r.is_ok() <==> dec(b@).is_some(), r.is_ok() ==> r.unwrap().as_queue() == dec(b@).unwrap()
    { unimplemented!() }
    pub trait DecodeTarget: Sized { spec fn as_queue(&self) -> Seq<QueueDiffs>; }
    impl DecodeTarget for Vec<QueueDiffs> { open spec fn as_queue(&self) -> Seq<QueueDiffs> { self@ } }
}

impl History {
//@fn base/src/user_model/history.rs History::push
//@spec
    ensures
        final(self).undo_stack@ =~= old(self).undo_stack@.push(diff_list),
        final(self).redo_stack@.len() == 0,
//@end
//@fn base/src/user_model/history.rs History::undo
//@spec
    ensures
        old(self).cursor() == 0 ==> r.is_none() && final(self).undo_stack@ =~= old(self).undo_stack@ && final(self).redo_stack@ =~= old(self).redo_stack@,
        old(self).cursor() > 0 ==> r.is_some() && r.unwrap()@ =~= old(self).undo_stack@.last()@
            && final(self).undo_stack@ =~= old(self).undo_stack@.drop_last()
            && final(self).redo_stack@.len() == old(self).redo_stack@.len() + 1
            && final(self).redo_stack@.last()@ =~= r.unwrap()@
            && final(self).redo_stack@.drop_last() =~= old(self).redo_stack@,
//@rewrite `-> Option<Vec<Diff>>` => `-> (r: Option<Vec<Diff>>)`
//@end
//@fn base/src/user_model/history.rs History::redo
//@spec
    ensures
        old(self).redo_stack@.len() == 0 ==> r.is_none() && final(self).undo_stack@ =~= old(self).undo_stack@ && final(self).redo_stack@ =~= old(self).redo_stack@,
        old(self).redo_stack@.len() > 0 ==> r.is_some() && r.unwrap()@ =~= old(self).redo_stack@.last()@
            && final(self).redo_stack@ =~= old(self).redo_stack@.drop_last()
            && final(self).undo_stack@.len() == old(self).undo_stack@.len() + 1
            && final(self).undo_stack@.last()@ =~= r.unwrap()@
            && final(self).undo_stack@.drop_last() =~= old(self).undo_stack@,
//@rewrite `-> Option<Vec<Diff>>` => `-> (r: Option<Vec<Diff>>)`
//@end
}

impl<'a> UserModel<'a> {
    // The two big interpreters of undo_redo.rs are NOT verified here.  Assumed contract (A-apply):
    // they are functions of (model view, list) and touch neither the history nor the queue
    // (the second half is re-checked on every run by the closed-world scan `frame-undo_redo`).
    #[verifier::external_body]
    pub fn apply_diff_list(&mut self, diff_list: &DiffList) -> (r: Result<(), String>)
        ensures
            final(self).history == old(self).history, final(self).send_queue == old(self).send_queue,
            final(self).pause_evaluation == old(self).pause_evaluation,
            r.is_ok() ==> final(self).model.view() == spec_redo(old(self).model.view(), diff_list@),
    { unimplemented!() }
    #[verifier::external_body]
    pub fn apply_undo_diff_list(&mut self, diff_list: &DiffList) -> (r: Result<(), String>)
        ensures
            final(self).history == old(self).history, final(self).send_queue == old(self).send_queue,
            final(self).pause_evaluation == old(self).pause_evaluation,
            r.is_ok() ==> final(self).model.view() == spec_undo(old(self).model.view(), diff_list@),
    { unimplemented!() }

//@fn base/src/user_model/common.rs UserModel::push_diff_list
//@spec
    ensures
        final(self).model.view() == old(self).model.view(),
        final(self).history.undo_stack@ =~= old(self).history.undo_stack@.push(diff_list),
        final(self).history.redo_stack@.len() == 0,
        final(self).send_queue@.len() == old(self).send_queue@.len() + 1,
        final(self).send_queue@.drop_last() =~= old(self).send_queue@,
        is_redo(final(self).send_queue@.last().r#type) && final(self).send_queue@.last().list@ =~= diff_list@,
//@end

//@fn base/src/user_model/common.rs UserModel::undo
//@spec
    ensures
        old(self).history.cursor() == 0 ==> r.is_ok() && final(self).model.view() == old(self).model.view()
            && final(self).send_queue@ =~= old(self).send_queue@
            && final(self).history.undo_stack@ =~= old(self).history.undo_stack@ && final(self).history.redo_stack@ =~= old(self).history.redo_stack@,
        // exactly the most recent not-yet-undone list is applied backwards, queued as Undo, and moved to the redo side
        old(self).history.cursor() > 0 && r.is_ok() ==> {
            let l = old(self).history.undo_stack@.last();
            &&& final(self).model.view() == spec_undo(old(self).model.view(), l@)
            &&& final(self).history.undo_stack@ =~= old(self).history.undo_stack@.drop_last()
            &&& final(self).history.redo_stack@.drop_last() =~= old(self).history.redo_stack@
            &&& final(self).history.redo_stack@.len() == old(self).history.redo_stack@.len() + 1
            &&& final(self).history.redo_stack@.last()@ =~= l@
            &&& final(self).send_queue@.len() == old(self).send_queue@.len() + 1
            &&& final(self).send_queue@.drop_last() =~= old(self).send_queue@
            &&& !is_redo(final(self).send_queue@.last().r#type) && final(self).send_queue@.last().list@ =~= l@
        },
        r.is_err() ==> final(self).send_queue@ =~= old(self).send_queue@,
//@rewrite `-> Result<(), String>` => `-> (r: Result<(), String>)`
//@end

//@fn base/src/user_model/common.rs UserModel::redo
//@spec
    ensures
        old(self).history.redo_stack@.len() == 0 ==> r.is_ok() && final(self).model.view() == old(self).model.view()
            && final(self).send_queue@ =~= old(self).send_queue@
            && final(self).history.undo_stack@ =~= old(self).history.undo_stack@ && final(self).history.redo_stack@ =~= old(self).history.redo_stack@,
        old(self).history.redo_stack@.len() > 0 && r.is_ok() ==> {
            let l = old(self).history.redo_stack@.last();
            &&& final(self).model.view() == spec_redo(old(self).model.view(), l@)
            &&& final(self).history.redo_stack@ =~= old(self).history.redo_stack@.drop_last()
            &&& final(self).history.undo_stack@.drop_last() =~= old(self).history.undo_stack@
            &&& final(self).history.undo_stack@.len() == old(self).history.undo_stack@.len() + 1
            &&& final(self).history.undo_stack@.last()@ =~= l@
            &&& final(self).send_queue@.len() == old(self).send_queue@.len() + 1
            &&& final(self).send_queue@.drop_last() =~= old(self).send_queue@
            &&& is_redo(final(self).send_queue@.last().r#type) && final(self).send_queue@.last().list@ =~= l@
        },
        r.is_err() ==> final(self).send_queue@ =~= old(self).send_queue@,
//@rewrite `-> Result<(), String>` => `-> (r: Result<(), String>)`
//@end

//@fn base/src/user_model/common.rs UserModel::can_undo
//@spec
    ensures r == (self.history.cursor() > 0)
//@rewrite `-> bool` => `-> (r: bool)`
//@end
//@fn base/src/user_model/common.rs UserModel::can_redo
//@spec
    ensures r == (self.history.cursor() < self.history.ops().len())
//@rewrite `-> bool` => `-> (r: bool)`
//@end

//@fn base/src/user_model/common.rs UserModel::flush_send_queue
//@spec
    ensures
        r@ == enc(old(self).send_queue@),
        final(self).send_queue@.len() == 0,
        final(self).model.view() == old(self).model.view(), final(self).history == old(self).history,
//@rewrite `-> Vec<u8>` => `-> (r: Vec<u8>)`
//@end

//@fn base/src/user_model/common.rs UserModel::apply_external_diffs
//@attr
#[verifier::loop_isolation(false)]
//@spec
    ensures
        r.is_ok() ==> dec(diff_list_str@).is_some()
            && final(self).model.view() == apply_seq(old(self).model.view(), dec(diff_list_str@).unwrap()),
        final(self).history == old(self).history, final(self).send_queue == old(self).send_queue,
//@rewrite `-> Result<(), String>` => `-> (r: Result<(), String>)`
//@before `for queue_diff in queue_diffs_list {`
            let ghost q = queue_diffs_list@;
            assert(q == dec(diff_list_str@).unwrap());
//@loop 1 it
                invariant
                    self.history == old(self).history, self.send_queue == old(self).send_queue,
                    0 <= it.index@ <= q.len(),
                    self.model.view() == apply_seq(old(self).model.view(), q.subrange(0, it.index@)),
//@before `if matches!(queue_diff.r#type, DiffType::Redo) {`
                proof {
                    assert(queue_diff == q[it.index@]);
                    assert(q.subrange(0, it.index@ + 1).drop_last() =~= q.subrange(0, it.index@));
                    assert(q.subrange(0, it.index@ + 1).last() == queue_diff);
                }
//@before `Ok(())`
        proof {
            let q = dec(diff_list_str@).unwrap();
            assert(q.subrange(0, q.len() as int) =~= q);
        }
//@end
}

/// C03 (protocol part): a replica that applies the flushed bytes ends in apply_seq(initial, queue) whatever the batching
pub proof fn lemma_replica_batches(m: MView, q1: Seq<QueueDiffs>, q2: Seq<QueueDiffs>)
    ensures
        dec(enc(q1)) == Some(q1) && dec(enc(q2)) == Some(q2) && dec(enc(q1 + q2)) == Some(q1 + q2),
        apply_seq(apply_seq(m, q1), q2) == apply_seq(m, q1 + q2),
{
    broadcast use axiom_dec_enc;
    lemma_apply_seq_concat(m, q1, q2);
}

} // verus!
fn main() {}
