// The traversal of a recorded diff list: undo walks the list BACKWARDS, redo (and a replica) FORWARDS, each diff exactly once; and the engine is
// re-evaluated afterwards only through evaluate_if_not_paused.  (C01 "inverse application of diffs in reverse order", C02, C03)
// D6: the body of each loop — the big `match diff { .. }`, whose arms are under contract one by one in unit arms — is replaced by one call that logs the diff.
use vstd::prelude::*;
verus! {
#[verifier::external_body] pub struct Diff { _o: u8 }
pub type DiffList = Vec<Diff>;
#[verifier::external_body] pub struct UserModel { _o: u8 }
impl UserModel {
    /// ghost: the diffs whose arm has been run so far, in order
    pub uninterp spec fn applied(&self) -> Seq<Diff>;
    #[verifier::external_body]
    pub fn one_arm(&mut self, diff: &Diff, needs_evaluation: &mut bool) -> (r: Result<(), String>)
        ensures r.is_ok() ==> final(self).applied() == old(self).applied().push(*diff)
    { unimplemented!() }
    #[verifier::external_body]
    pub fn evaluate_if_not_paused(&mut self) ensures final(self).applied() == old(self).applied() { unimplemented!() }

//@fn base/src/user_model/undo_redo.rs UserModel::apply_undo_diff_list
//@spec
    ensures r.is_ok() ==> final(self).applied() =~= old(self).applied() + diff_list@.reverse()
//@rewrite `-> Result<(), String> {` => `-> (r: Result<(), String>) {`
//@loopbody 1 `self.one_arm(diff, &mut needs_evaluation)?;`
//@loop 1 it
            invariant self.applied() =~= old(self).applied() + diff_list@.reverse().take(it.index@)
//@end
//@fn base/src/user_model/undo_redo.rs UserModel::apply_diff_list
//@spec
    ensures r.is_ok() ==> final(self).applied() =~= old(self).applied() + diff_list@
//@rewrite `-> Result<(), String> {` => `-> (r: Result<(), String>) {`
//@loopbody 1 `self.one_arm(diff, &mut needs_evaluation)?;`
//@loop 1 it
            invariant self.applied() =~= old(self).applied() + diff_list@.take(it.index@)
//@end
}
} // verus!
fn main() {}
