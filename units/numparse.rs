// Panic freedom of the text-to-number reader used for every typed cell value (formatter/format.rs::parse_number): for ANY text and ANY
// decimal/group separator every index into the character vector is in range and `chars.len() - index` never underflows.   (C11)
use vstd::prelude::*;
verus! {
/// number of bytes of a text (String::len); only monotonicity under push is used
pub uninterp spec fn text_bytes(s: Seq<char>) -> nat;
#[verifier::external_body]
pub broadcast proof fn axiom_text_bytes_push(s: Seq<char>, c: char) ensures #[trigger] text_bytes(s.push(c)) > text_bytes(s) {}
#[verifier::external_body]
pub broadcast proof fn axiom_text_bytes_empty() ensures #[trigger] text_bytes(Seq::<char>::empty()) == 0 {}
pub assume_specification [String::len] (s: &String) -> (r: usize) ensures r == text_bytes(s@);
pub assume_specification [<char>::is_ascii_digit] (c: &char) -> (r: bool) ensures r == ('0' <= *c <= '9');
/// UTF-8: an ASCII character is one byte
#[verifier::external_body]
pub broadcast proof fn axiom_text_bytes_ascii(s: Seq<char>, c: char) requires (c as u32) < 128 ensures #[trigger] text_bytes(s.push(c)) == text_bytes(s) + 1 {}
/// the characters of the text handed to str::parse::<f64>: digits, one '.', an exponent marker and its sign — never a locale separator
pub open spec fn plain(c: char) -> bool { ('0' <= c <= '9') || c == '.' || c == 'e' || c == '+' || c == '-' }
pub open spec fn all_plain(s: Seq<char>) -> bool { forall|k: int| 0 <= k < s.len() ==> plain(#[trigger] s[k]) }
/// C19 "correctly placed group separators": every separator stands after at least one digit and is followed by whole groups of three digits
/// (at least one), and no two separators are adjacent.  `seps[i]` = number of integer digits before the i-th separator, `n` = number of integer digits.
pub open spec fn well_grouped(seps: Seq<usize>, n: int) -> bool {
    (forall|i: int| 0 <= i < seps.len() ==> 0 < #[trigger] seps[i] < n && (n - seps[i]) % 3 == 0)
        && (forall|i: int, j: int| 0 <= i < j < seps.len() ==> seps[i] < seps[j])
}
/// `value.chars().collect()` (iterator adapters are outside Verus): the characters of the text; a Vec never holds more than isize::MAX bytes (std) and a char has 4
#[verifier::external_body]
pub fn shim_chars(value: &str) -> (r: Vec<char>) ensures r@ == value@, r@.len() <= (isize::MAX as int) / 4 { value.chars().collect() }
#[verifier::external_body]
pub fn shim_empty_string() -> (r: String) ensures r@ == Seq::<char>::empty() { String::from("") }
pub struct Scanned { pub position: usize, pub len: usize }

#[verifier::loop_isolation(false)]
pub fn parse_number_scan(value: &str, decimal_separator: char, group_separator: char) -> (r: core::result::Result<Scanned, String>)
    ensures r matches Ok(s) ==> s.position == s.len,
{
    broadcast use axiom_text_bytes_push, axiom_text_bytes_empty, axiom_text_bytes_ascii;
//@fragment base/src/formatter/format.rs parse_number `let mut position = 0;` .. `if position != len {`
//@rewrite `let characters: Vec<char> = value.chars().collect();` => `let characters: Vec<char> = shim_chars(value);`
//@rewrite `let mut chars = String::from("");` => `let mut chars = shim_empty_string();`
//@rewrite `let mut position = 0;` => `let mut position: usize = 0;`
//@rewrite `for index in &group_separator_index {` => `for index in it: group_separator_index.iter() {`
//@rewrite `(chars.len() - index) % 3` => `(chars.len() - *index) % 3`
//@rewrite `let mut group_separator_index = Vec::new();` => `let mut group_separator_index: Vec<usize> = Vec::new();`
//@rewrite `-1.0` => `-1i8`
//@rewritex2 `1.0` => `1i8`
//@loop 1
        invariant position <= len, len == characters@.len(),
            forall|i: int| 0 <= i < group_separator_index@.len() ==> 1 <= #[trigger] group_separator_index@[i] <= text_bytes(chars@),
            forall|i: int, j: int| 0 <= i < j < group_separator_index@.len() ==> group_separator_index@[i] < group_separator_index@[j],
            position == start ==> text_bytes(chars@) == 0, position > start ==> text_bytes(chars@) >= 1,
            start < len, position >= start, characters@[start as int] != group_separator, all_plain(chars@),
        decreases len - position
//@loop 2
        invariant forall|j: int| 0 <= j < it.index@ ==> (#[trigger] group_separator_index@[j]) < text_bytes(chars@) && (text_bytes(chars@) - group_separator_index@[j]) % 3 == 0,
//@before `let mut decimal_digits = 0;`
    // C19: a number is accepted only with correctly placed group separators
    assert(well_grouped(group_separator_index@, text_bytes(chars@) as int));
//@before `// numbers before the decimal point`
    let ghost start = position;
//@loop 3
        invariant position <= len, len == characters@.len(), all_plain(chars@)
        decreases len - position
//@loop 4
        invariant position <= len, len == characters@.len(), all_plain(chars@)
        decreases len - position
//@end
    // C19: what is parsed as a double is written with '.' and without group separators, whatever the locale's symbols are
    assert(all_plain(chars@));
    Ok(Scanned { position, len })
}
} // verus!
fn main() {}
