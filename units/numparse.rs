// Panic freedom of the text-to-number reader used for every typed cell value (formatter/format.rs::parse_number): for ANY text and ANY
// decimal/group separator every index into the character vector is in range and `chars.len() - index` never underflows.   (C11)
use vstd::prelude::*;
verus! {
/// number of bytes of a text (String::len); only monotonicity under push is used
pub uninterp spec fn text_bytes(s: Seq<char>) -> nat;
#[verifier::external_body]
pub broadcast proof fn axiom_text_bytes_push(s: Seq<char>, c: char) ensures #[trigger] text_bytes(s.push(c)) > text_bytes(s) {}
#[verifier::external_body]
pub broadcast proof fn axiom_text_bytes_empty() ensures #[trigger] text_bytes(Seq::<char>::empty()) == 0 {}
pub assume_specification [String::len] (s: &String) -> (r: usize) ensures r == text_bytes(s@);
pub assume_specification [<char>::is_ascii_digit] (c: &char) -> (r: bool);
/// `value.chars().collect()` (iterator adapters are outside Verus): the characters of the text; a Vec never holds more than isize::MAX bytes (std) and a char has 4
#[verifier::external_body]
pub fn shim_chars(value: &str) -> (r: Vec<char>) ensures r@ == value@, r@.len() <= (isize::MAX as int) / 4 { value.chars().collect() }
#[verifier::external_body]
pub fn shim_empty_string() -> (r: String) ensures r@ == Seq::<char>::empty() { String::from("") }
pub struct Scanned { pub position: usize, pub len: usize }

#[verifier::loop_isolation(false)]
pub fn parse_number_scan(value: &str, decimal_separator: char, group_separator: char) -> (r: core::result::Result<Scanned, String>)
    ensures r matches Ok(s) ==> s.position == s.len,
{
    broadcast use axiom_text_bytes_push, axiom_text_bytes_empty;
//@fragment base/src/formatter/format.rs parse_number `let mut position = 0;` .. `if position != len {`
//@rewrite `let characters: Vec<char> = value.chars().collect();` => `let characters: Vec<char> = shim_chars(value);`
//@rewrite `let mut chars = String::from("");` => `let mut chars = shim_empty_string();`
//@rewrite `let mut position = 0;` => `let mut position: usize = 0;`
//@rewrite `for index in &group_separator_index {` => `for index in it: group_separator_index.iter() {`
//@rewrite `(chars.len() - index) % 3` => `(chars.len() - *index) % 3`
//@rewrite `let mut group_separator_index = Vec::new();` => `let mut group_separator_index: Vec<usize> = Vec::new();`
//@rewrite `-1.0` => `-1i8`
//@rewritex2 `1.0` => `1i8`
//@loop 1
        invariant position <= len, len == characters@.len(),
            forall|i: int| 0 <= i < group_separator_index@.len() ==> group_separator_index@[i] <= text_bytes(chars@),
        decreases len - position
//@loop 3
        invariant position <= len, len == characters@.len()
        decreases len - position
//@loop 4
        invariant position <= len, len == characters@.len()
        decreases len - position
//@end
    Ok(Scanned { position, len })
}
} // verus!
fn main() {}
