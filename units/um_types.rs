// ---- um_types.rs: the user-model layer against an opaque Model (layered contracts) ----
// `Diff` is opaque: the history/queue layer never looks inside a diff.  (A-clone: derived Clone yields an equal value.)
#[verifier::external_body]
pub struct Diff { _opaque: u8 }
impl Clone for Diff {
    #[verifier::external_body]
    fn clone(&self) -> (r: Self) ensures r == *self { unimplemented!() }
}
//@type base/src/user_model/history.rs DiffList
//@type base/src/user_model/history.rs History
//@type base/src/user_model/history.rs DiffType
//@type base/src/user_model/history.rs QueueDiffs

/// The engine below the user model.  Its state is an uninterpreted abstract value.
#[verifier::external_body]
pub struct Model<'a> { _p: core::marker::PhantomData<&'a u8> }
pub struct MView { pub x: int }   // abstract: nothing is known about it
impl<'a> Model<'a> {
    pub uninterp spec fn view(&self) -> MView;
}
//@type base/src/user_model/common.rs UserModel

impl History {
    pub open spec fn ops(&self) -> Seq<Vec<Diff>> { self.undo_stack@ + self.redo_stack@.reverse() }
    pub open spec fn cursor(&self) -> int { self.undo_stack@.len() as int }
}
