// Defined names in the engine: creating one appends exactly one entry, deleting one removes exactly the entry with that name (any letter case) and
// scope — every other defined name keeps its name, scope and stored formula — and a call that fails leaves the workbook as it was.   (C32, C04)
use vstd::prelude::*;
verus! {
#[verifier::external_body] pub struct WorksheetRest { _o: u8 }
#[verifier::external_body] pub struct WorkbookRest { _o: u8 }
#[verifier::external_body] pub struct ModelRest { _o: u8 }
#[verifier::external_body] pub struct CellReferenceRC { _o: u8 }
//@type base/src/types.rs DefinedName
// context shells (D5)
pub struct Worksheet { pub sheet_id: u32, pub rest: WorksheetRest }
pub struct Workbook { pub worksheets: Vec<Worksheet>, pub defined_names: Vec<DefinedName>, pub rest: WorkbookRest }
pub struct Model { pub workbook: Workbook, pub rest: ModelRest }
pub uninterp spec fn upper(s: Seq<char>) -> Seq<char>;
pub assume_specification [str::to_uppercase] (s: &str) -> (r: String) ensures r@ == upper(s@);
#[verifier::external_body]
pub fn shim_to_string(s: &str) -> (r: String) ensures r@ == s@ { s.to_string() }
impl Workbook {
//@stub base/src/workbook.rs Workbook::worksheet
    ensures r.is_ok() == ((worksheet_index as int) < self.worksheets@.len()), r.is_ok() ==> *r.unwrap() == self.worksheets@[worksheet_index as int]
//@end
}
/// the scope's sheet id, as the code computes it
pub open spec fn scope_id(m: &Model, scope: Option<u32>) -> Option<u32> {
    match scope { Some(i) => Some(m.workbook.worksheets@[i as int].sheet_id), None => None }
}
pub open spec fn is_entry(d: DefinedName, name: Seq<char>, sheet_id: Option<u32>) -> bool { upper(d.name@) == upper(name) && d.sheet_id == sheet_id }
impl Model {
    // ASSUMED: validation, formula conversion and the re-parse of the workbook's structures do not touch the workbook's stored data
//@stub base/src/model.rs Model::is_valid_defined_name
    ensures final(self).workbook == old(self).workbook
//@end
//@stub base/src/model.rs Model::defined_name_context
//@end
//@stub base/src/model.rs Model::user_formula_to_internal
    ensures final(self).workbook == old(self).workbook
//@end
    #[verifier::external_body]
    pub fn reset_parsed_structures(&mut self) ensures final(self).workbook == old(self).workbook { unimplemented!() }

//@fn base/src/model.rs Model::new_defined_name
//@spec
    ensures r.is_err() ==> final(self).workbook == old(self).workbook,
        r.is_ok() ==> final(self).workbook.defined_names@.len() == old(self).workbook.defined_names@.len() + 1
            && final(self).workbook.defined_names@.drop_last() =~= old(self).workbook.defined_names@      // every existing name is kept as it was
            && final(self).workbook.defined_names@.last().name@ == name@
            && final(self).workbook.worksheets == old(self).workbook.worksheets,
//@rewrite `) -> Result<(), String> {` => `) -> (r: Result<(), String>) {`
//@rewrite* `name: name.to_string(),` => `name: shim_to_string(name),`
//@end
//@fn base/src/model.rs Model::delete_defined_name
//@attr
#[verifier::loop_isolation(false)]
//@spec
    ensures r.is_err() ==> final(self).workbook == old(self).workbook,
        r.is_ok() ==> exists|i: int| 0 <= i < old(self).workbook.defined_names@.len()
            && #[trigger] is_entry(old(self).workbook.defined_names@[i], name@, scope_id(old(self), scope))
            && final(self).workbook.defined_names@ =~= old(self).workbook.defined_names@.remove(i),          // exactly that entry goes, the others stay
//@rewrite `-> Result<(), String> {` => `-> (r: Result<(), String>) {`
//@rewrite `let mut index = None;` => `let mut index: Option<usize> = None;`
//@forwhile 1
//@loop 1
            invariant __i <= defined_names@.len(), defined_names@ == old(self).workbook.defined_names@, self.workbook == old(self).workbook,
                index matches Some(j) ==> j < defined_names@.len() && is_entry(defined_names@[j as int], name@, sheet_id),
            decreases defined_names@.len() - __i
//@end
}
} // verus!
fn main() {}
