// Defined names in the engine: creating one appends exactly one entry, deleting one removes exactly the entry with that name (any letter case) and
// scope — every other defined name keeps its name, scope and stored formula — and a call that fails leaves the workbook as it was.   (C32, C04)
use vstd::prelude::*;
verus! {
#[verifier::external_body] pub struct WorksheetRest { _o: u8 }
#[verifier::external_body] pub struct WorkbookRest { _o: u8 }
#[verifier::external_body] pub struct ModelRest { _o: u8 }
#[verifier::external_body] pub struct CellReferenceRC { _o: u8 }
//@type base/src/types.rs DefinedName
// context shells (D5)
pub struct Worksheet { pub sheet_id: u32, pub rest: WorksheetRest }
pub struct Workbook { pub worksheets: Vec<Worksheet>, pub defined_names: Vec<DefinedName>, pub rest: WorkbookRest }
#[verifier::external_body] pub struct ParsedNames { _o: u8 }
impl ParsedNames {
    /// `self.parsed_defined_names.keys()` (HashMap keys are outside Verus): some list of (scope, name) keys
    #[verifier::external_body] pub fn keys(&self) -> Vec<(Option<u32>, String)> { unimplemented!() }
}
#[verifier::external_body] pub struct Parser { _o: u8 }
#[verifier::external_body] pub struct LexerMode { _o: u8 }
#[verifier::external_body] pub struct Locale { _o: u8 }
#[verifier::external_body] pub struct Language { _o: u8 }
pub uninterp spec fn english_locale() -> &'static Locale;
pub uninterp spec fn english_language() -> &'static Language;
#[verifier::external_body] pub fn get_default_locale() -> (r: &'static Locale) ensures r == english_locale() { unimplemented!() }
#[verifier::external_body] pub fn get_default_language() -> (r: &'static Language) ensures r == english_language() { unimplemented!() }
impl Parser {
    pub uninterp spec fn loc(&self) -> &Locale;
    pub uninterp spec fn lang(&self) -> &Language;
    #[verifier::external_body]
    pub fn set_locale(&mut self, locale: &Locale) ensures final(self).loc() == locale, final(self).lang() == old(self).lang() { unimplemented!() }
    #[verifier::external_body]
    pub fn set_language(&mut self, language: &Language) ensures final(self).lang() == language, final(self).loc() == old(self).loc() { unimplemented!() }
    #[verifier::external_body]
    pub fn set_lexer_mode(&mut self, mode: LexerMode) ensures final(self).loc() == old(self).loc(), final(self).lang() == old(self).lang() { unimplemented!() }
}
pub struct Model { pub workbook: Workbook, pub parsed_defined_names: ParsedNames, pub parser: Parser, pub locale: &'static Locale, pub language: &'static Language, pub rest: ModelRest }
pub uninterp spec fn upper(s: Seq<char>) -> Seq<char>;
pub assume_specification [str::to_uppercase] (s: &str) -> (r: String) ensures r@ == upper(s@);
#[verifier::external_body]
pub fn shim_to_string(s: &str) -> (r: String) ensures r@ == s@ { s.to_string() }
impl Workbook {
//@stub base/src/workbook.rs Workbook::worksheet
    ensures r.is_ok() == ((worksheet_index as int) < self.worksheets@.len()), r.is_ok() ==> *r.unwrap() == self.worksheets@[worksheet_index as int]
//@end
}
/// the scope's sheet id, as the code computes it
pub open spec fn scope_id(m: &Model, scope: Option<u32>) -> Option<u32> {
    match scope { Some(i) => Some(m.workbook.worksheets@[i as int].sheet_id), None => None }
}
#[verifier::external_body] pub fn is_valid_identifier(name: &str) -> bool { unimplemented!() }
/// `.map_err(|_| "Scope: Invalid sheet index")?`: the error text is replaced, Ok passes through
pub trait VerifScopeErr<T> { fn verif_scope_err(self) -> (r: Result<T, String>); }
impl<'a> VerifScopeErr<&'a Worksheet> for Result<&'a Worksheet, String> {
    #[verifier::external_body]
    fn verif_scope_err(self) -> (r: Result<&'a Worksheet, String>) ensures r.is_ok() == self.is_ok(), r.is_ok() ==> r.unwrap() == self.unwrap() { unimplemented!() }
}
/// `<Vec>.get_mut(i)` (documented std behaviour): Some(&mut element i) iff i is in range; when the borrow ends the vector is the old one with element i
/// replaced by the final value; None leaves it alone
#[verifier::external_body]
pub fn vec_get_mut<T>(v: &mut Vec<T>, i: usize) -> (r: Option<&mut T>)
    ensures (i as int) < old(v)@.len() ==> r is Some && *r.unwrap() == old(v)@[i as int] && final(v)@ == old(v)@.update(i as int, *final(r.unwrap())),
        (i as int) >= old(v)@.len() ==> r is None && final(v)@ == old(v)@
{ v.get_mut(i) }
pub open spec fn is_entry(d: DefinedName, name: Seq<char>, sheet_id: Option<u32>) -> bool { upper(d.name@) == upper(name) && d.sheet_id == sheet_id }
/// ASSUMED (D6: the two nested loops abstracted into one call): the rewriting of every sheet's shared formulas with the old name and scope (the call
/// inside is under contract in unit renamedn) keeps the number of sheets and every sheet id; it is handed the parser and the sheets only, so the
/// defined names are out of its reach (frame by construction)
#[verifier::external_body]
pub fn rename_in_all_formulas(parser: &mut Parser, worksheets: &mut Vec<Worksheet>, name: &str, scope: Option<u32>, new_name: &str)
    requires old(parser).loc() == english_locale(), old(parser).lang() == english_language()      // C10: stored formulas are parsed in English
    ensures final(parser).loc() == old(parser).loc(), final(parser).lang() == old(parser).lang(),
        final(worksheets)@.len() == old(worksheets)@.len(),
        forall|k: int| 0 <= k < old(worksheets)@.len() ==> (#[trigger] final(worksheets)@[k]).sheet_id == old(worksheets)@[k].sheet_id,
{ unimplemented!() }
impl Model {
    // ASSUMED: validation, formula conversion and the re-parse of the workbook's structures do not touch the workbook's stored data
//@stub base/src/model.rs Model::is_valid_defined_name
    ensures final(self).workbook == old(self).workbook
//@end
//@stub base/src/model.rs Model::defined_name_context
//@end
//@stub base/src/model.rs Model::user_formula_to_internal
    ensures final(self).workbook == old(self).workbook,
        // proved for the real function in unit internalform: the parser's locale / language are restored
        final(self).parser.loc() == old(self).parser.loc(), final(self).parser.lang() == old(self).parser.lang(),
        final(self).locale == old(self).locale, final(self).language == old(self).language,
//@end
    #[verifier::external_body]
    pub fn reset_parsed_structures(&mut self) ensures final(self).workbook == old(self).workbook, final(self).parser.loc() == old(self).parser.loc(), final(self).parser.lang() == old(self).parser.lang() { unimplemented!() }

//@fn base/src/model.rs Model::new_defined_name
//@spec
    ensures r.is_err() ==> final(self).workbook == old(self).workbook,
        r.is_ok() ==> final(self).workbook.defined_names@.len() == old(self).workbook.defined_names@.len() + 1
            && final(self).workbook.defined_names@.drop_last() =~= old(self).workbook.defined_names@      // every existing name is kept as it was
            && final(self).workbook.defined_names@.last().name@ == name@
            && final(self).workbook.worksheets == old(self).workbook.worksheets,
//@rewrite `) -> Result<(), String> {` => `) -> (r: Result<(), String>) {`
//@rewrite* `name: name.to_string(),` => `name: shim_to_string(name),`
//@end
//@fn base/src/model.rs Model::delete_defined_name
//@attr
#[verifier::loop_isolation(false)]
//@spec
    ensures r.is_err() ==> final(self).workbook == old(self).workbook,
        r.is_ok() ==> exists|i: int| 0 <= i < old(self).workbook.defined_names@.len()
            && #[trigger] is_entry(old(self).workbook.defined_names@[i], name@, scope_id(old(self), scope))
            && final(self).workbook.defined_names@ =~= old(self).workbook.defined_names@.remove(i),          // exactly that entry goes, the others stay
//@rewrite `-> Result<(), String> {` => `-> (r: Result<(), String>) {`
//@rewrite `let mut index = None;` => `let mut index: Option<usize> = None;`
//@forwhile 1
//@loop 1
            invariant __i <= defined_names@.len(), defined_names@ == old(self).workbook.defined_names@, self.workbook == old(self).workbook,
                index matches Some(j) ==> j < defined_names@.len() && is_entry(defined_names@[j as int], name@, sheet_id),
            decreases defined_names@.len() - __i
//@end

    /// the sheet index a sheet id belongs to now, None when no sheet has it (uninterpreted: the lookup is not under contract here)
    pub uninterp spec fn index_of_id(&self, sid: u32) -> Option<u32>;
    #[verifier::external_body]
    pub fn get_sheet_index_by_sheet_id(&self, sheet_id: u32) -> (r: Option<u32>) ensures r == self.index_of_id(sheet_id) { unimplemented!() }
    /// the scope resolution step of parse_defined_names (one iteration of its loop; `continue` = the entry is skipped = None here): a sheet-local
    /// name whose sheet is gone is NEVER registered as a global name, a global name stays global, a local name gets its sheet's current index
    pub fn parse_defined_names_scope(&self, sheet_id: Option<u32>) -> (r: Option<Option<u32>>)
        ensures r == (match sheet_id {
            None => Some(None::<u32>),
            Some(sid) => match self.index_of_id(sid) { Some(idx) => Some(Some(idx)), None => None },
        })
    {
        let mut __first = true;
        while __first
            invariant __first || (sheet_id matches Some(sid) && self.index_of_id(sid) is None)
            decreases (if __first { 1int } else { 0int })
        {
            __first = false;
//@fragment base/src/new_empty.rs Model::parse_defined_names `let local_sheet_index =` ..< `parsed_defined_names.insert(`
//@end
            return Some(local_sheet_index);
        }
        None
    }
//@fn base/src/model.rs Model::update_defined_name
//@attr
#[verifier::loop_isolation(false)]
//@spec
    requires old(self).parser.loc() == old(self).locale, old(self).parser.lang() == old(self).language      // the model keeps its parser set to its own locale / language
    ensures r.is_err() ==> final(self).workbook == old(self).workbook,
        // the parser, switched to English for the rewriting of the stored formulas, is handed back as it was
        r.is_ok() ==> final(self).parser.loc() == old(self).parser.loc() && final(self).parser.lang() == old(self).parser.lang(),
        // exactly the entry (name, scope) is replaced — new name, the NEW scope's sheet id — and every other defined name stays as it was
        r.is_ok() ==> exists|i: int| 0 <= i < old(self).workbook.defined_names@.len()
            && #[trigger] is_entry(old(self).workbook.defined_names@[i], name@, scope_id(old(self), scope))
            && final(self).workbook.defined_names@.len() == old(self).workbook.defined_names@.len()
            && final(self).workbook.defined_names@[i].name@ == new_name@
            && final(self).workbook.defined_names@[i].sheet_id == scope_id(old(self), new_scope)
            && (forall|j: int| 0 <= j < old(self).workbook.defined_names@.len() && j != i ==> final(self).workbook.defined_names@[j] == old(self).workbook.defined_names@[j]),
//@rewrite `) -> Result<(), String> {` => `) -> (r: Result<(), String>) {`
//@rewrite `let mut index = None;` => `let mut index: Option<usize> = None;`
//@rewrite `for key in self.parsed_defined_names.keys() {` => `let __keys = self.parsed_defined_names.keys(); for key in __it: __keys.iter() {`
//@rewritex2 `.map_err(|_| "Scope: Invalid sheet index")?` => `.verif_scope_err()?`
//@rewrite `self.workbook.defined_names.get_mut(i)` => `vec_get_mut(&mut self.workbook.defined_names, i)`
//@rewrite `self.parser.set_lexer_mode(LexerMode::R1C1);` => `rename_in_all_formulas(&mut self.parser, &mut self.workbook.worksheets, name, scope, new_name);`
//@dropstmt `let worksheets = &mut self.workbook.worksheets;`
//@dropstmt `for worksheet in worksheets {`
//@rewrite `df.name = new_name.to_string();` => `df.name = shim_to_string(new_name);`
//@forwhile 2
//@loop 2
            invariant __i <= defined_names@.len(), defined_names@ == old(self).workbook.defined_names@, self.workbook == old(self).workbook,
                index matches Some(j) ==> j < defined_names@.len() && is_entry(defined_names@[j as int], name@, sheet_id),
            decreases defined_names@.len() - __i
//@end
}
} // verus!
fn main() {}
