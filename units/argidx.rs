// No built-in function indexes its argument list out of range: for EVERY function of base/src/functions that takes `args: &[Node]`, the
// slice of the function with respect to argument indexing (arity tests, control structure, returns and every `args[k]`; see vf/argslice.py
// for what is kept and what is dropped) is verified: `k < args.len()` at every access, for every call.   (C11: a formula typed with the wrong
// number of arguments must give an error value, never abort the engine)
use vstd::prelude::*;
verus! {
#[verifier::external_body] pub struct Node { _o: u8 }
/// a condition that does not depend on the argument count: either way is possible
#[verifier::external_body]
pub fn nondet() -> bool { unimplemented!() }
/// a (re)bound argument list: any length
#[verifier::external_body]
pub fn havoc_args() -> Vec<Node> { unimplemented!() }
//@argslice base/src/functions
// the same for the formula parser (the two xlsx-only pseudo functions index the parsed argument list), the static analysis of
// spilling functions and the unit inference, which all receive a function call's argument list
//@argslice base/src/expressions/parser/mod.rs local=parse_primary
//@argslice base/src/expressions/parser/static_analysis.rs all
//@argslice base/src/units.rs all
} // verus!
fn main() {}
