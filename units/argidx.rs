// No built-in function indexes its argument list out of range: for EVERY function of base/src/functions that takes `args: &[Node]`, the
// slice of the function with respect to argument indexing (arity tests, control structure, returns and every `args[k]`; see vf/argslice.py
// for what is kept and what is dropped) is verified: `k < args.len()` at every access, for every call.   (C11: a formula typed with the wrong
// number of arguments must give an error value, never abort the engine)
use vstd::prelude::*;
verus! {
#[verifier::external_body] pub struct Node { _o: u8 }
/// a condition that does not depend on the argument count: either way is possible
#[verifier::external_body]
pub fn nondet() -> bool { unimplemented!() }
//@argslice base/src/functions
} // verus!
fn main() {}
