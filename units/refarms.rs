// stringify's ReferenceKind / RangeKind arms: every endpoint is printed by stringify_reference with the node's own
// sheet index, coordinates and flags and the caller's displacement (both corners of a range alike).   (C12, C13, C15)
use vstd::prelude::*;
verus! {
pub mod constants {
    #[allow(unused_imports)] use super::*;
//@type base/src/constants.rs LAST_COLUMN
//@type base/src/constants.rs LAST_ROW
}
pub use constants::{LAST_COLUMN, LAST_ROW};
//@type base/src/expressions/parser/stringify.rs DisplaceData
//@type base/src/expressions/types.rs CellReferenceRC
//@type base/src/expressions/parser/mod.rs Reference

/// what stringify_reference prints: an uninterpreted function of ALL its arguments (its own contract is unit refshift)
pub uninterp spec fn sr(context: Option<&CellReferenceRC>, d: DisplaceData, sheet_named: bool, sheet_index: u32, row: i32, column: i32,
                        absolute_row: bool, absolute_column: bool, full_row: bool, full_column: bool) -> Seq<char>;
#[verifier::external_body] pub struct Language { _o: u8 }
#[verifier::external_body]
pub fn stringify_reference(context: Option<&CellReferenceRC>, displace_data: &DisplaceData, reference: &Reference, full_row: bool, full_column: bool, language: &Language) -> (r: String)
    ensures r@ == sr(context, *displace_data, reference.sheet_name.is_some(), reference.sheet_index, reference.row, reference.column,
                     reference.absolute_row, reference.absolute_column, full_row, full_column)
{ unimplemented!() }

pub fn arm_reference(context: Option<&CellReferenceRC>, displace_data: &DisplaceData, sheet_name: &Option<String>, sheet_index: &u32,
                     column: &i32, row: &i32, absolute_row: &bool, absolute_column: &bool, language: &Language) -> (r: String)
    ensures r@ == sr(context, *displace_data, sheet_name.is_some(), *sheet_index, *row, *column, *absolute_row, *absolute_column, false, false)
{
//@arm#2 base/src/expressions/parser/stringify.rs stringify `ReferenceKind {`
//@end
}

pub open spec fn is_full_row(absolute_row1: bool, absolute_row2: bool, row1: i32, row2: i32) -> bool {
    absolute_row1 && absolute_row2 && row1 == 1 && row2 == 1048576
}
pub open spec fn is_full_column(absolute_column1: bool, absolute_column2: bool, column1: i32, column2: i32) -> bool {
    absolute_column1 && absolute_column2 && column1 == 1 && column2 == 16384
}
pub fn arm_range(context: Option<&CellReferenceRC>, displace_data: &DisplaceData, sheet_name: &Option<String>, sheet_index: &u32,
                 absolute_row1: &bool, absolute_column1: &bool, row1: &i32, column1: &i32,
                 absolute_row2: &bool, absolute_column2: &bool, row2: &i32, column2: &i32, language: &Language) -> (r: String)
//@arm#1 base/src/expressions/parser/stringify.rs stringify `RangeKind {`
//@before `format!("{s1}:{s2}")`
            proof {
                let fr = is_full_row(*absolute_row1, *absolute_row2, *row1, *row2);
                let fc = is_full_column(*absolute_column1, *absolute_column2, *column1, *column2);
                // both corners: same sheet index, same displacement, same full-row/column treatment
                assert(s1@ == sr(context, *displace_data, sheet_name.is_some(), *sheet_index, *row1, *column1, *absolute_row1, *absolute_column1, fr, fc));
                assert(s2@ == sr(context, *displace_data, false, *sheet_index, *row2, *column2, *absolute_row2, *absolute_column2, fr, fc));
            }
//@end

} // verus!
fn main() {}
