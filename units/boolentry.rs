// A boolean cell is displayed with the name of the display language, and that name — typed, or re-entered from the editor — is read back as the same
// boolean in that language (C18: booleans stay booleans in every supported language; C10).  Display side: the Boolean arm of Cell::get_localized_text;
// input side: Model::parse_boolean, the recogniser set_user_input calls.
use vstd::prelude::*;
verus! {
#[verifier::external_body] pub struct LanguageRest { _o: u8 }
#[verifier::external_body] pub struct ModelRest { _o: u8 }
//@type base/src/language/mod.rs Booleans
//@type base/src/language/mod.rs Errors
//@type base/src/expressions/token.rs Error
pub struct Language { pub booleans: Booleans, pub errors: Errors, pub rest: LanguageRest }   // context shell (D5)
pub struct Model<'a> { pub language: &'a Language, pub rest: ModelRest }               // context shell (D5)
pub uninterp spec fn upper(s: Seq<char>) -> Seq<char>;
pub uninterp spec fn lower(s: Seq<char>) -> Seq<char>;
pub assume_specification [str::to_uppercase] (s: &str) -> (r: String) ensures r@ == upper(s@);
pub assume_specification [str::to_lowercase] (s: &str) -> (r: String) ensures r@ == lower(s@);
/// `<String>.parse::<bool>().ok()`: "true" / "false" (documented), nothing else
pub trait VerifParseBool { fn verif_parse_bool(&self) -> (r: Option<bool>); }
impl VerifParseBool for String {
    #[verifier::external_body]
    fn verif_parse_bool(&self) -> (r: Option<bool>) ensures r == (if self@ == "true"@ { Some(true) } else if self@ == "false"@ { Some(false) } else { None::<bool> })
    { self.parse::<bool>().ok() }
}
#[verifier::external_body]
pub fn shim_to_string(s: &String) -> (r: String) ensures r@ == s@ { s.to_string() }
/// the text a boolean is displayed with
pub open spec fn shown(l: &Language, v: bool) -> Seq<char> { if v { l.booleans.r#true@ } else { l.booleans.r#false@ } }

impl<'a> Model<'a> {
//@fn base/src/model.rs Model::parse_boolean
//@spec
    ensures
        // the name displayed for `true` (in any letter case) is read as true, the one for `false` as false (the two names differ: data)
        shown(self.language, false) != shown(self.language, true) && upper(value@) == shown(self.language, true) ==> r == Some(true),
        shown(self.language, false) != shown(self.language, true) && upper(value@) == shown(self.language, false) ==> r == Some(false),
        // and nothing is read as a boolean except those two names and the English ones
        r is Some ==> upper(value@) == shown(self.language, r.unwrap()) || lower(value@) == (if r.unwrap() { "true"@ } else { "false"@ }),
//@rewrite `-> Option<bool> {` => `-> (r: Option<bool>) {`
//@rewrite `value.to_lowercase().parse::<bool>().ok()` => `value.to_lowercase().verif_parse_bool()`
//@end
}
pub fn display_boolean(v: bool, language: &Language) -> (r: String)
    ensures r@ == shown(language, v)
//@arm base/src/cell.rs Cell::get_localized_text `CellValue::Boolean(v) =>`
//@rewritex2 `.to_string()` => `.verif_copy()`
//@end
pub trait VerifCopy { fn verif_copy(&self) -> (r: String); }
impl VerifCopy for String { #[verifier::external_body] fn verif_copy(&self) -> (r: String) ensures r@ == self@ { self.to_string() } }
/// the localized name of an error kind (same definition as in units lexerr / errprint)
pub open spec fn name_of(e: Errors, k: Error) -> Seq<char> {
    match k {
        Error::REF => e.r#ref@, Error::NAME => e.name@, Error::VALUE => e.value@, Error::DIV => e.div@, Error::NA => e.na@, Error::NUM => e.num@,
        Error::ERROR => e.error@, Error::NIMPL => e.nimpl@, Error::SPILL => e.spill@, Error::CALC => e.calc@, Error::NULL => e.null@, Error::CIRC => e.circ@,
    }
}
pub open spec fn names_nonempty(e: Errors) -> bool {
    e.r#ref@.len() > 0 && e.name@.len() > 0 && e.value@.len() > 0 && e.div@.len() > 0 && e.na@.len() > 0 && e.num@.len() > 0
        && e.error@.len() > 0 && e.nimpl@.len() > 0 && e.spill@.len() > 0 && e.calc@.len() > 0 && e.null@.len() > 0 && e.circ@.len() > 0
}
/// `<&str> == <String>`
pub trait VerifEq { fn verif_eq(&self, o: &String) -> (r: bool); }
impl VerifEq for str { #[verifier::external_body] fn verif_eq(&self, o: &String) -> (r: bool) ensures r == (self@ == o@) { self == o } }
// the recogniser set_user_input uses for typed error values (and the display is to_localized_error_string, unit errprint): an error kind is answered
// only for that kind's localized name, and every localized name is answered by SOME kind carrying the same name
//@fn base/src/expressions/token.rs get_error_by_name
//@spec
    requires names_nonempty(language.errors)       // data invariant of the language tables: every error name starts with '#'
    ensures r matches Some(k) ==> name@ == name_of(language.errors, k),
        forall|k: Error| name@ == #[trigger] name_of(language.errors, k) ==> r is Some,
//@rewrite `-> Option<Error> {` => `-> (r: Option<Error>) {`
//@rewrite `name == errors.r#ref {` => `name.verif_eq(&errors.r#ref) {`
//@rewrite `name == errors.name {` => `name.verif_eq(&errors.name) {`
//@rewrite `name == errors.value {` => `name.verif_eq(&errors.value) {`
//@rewrite `name == errors.div {` => `name.verif_eq(&errors.div) {`
//@rewrite `name == errors.na {` => `name.verif_eq(&errors.na) {`
//@rewrite `name == errors.num {` => `name.verif_eq(&errors.num) {`
//@rewrite `name == errors.error {` => `name.verif_eq(&errors.error) {`
//@rewrite `name == errors.nimpl {` => `name.verif_eq(&errors.nimpl) {`
//@rewrite `name == errors.spill {` => `name.verif_eq(&errors.spill) {`
//@rewrite `name == errors.calc {` => `name.verif_eq(&errors.calc) {`
//@rewrite `name == errors.circ {` => `name.verif_eq(&errors.circ) {`
//@rewrite `name == errors.null {` => `name.verif_eq(&errors.null) {`
//@end
} // verus!
fn main() {}
