// rename_defined_name_in_node, arm by arm: renaming a defined name rewrites exactly the uses of THAT name (same scope, any letter case) in a
// formula tree and nothing else, and every composite node passes the same (name, scope, new name) to all its children.   (C32)
use vstd::prelude::*;
verus! {
#[verifier::external_body] pub struct Function { _o: u8 }
#[verifier::external_body] pub struct NamedVariable { _o: u8 }
#[verifier::external_body] pub struct ArrayNode { _o: u8 }
#[verifier::external_body] pub struct DefinedNameS { _o: u8 }
#[verifier::external_body] pub struct ExpectedTokens { _o: u8 }
#[verifier::external_body] pub struct OpCompare { _o: u8 }
#[verifier::external_body] pub struct OpUnary { _o: u8 }
pub mod token {
    #[allow(unused_imports)] use super::*;
    #[verifier::external_body] pub struct OpSum { _o: u8 }
    #[verifier::external_body] pub struct OpProduct { _o: u8 }
    #[verifier::external_body] pub struct Error { _o: u8 }
}
//@type base/src/expressions/parser/mod.rs Node

pub uninterp spec fn lower(s: Seq<char>) -> Seq<char>;
pub assume_specification [str::to_lowercase] (s: &str) -> (r: String) ensures r@ == lower(s@);
/// ASCII-only case folding: NOT the folding the rest of the engine resolves names with (uninterpreted, unrelated to `lower`)
pub uninterp spec fn ascii_ci_eq(a: Seq<char>, b: Seq<char>) -> bool;
pub assume_specification [str::eq_ignore_ascii_case] (s: &str, o: &str) -> (r: bool) ensures r == ascii_ci_eq(s@, o@);
/// `name.to_lowercase() == n.to_lowercase()` (String == String): equality of the texts
#[verifier::external_body]
pub fn shim_to_string(s: &str) -> (r: String) ensures r@ == s@ { s.to_string() }

// ---- the leaf arm: a use of a defined name ----
pub fn arm_defined_name(n: &mut String, s: &mut Option<u32>, name: &str, scope: Option<u32>, new_name: &str)
    ensures
        *final(s) == *old(s),
        lower(name@) == lower(old(n)@) && *old(s) == scope ==> final(n)@ == new_name@,
        !(lower(name@) == lower(old(n)@) && *old(s) == scope) ==> final(n)@ == old(n)@,
//@arm base/src/expressions/parser/stringify.rs rename_defined_name_in_node `Node::DefinedNameKind((n, s, _))`
//@rewrite* `new_name.to_string()` => `shim_to_string(new_name)`
//@end

// ---- composite arms: every child is visited with the SAME name, scope and new name ----
pub uninterp spec fn g_old() -> Seq<char>;
pub uninterp spec fn g_scope() -> Option<u32>;
pub uninterp spec fn g_name() -> Seq<char>;
#[verifier::external_body]
pub fn rename_defined_name_in_node(node: &mut Node, name: &str, scope: Option<u32>, new_name: &str)
    requires name@ == g_old(), scope == g_scope(), new_name@ == g_name()
{ unimplemented!() }
#[verifier::loop_isolation(false)]
#[verifier::exec_allows_no_decreases_clause]
pub fn arm_OpRangeKind(left: &mut Box<Node>, right: &mut Box<Node>, name: &str, scope: Option<u32>, new_name: &str)
    requires name@ == g_old(), scope == g_scope(), new_name@ == g_name()
//@arm base/src/expressions/parser/stringify.rs rename_defined_name_in_node `Node::OpRangeKind { left, right }`
//@end
#[verifier::loop_isolation(false)]
#[verifier::exec_allows_no_decreases_clause]
pub fn arm_OpConcatenateKind(left: &mut Box<Node>, right: &mut Box<Node>, name: &str, scope: Option<u32>, new_name: &str)
    requires name@ == g_old(), scope == g_scope(), new_name@ == g_name()
//@arm base/src/expressions/parser/stringify.rs rename_defined_name_in_node `Node::OpConcatenateKind { left, right }`
//@end
#[verifier::loop_isolation(false)]
#[verifier::exec_allows_no_decreases_clause]
pub fn arm_OpSumKind(left: &mut Box<Node>, right: &mut Box<Node>, name: &str, scope: Option<u32>, new_name: &str)
    requires name@ == g_old(), scope == g_scope(), new_name@ == g_name()
//@arm base/src/expressions/parser/stringify.rs rename_defined_name_in_node `Node::OpSumKind {`
//@end
#[verifier::loop_isolation(false)]
#[verifier::exec_allows_no_decreases_clause]
pub fn arm_OpProductKind(left: &mut Box<Node>, right: &mut Box<Node>, name: &str, scope: Option<u32>, new_name: &str)
    requires name@ == g_old(), scope == g_scope(), new_name@ == g_name()
//@arm base/src/expressions/parser/stringify.rs rename_defined_name_in_node `Node::OpProductKind {`
//@end
#[verifier::loop_isolation(false)]
#[verifier::exec_allows_no_decreases_clause]
pub fn arm_OpPowerKind(left: &mut Box<Node>, right: &mut Box<Node>, name: &str, scope: Option<u32>, new_name: &str)
    requires name@ == g_old(), scope == g_scope(), new_name@ == g_name()
//@arm base/src/expressions/parser/stringify.rs rename_defined_name_in_node `Node::OpPowerKind { left, right }`
//@end
#[verifier::loop_isolation(false)]
#[verifier::exec_allows_no_decreases_clause]
pub fn arm_FunctionKind(args: &mut Vec<Node>, name: &str, scope: Option<u32>, new_name: &str)
    requires name@ == g_old(), scope == g_scope(), new_name@ == g_name()
//@arm base/src/expressions/parser/stringify.rs rename_defined_name_in_node `Node::FunctionKind { kind: _, args }`
//@end
#[verifier::loop_isolation(false)]
#[verifier::exec_allows_no_decreases_clause]
pub fn arm_NamedFunctionKind(args: &mut Vec<Node>, name: &str, scope: Option<u32>, new_name: &str)
    requires name@ == g_old(), scope == g_scope(), new_name@ == g_name()
//@arm base/src/expressions/parser/stringify.rs rename_defined_name_in_node `Node::NamedFunctionKind {`
//@end
#[verifier::loop_isolation(false)]
#[verifier::exec_allows_no_decreases_clause]
pub fn arm_CompareKind(left: &mut Box<Node>, right: &mut Box<Node>, name: &str, scope: Option<u32>, new_name: &str)
    requires name@ == g_old(), scope == g_scope(), new_name@ == g_name()
//@arm base/src/expressions/parser/stringify.rs rename_defined_name_in_node `Node::CompareKind {`
//@end
#[verifier::loop_isolation(false)]
#[verifier::exec_allows_no_decreases_clause]
pub fn arm_UnaryKind(right: &mut Box<Node>, name: &str, scope: Option<u32>, new_name: &str)
    requires name@ == g_old(), scope == g_scope(), new_name@ == g_name()
//@arm base/src/expressions/parser/stringify.rs rename_defined_name_in_node `Node::UnaryKind { kind: _, right }`
//@end
#[verifier::loop_isolation(false)]
#[verifier::exec_allows_no_decreases_clause]
pub fn arm_ImplicitIntersection(child: &mut Box<Node>, name: &str, scope: Option<u32>, new_name: &str)
    requires name@ == g_old(), scope == g_scope(), new_name@ == g_name()
//@arm base/src/expressions/parser/stringify.rs rename_defined_name_in_node `Node::ImplicitIntersection {`
//@end
#[verifier::loop_isolation(false)]
#[verifier::exec_allows_no_decreases_clause]
pub fn arm_SpillRangeOperator(child: &mut Box<Node>, name: &str, scope: Option<u32>, new_name: &str)
    requires name@ == g_old(), scope == g_scope(), new_name@ == g_name()
//@arm base/src/expressions/parser/stringify.rs rename_defined_name_in_node `Node::SpillRangeOperator { child }`
//@end
#[verifier::loop_isolation(false)]
#[verifier::exec_allows_no_decreases_clause]
pub fn arm_LambdaDefKind(body: &mut Box<Node>, name: &str, scope: Option<u32>, new_name: &str)
    requires name@ == g_old(), scope == g_scope(), new_name@ == g_name()
//@arm base/src/expressions/parser/stringify.rs rename_defined_name_in_node `Node::LambdaDefKind {`
//@end
#[verifier::loop_isolation(false)]
#[verifier::exec_allows_no_decreases_clause]
pub fn arm_LambdaCallKind(lambda: &mut Box<Node>, args: &mut Vec<Node>, name: &str, scope: Option<u32>, new_name: &str)
    requires name@ == g_old(), scope == g_scope(), new_name@ == g_name()
//@arm base/src/expressions/parser/stringify.rs rename_defined_name_in_node `Node::LambdaCallKind { lambda, args }`
//@end

// ---- the call site in Model::update_defined_name: every stored formula is rewritten with the OLD name and the OLD scope (the scope the uses
// ---- were resolved in), whatever the new scope is ----
#[verifier::external_body] pub struct Parser { _o: u8 }
#[verifier::external_body] pub struct CellReferenceRC { _o: u8 }
impl Parser {
    #[verifier::external_body] pub fn parse(&mut self, formula: &String, context: &CellReferenceRC) -> Node { unimplemented!() }
}
#[verifier::external_body] pub fn to_rc_format(node: &Node) -> String { unimplemented!() }
pub fn site_update_defined_name(parser: &mut Parser, formula: &String, cell_reference: CellReferenceRC, formulas: &mut Vec<String>,
                                name: &str, scope: Option<u32>, new_name: &str, new_scope: Option<u32>)
    requires name@ == g_old(), scope == g_scope(), new_name@ == g_name()
{
//@fragment base/src/model.rs Model::update_defined_name `let mut t = self.parser.parse(formula, &cell_reference);` .. `formulas.push(to_rc_format(&t));`
//@rewrite `self.parser.parse(` => `parser.parse(`
//@end
}

} // verus!
fn main() {}
