// U-refshift + U-cfshift: reference displacement in formulas and conditional-format corners
// against the same spec functions shift / move1.   (C12, C13, C14, C15, C33)
use vstd::prelude::*;
verus! {
pub mod constants {
    #[allow(unused_imports)] use super::*;
//@type base/src/constants.rs LAST_COLUMN
//@type base/src/constants.rs LAST_ROW
}
pub use constants::{LAST_COLUMN, LAST_ROW};
//@include disp_vocab.rs
//@type base/src/expressions/types.rs CellReferenceRC
//@type base/src/expressions/parser/mod.rs Reference

// quote_name and number_to_column are outside this unit.  number_to_column's contract is PROVED in unit colcodec;
// quote_name (sheet-name quoting) is string code: result unspecified.
#[verifier::external_body]
pub fn quote_name(name: &str) -> String { unimplemented!() }
pub mod crate_paths { }
#[verifier::external_body]
pub fn number_to_column(i: i32) -> (r: Option<String>)
    ensures r.is_some() <==> 1 <= i <= 16384
{ unimplemented!() }

#[verifier::external_body] pub struct LanguageRest { _o: u8 }
//@type base/src/language/mod.rs Errors
pub struct Language { pub errors: Errors, pub rest: LanguageRest }      // context shell (D5)
/// what a broken reference prints: the #REF! name of the language the formula is printed in
pub open spec fn ref_str(language: &Language) -> Seq<char> { language.errors.r#ref@ }
pub trait VerifCopy { fn verif_copy(&self) -> (r: String); }
impl VerifCopy for String { #[verifier::external_body] fn verif_copy(&self) -> (r: String) ensures r@ == self@ { self.to_string() } }

//@fn base/src/expressions/parser/stringify.rs stringify_reference
//@spec
    requires
        small(reference.row as int) && small(reference.column as int), disp_small(*displace_data),
        context.is_some() ==> small(context.unwrap().row as int) && small(context.unwrap().column as int),
    ensures
        // a reference to a deleted cell, or pushed off the grid, becomes #REF!
        context.is_some() ==> ({
            let row0 = if reference.absolute_row { reference.row as int } else { reference.row + context.unwrap().row };
            let col0 = if reference.absolute_column { reference.column as int } else { reference.column + context.unwrap().column };
            match disp(*displace_data, reference.sheet_index, full_row, full_column, row0, col0) {
                None => r@ == ref_str(language),
                Some((r2, c2)) => (r2 < 1 || r2 > 1048576 || c2 < 1 || c2 > 16384) ==> r@ == ref_str(language),
            }
        }),
//@rewrite `) -> String {` => `) -> (r: String) {`
//@rewrite `crate::expressions::utils::number_to_column(column)` => `number_to_column(column)`
//@rewritex6 `language.errors.r#ref.to_string()` => `language.errors.r#ref.verif_copy()`
//@after `Some(context) => {`
            let ghost row0 = if reference.absolute_row { reference.row as int } else { reference.row + context.row };
            let ghost col0 = if reference.absolute_column { reference.column as int } else { reference.column + context.column };
//@before#1 `return language.errors.r#ref.verif_copy();`
                                    assert(disp(*displace_data, sheet_index, full_row, full_column, row0, col0) is None);
//@before#2 `return language.errors.r#ref.verif_copy();`
                                    assert(disp(*displace_data, sheet_index, full_row, full_column, row0, col0) is None);
//@before#3 `return language.errors.r#ref.verif_copy();`
                                    assert(disp(*displace_data, sheet_index, full_row, full_column, row0, col0) is None);
//@before#4 `return language.errors.r#ref.verif_copy();`
                                    assert(disp(*displace_data, sheet_index, full_row, full_column, row0, col0) is None);
//@before `if !(1..=LAST_ROW).contains(&row) {`
            // every reference that survives keeps pointing at the same cell: its coordinate went through shift / move1
            assert(disp(*displace_data, sheet_index, full_row, full_column, row0, col0) == Some((row as int, column as int)));
//@end

//@fn base/src/actions.rs displace_cf_row
//@spec
    requires small(row as int), disp_small(*data)
    ensures
        match disp_row(*data, sheet, row as int) {
            None => r.is_none(),
            Some(r2) => r == Some(r2 as i32),
        }
//@rewrite `-> Option<i32> {` => `-> (r: Option<i32>) {`
//@end

//@fn base/src/actions.rs displace_cf_col
//@spec
    requires small(col as int), disp_small(*data)
    ensures
        match disp_col(*data, sheet, col as int) {
            None => r.is_none(),
            Some(c2) => r == Some(c2 as i32),
        }
//@rewrite `-> Option<i32> {` => `-> (r: Option<i32>) {`
//@end

} // verus!
fn main() {}
