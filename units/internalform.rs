// English internal storage (C10): Model::parse_internal_formula parses with the ENGLISH locale and language whatever the active ones are and then RESTORES
// the parser's locale and language; Model::user_formula_to_internal stores the ENGLISH printing (to_english_string) of the tree it parsed — in the active
// language first, in English if that fails — never a localized printing.  Whole functions, verbatim; the parser and the printers are stubs whose results
// are uninterpreted functions of (text, context, locale, language) resp. (tree, context), so only the right call can establish the postcondition.
use vstd::prelude::*;
verus! {
#[verifier::external_body] pub struct Locale { _o: u8 }
#[verifier::external_body] pub struct Language { _o: u8 }
#[verifier::external_body] pub struct CellReferenceRC { _o: u8 }
#[verifier::external_body] pub struct NodeRest { _o: u8 }
#[verifier::external_body] pub struct ModelRest { _o: u8 }
#[verifier::external_body] pub struct ParserRest { _o: u8 }
/// context shell (D5): the one variant the extracted text names
pub enum Node { ParseErrorKind { rest: NodeRest }, Other { rest: NodeRest } }
pub struct Parser<'a> { pub locale: &'a Locale, pub language: &'a Language, pub rest: ParserRest }
pub struct Model<'a> { pub parser: Parser<'a>, pub locale: &'a Locale, pub language: &'a Language, pub rest: ModelRest }
pub uninterp spec fn english_locale() -> &'static Locale;
pub uninterp spec fn english_language() -> &'static Language;
#[verifier::external_body] pub fn get_default_locale() -> (r: &'static Locale) ensures r == english_locale() { unimplemented!() }
#[verifier::external_body] pub fn get_default_language() -> (r: &'static Language) ensures r == english_language() { unimplemented!() }
/// what the parser answers: a function of the text, the context and the locale / language it is set to
pub uninterp spec fn parsed(body: Seq<char>, context: &CellReferenceRC, locale: &Locale, language: &Language) -> Node;
pub uninterp spec fn english_text(node: Node, context: &CellReferenceRC) -> Seq<char>;
pub uninterp spec fn localized_text(node: Node, context: &CellReferenceRC, locale: &Locale, language: &Language) -> Seq<char>;
impl<'a> Parser<'a> {
    #[verifier::external_body]
    pub fn set_locale(&mut self, locale: &'a Locale) ensures final(self).locale == locale, final(self).language == old(self).language { unimplemented!() }
    #[verifier::external_body]
    pub fn set_language(&mut self, language: &'a Language) ensures final(self).language == language, final(self).locale == old(self).locale { unimplemented!() }
    #[verifier::external_body]
    pub fn parse(&mut self, body: &str, context: &CellReferenceRC) -> (r: Node)
        ensures r == parsed(body@, context, old(self).locale, old(self).language), final(self).locale == old(self).locale, final(self).language == old(self).language
    { unimplemented!() }
}
#[verifier::external_body]
pub fn to_english_string(node: &Node, context: &CellReferenceRC) -> (r: String) ensures r@ == english_text(*node, context) { unimplemented!() }
#[verifier::external_body]
pub fn to_localized_string(node: &Node, context: &CellReferenceRC, locale: &Locale, language: &Language) -> (r: String)
    ensures r@ == localized_text(*node, context, locale, language) { unimplemented!() }
// text plumbing of user_formula_to_internal: trimming and the leading '='
pub uninterp spec fn body_of(formula: Seq<char>) -> Seq<char>;
pub uninterp spec fn with_equals(s: Seq<char>) -> Seq<char>;
#[verifier::external_body] pub fn shim_trim(s: &str) -> (r: &str) { s.trim() }
#[verifier::external_body] pub fn shim_starts_with_eq(s: &str) -> bool { s.starts_with('=') }
#[verifier::external_body] pub fn shim_body<'b>(formula: &'b str, trimmed: &'b str) -> (r: &'b str) ensures r@ == body_of(formula@) { trimmed.strip_prefix('=').unwrap_or(trimmed) }
#[verifier::external_body] pub fn shim_with_equals(s: String) -> (r: String) ensures r@ == with_equals(s@) { unimplemented!() }
#[verifier::external_body] pub fn shim_invalid(formula: &str) -> String { unimplemented!() }

/// `new_parser_english(worksheet names, defined names, tables)`: a parser set to the English locale and language (its other arguments are workbook data)
#[verifier::external_body]
pub fn new_parser_english_shell() -> (r: Parser<'static>) ensures r.locale == english_locale(), r.language == english_language() { unimplemented!() }
#[verifier::external_body] pub fn shim_copy(s: &str) -> (r: String) ensures r@ == s@ { s.to_string() }
#[verifier::external_body] pub fn shim_is_empty(s: &str) -> (r: bool) { s.is_empty() }
impl<'a> Model<'a> {
//@fn base/src/model.rs Model::internal_formula_to_display
//@spec
    ensures
        // what is shown is the printing, in the ACTIVE locale and language, of the tree the ENGLISH parser reads from the stored text (or the text itself)
        ({
            let n = parsed(body_of(formula@), context, english_locale(), english_language());
            r@ == formula@ || (!(n is ParseErrorKind)
                && (r@ == localized_text(n, context, self.locale, self.language) || r@ == with_equals(localized_text(n, context, self.locale, self.language))))
        }),
//@rewrite `) -> String {` => `) -> (r: String) {`
//@rewrite `let trimmed = formula.trim();` => `let trimmed = shim_trim(formula);`
//@rewrite `let had_equals = trimmed.starts_with('=');` => `let had_equals = shim_starts_with_eq(trimmed);`
//@rewrite `let body = trimmed.strip_prefix('=').unwrap_or(trimmed);` => `let body = shim_body(formula, trimmed);`
//@rewrite `if body.is_empty() {` => `if shim_is_empty(body) {`
//@rewritex2 `return formula.to_string();` => `return shim_copy(formula);`
//@dropstmt `let worksheet_names = self`
//@dropstmt `let defined_names = self.workbook.get_defined_names_with_scope();`
//@rewrite `new_parser_english(worksheet_names, defined_names, self.workbook.tables.clone());` => `new_parser_english_shell();`
//@rewrite `format!("={local}")` => `shim_with_equals(local)`
//@end
//@fn base/src/model.rs Model::parse_internal_formula
//@spec
    requires old(self).parser.locale == old(self).locale, old(self).parser.language == old(self).language      // the model keeps its parser set to its own locale / language
    ensures r == parsed(body@, context, english_locale(), english_language()),
        final(self).parser.locale == old(self).parser.locale, final(self).parser.language == old(self).parser.language,   // restored
        final(self).locale == old(self).locale, final(self).language == old(self).language,
//@rewrite `-> Node {` => `-> (r: Node) {`
//@end
//@fn base/src/model.rs Model::user_formula_to_internal
//@spec
    requires old(self).parser.locale == old(self).locale, old(self).parser.language == old(self).language
    ensures
        final(self).parser.locale == old(self).parser.locale, final(self).parser.language == old(self).parser.language,
        // what is stored is the ENGLISH printing of the tree parsed in the active language or, failing that, in English
        r matches Ok(t) ==> ({
            let n1 = parsed(body_of(formula@), context, old(self).locale, old(self).language);
            let n2 = parsed(body_of(formula@), context, english_locale(), english_language());
            let n = if n1 is ParseErrorKind { n2 } else { n1 };
            !(n is ParseErrorKind) && (t@ == english_text(n, context) || t@ == with_equals(english_text(n, context)))
        }),
//@rewrite `) -> Result<String, String> {` => `) -> (r: Result<String, String>) {`
//@rewrite `let trimmed = formula.trim();` => `let trimmed = shim_trim(formula);`
//@rewrite `let had_equals = trimmed.starts_with('=');` => `let had_equals = shim_starts_with_eq(trimmed);`
//@rewrite `let body = trimmed.strip_prefix('=').unwrap_or(trimmed);` => `let body = shim_body(formula, trimmed);`
//@rewrite `return Err(format!("Invalid formula: '{formula}'"));` => `return Err(shim_invalid(formula));`
//@rewrite `format!("={english}")` => `shim_with_equals(english)`
//@end
}
} // verus!
fn main() {}
