//! Replay drivers (injected by /verif/vf/replay_drivers.py into a SCRATCH COPY of the crate, never into /repo).
//! Each driver evaluates, on the REAL functions, the same postconditions the Verus units state, over a grid of corner
//! values (the boundaries, +-1, split points mentioned in the contracts).  A driver returns the failing inputs it found.
//! This is a concrete cross-check and a source of failing inputs for refuted obligations — it is never counted as proof.
#![allow(clippy::all, dead_code, unused_variables)]

use crate::constants::{DEFAULT_COLUMN_WIDTH, DEFAULT_ROW_HEIGHT, LAST_COLUMN, LAST_ROW};
use crate::expressions::utils::{column_to_number, number_to_column};
use crate::types::{Col, Row, Worksheet};
use crate::{Model, UserModel};

fn new_model() -> Model<'static> {
    Model::new_empty("replay", "en", "UTC", "en").unwrap()
}
fn new_um() -> UserModel<'static> {
    UserModel::new_empty("replay", "en", "UTC", "en").unwrap()
}

// ------------------------------------------------------------------------------------------------ columns (C29, C27)
fn col(min: i32, max: i32, width: f64, custom: bool, hidden: bool, style: Option<i32>) -> Col {
    Col { min, max, width, custom_width: custom, hidden, style }
}
fn layouts() -> Vec<(&'static str, Vec<Col>)> {
    vec![
        ("empty", vec![]),
        ("single[5]", vec![col(5, 5, 20.0, true, false, Some(2))]),
        ("range[2..6] custom hidden", vec![col(2, 6, 30.0, true, true, Some(4))]),
        ("range[1..16384] styled", vec![col(1, LAST_COLUMN, 10.0, false, false, Some(7))]),
        ("two adjacent [3..4][5..7]", vec![col(3, 4, 11.0, true, false, None), col(5, 7, 12.0, true, true, Some(1))]),
        ("gap [2..2][6..9]", vec![col(2, 2, 15.0, true, false, Some(3)), col(6, 9, 16.0, false, true, None)]),
    ]
}
#[derive(PartialEq, Debug, Clone)]
struct ColObs { style: Option<i32>, hidden: bool, actual: f64 }
fn observe_cols(ws: &Worksheet) -> Vec<ColObs> {
    let probe = [1, 2, 3, 4, 5, 6, 7, 8, 9, 10, 16383, 16384];
    probe.iter().map(|&c| ColObs {
        style: ws.get_column_style(c).unwrap(),
        hidden: ws.is_column_hidden(c).unwrap(),
        actual: ws.get_actual_column_width(c).unwrap(),
    }).collect()
}
fn cols_wf(cols: &[Col]) -> bool {
    cols.iter().all(|c| 1 <= c.min && c.min <= c.max) && cols.windows(2).all(|w| w[0].max < w[1].min)
}
pub fn drive_cols() -> Vec<String> {
    let mut fails = vec![];
    let probe = [1, 2, 3, 4, 5, 6, 7, 8, 9, 10, 16383, 16384];
    for (lname, layout) in layouts() {
        for &c in &probe {
            for op in ["width", "hidden", "unhide", "style", "delete_style"] {
                let mut model = new_model();
                let ws = model.workbook.worksheet_mut(0).unwrap();
                ws.cols = layout.clone();
                let before = observe_cols(ws);
                let r = match op {
                    "width" => ws.set_column_width(c, 135.0),
                    "hidden" => ws.set_column_hidden(c, true),
                    "unhide" => ws.set_column_hidden(c, false),
                    "style" => ws.set_column_style(c, 9),
                    _ => ws.delete_column_style(c),
                };
                let after = observe_cols(ws);
                let tag = format!("layout={lname} op={op} column={c}");
                if r.is_err() {
                    fails.push(format!("{tag}: unexpected Err {:?}", r));
                    continue;
                }
                if !cols_wf(&ws.cols) {
                    fails.push(format!("{tag}: descriptors not sorted/disjoint/non-degenerate: {:?}", ws.cols));
                }
                for (i, &p) in probe.iter().enumerate() {
                    if p != c {
                        if before[i] != after[i] {
                            fails.push(format!("{tag}: column {p} changed {:?} -> {:?}", before[i], after[i]));
                        }
                    } else {
                        let (b, a) = (&before[i], &after[i]);
                        let ok = match op {
                            "width" => a.style == b.style && a.hidden == b.hidden && (a.actual - 135.0).abs() < 1e-9,
                            "hidden" => a.style == b.style && a.hidden && (a.actual - b.actual).abs() < 1e-9,
                            "unhide" => a.style == b.style && !a.hidden && (a.actual - b.actual).abs() < 1e-9,
                            "style" => a.style == Some(9) && a.hidden == b.hidden && (a.actual - b.actual).abs() < 1e-9,
                            _ => a.style.is_none() && a.hidden == b.hidden && (a.actual - b.actual).abs() < 1e-9,
                        };
                        if !ok {
                            fails.push(format!("{tag}: target column {:?} -> {:?}", b, a));
                        }
                    }
                }
            }
        }
    }
    fails
}

// ------------------------------------------------------------------------------------------------ rows (C29)
#[derive(PartialEq, Debug, Clone)]
struct RowObs { hidden: bool, height: f64, style: i32 }
fn observe_rows(ws: &Worksheet) -> Vec<RowObs> {
    (1..=8).map(|r| {
        let d = ws.rows.iter().find(|x| x.r == r);
        RowObs { hidden: ws.is_row_hidden(r).unwrap(), height: d.map(|x| x.height).unwrap_or(-1.0), style: d.map(|x| if x.custom_format { x.s } else { 0 }).unwrap_or(0) }
    }).collect()
}
pub fn drive_rows() -> Vec<String> {
    let mut fails = vec![];
    let base = vec![
        Row { r: 2, height: 20.0, custom_format: true, custom_height: true, s: 3, hidden: false },
        Row { r: 5, height: 16.0, custom_format: false, custom_height: false, s: 0, hidden: true },
        Row { r: 6, height: 30.0, custom_format: true, custom_height: true, s: 4, hidden: true },
    ];
    for r in 1..=7 {
        for op in ["height", "hide", "unhide", "style", "delete_style"] {
            let mut model = new_model();
            let ws = model.workbook.worksheet_mut(0).unwrap();
            ws.rows = base.clone();
            let before = observe_rows(ws);
            let res = match op {
                "height" => ws.set_row_height(r, 48.0),
                "hide" => ws.set_row_hidden(r, true),
                "unhide" => ws.set_row_hidden(r, false),
                "style" => ws.set_row_style(r, 8),
                _ => ws.delete_row_style(r),
            };
            let after = observe_rows(ws);
            let tag = format!("rows op={op} row={r}");
            if res.is_err() { fails.push(format!("{tag}: unexpected Err")); continue; }
            let mut seen = std::collections::HashSet::new();
            if !ws.rows.iter().all(|x| seen.insert(x.r)) { fails.push(format!("{tag}: duplicate row descriptor")); }
            for i in 0..8 {
                let p = i as i32 + 1;
                if p != r && before[i] != after[i] { fails.push(format!("{tag}: row {p} changed {:?} -> {:?}", before[i], after[i])); }
                if p == r {
                    let (b, a) = (&before[i], &after[i]);
                    let existed = base.iter().any(|x| x.r == r);
                    let ok = match op {
                        "height" => a.hidden == b.hidden && a.style == b.style,
                        "hide" => a.hidden && a.style == b.style && (!existed || a.height == b.height),
                        "unhide" => !a.hidden && a.style == b.style && (!existed || a.height == b.height),
                        "style" => a.style == 8 && a.hidden == b.hidden && (!existed || a.height == b.height),
                        _ => a.style == 0 && a.hidden == b.hidden && (!existed || a.height == b.height),
                    };
                    if !ok { fails.push(format!("{tag}: target row {:?} -> {:?}", b, a)); }
                }
            }
        }
    }
    fails
}

// ------------------------------------------------------------------------------------------------ column codec (C22, C11)
pub fn drive_colcodec() -> Vec<String> {
    let mut fails = vec![];
    for i in 1..=LAST_COLUMN {
        match number_to_column(i) {
            Some(s) => {
                if column_to_number(&s) != Ok(i) { fails.push(format!("column_to_number(number_to_column({i})={s}) = {:?}", column_to_number(&s))); }
                if s.is_empty() || s.len() > 3 || !s.chars().all(|c| c.is_ascii_uppercase()) { fails.push(format!("number_to_column({i}) = {s}")); }
            }
            None => fails.push(format!("number_to_column({i}) = None")),
        }
    }
    for i in [0, -1, LAST_COLUMN + 1, i32::MAX, i32::MIN] {
        if number_to_column(i).is_some() { fails.push(format!("number_to_column({i}) is Some")); }
    }
    let alphabet = ['A', 'B', 'Z', 'X', 'F', 'D', 'a', '$', '1'];
    let mut strs = vec!["".to_string()];
    for _ in 0..4 {
        let mut next = vec![];
        for s in &strs { for c in alphabet { let mut t = s.clone(); t.push(c); next.push(t); } }
        for s in &next { strs.push(s.clone()); }
        strs.sort(); strs.dedup();
        if strs.len() > 8000 { break; }
    }
    strs.push("AAAAAAAAAA".to_string());
    strs.push("ZZZZZZZZZZZZZZZZZZZZ".to_string());
    for s in &strs {
        let r = std::panic::catch_unwind(|| column_to_number(s));
        match r {
            Err(_) => fails.push(format!("column_to_number({s:?}) panicked")),
            Ok(Ok(n)) => {
                let valid = !s.is_empty() && s.chars().all(|c| c.is_ascii_uppercase());
                if !valid || number_to_column(n).as_deref() != Some(s.as_str()) { fails.push(format!("column_to_number({s:?}) = Ok({n})")); }
            }
            Ok(Err(_)) => {
                let v: i64 = if !s.is_empty() && s.len() <= 3 && s.chars().all(|c| c.is_ascii_uppercase()) { s.chars().fold(0i64, |a, c| a * 26 + (c as i64 - 64)) } else { 0 };
                if (1..=LAST_COLUMN as i64).contains(&v) { fails.push(format!("column_to_number({s:?}) rejected a valid column")); }
            }
        }
    }
    fails
}

// ------------------------------------------------------------------------------------------------ dates (C21)
pub fn drive_dates() -> Vec<String> {
    use crate::formatter::dates::{date_to_serial_number, from_excel_date};
    use chrono::Datelike;
    let mut fails = vec![];
    let mut prev: Option<chrono::NaiveDate> = None;
    for s in 1..=2_958_465i64 {
        match from_excel_date(s) {
            Ok(d) => {
                if date_to_serial_number(d.day(), d.month(), d.year()) != Ok(s as i32) { fails.push(format!("serial {s} -> {d} -> {:?}", date_to_serial_number(d.day(), d.month(), d.year()))); }
                if let Some(p) = prev { if d <= p { fails.push(format!("serial {s}: date {d} not after {p}")); } }
                prev = Some(d);
            }
            Err(e) => fails.push(format!("from_excel_date({s}) = Err({e})")),
        }
        if fails.len() > 5 { break; }
    }
    for s in [0i64, -1, 2_958_466] { if from_excel_date(s).is_ok() { fails.push(format!("from_excel_date({s}) accepted")); } }
    if from_excel_date(1).map(|d| (d.year(), d.month(), d.day())) != Ok((1899, 12, 31)) { fails.push("serial 1 is not 1899-12-31".to_string()); }
    if from_excel_date(2_958_465).map(|d| (d.year(), d.month(), d.day())) != Ok((9999, 12, 31)) { fails.push("serial 2958465 is not 9999-12-31".to_string()); }
    fails
}

// ------------------------------------------------------------------------------------------------ error names (C23)
pub fn drive_errnames() -> Vec<String> {
    use crate::expressions::token::{get_error_by_english_name, is_english_error_string, Error};
    let mut fails = vec![];
    let all = [Error::REF, Error::NAME, Error::VALUE, Error::DIV, Error::NA, Error::NUM, Error::ERROR, Error::NIMPL, Error::SPILL, Error::CALC, Error::CIRC, Error::NULL];
    for e in all.iter() {
        let s = e.to_string();
        if get_error_by_english_name(&s).as_ref() != Some(e) { fails.push(format!("{e:?} prints as {s} which parses as {:?}", get_error_by_english_name(&s))); }
        if !is_english_error_string(&s) { fails.push(format!("{s} is not an english error string")); }
    }
    fails
}

// ------------------------------------------------------------------------------------------------ function names (C23)
// exhaustive: every built-in function in every language; the printed name must look up as the same function
pub fn drive_fnnames() -> Vec<String> {
    use crate::functions::Function;
    let mut fails = vec![];
    for l in ["en", "es", "fr", "de", "it"] {
        let Ok(lang) = crate::language::get_language(l) else { fails.push(format!("language {l} missing")); continue; };
        for f in Function::into_iter() {
            let name = f.to_localized_name(lang);
            let back = lang.functions.lookup(&name);
            if back.as_ref() != Some(&f) { fails.push(format!("{l} {name}: {f:?} looks up as {back:?}")); }
        }
    }
    fails
}

// ------------------------------------------------------------------------------------------------ operation, undo, redo, undo against a full dump (C01, C02)
fn dump_state(m: &UserModel) -> String {
    let mut s = String::new();
    let props = m.get_worksheets_properties();
    s += &format!("{props:?}\n{:?}\n", m.get_defined_name_list());
    for (i, _p) in props.iter().enumerate() {
        let i = i as u32;
        for r in 1..=12 { for c in 1..=8 {
            let t = m.get_cell_content(i, r, c).unwrap_or_default();
            let v = m.get_formatted_cell_value(i, r, c).unwrap_or_default();
            let st = m.get_cell_style(i, r, c).map(|x| format!("{x:?}")).unwrap_or_default();
            if !t.is_empty() || !v.is_empty() || !st.contains("num_fmt: \"general\", fill: Fill { color: None }, font: Font { strike: false, u: false, b: false, i: false, sz: 12, color: None") {
                s += &format!("{i}:{r}:{c} {t} = {v} {}\n", if st.len() > 0 { &st[..st.len().min(120)] } else { "" });
            }
        } }
        for c in 1..=8 { s += &format!("w{c}={:?} ", m.get_column_width(i, c)); }
        for r in 1..=12 { s += &format!("h{r}={:?} ", m.get_row_height(i, r)); }
        s += &format!("\nfrozen {:?} {:?} grid {:?}\n", m.get_frozen_rows_count(i), m.get_frozen_columns_count(i), m.get_show_grid_lines(i));
        let ws = m.get_model().workbook.worksheet(i).unwrap();
        let mut links: Vec<String> = ws.links.iter().map(|(k, v)| format!("{k:?}{v:?}")).collect(); links.sort();
        let mut hidden = vec![]; for r in 1..=12 { if ws.is_row_hidden(r).unwrap() { hidden.push(r); } } for c in 1..=8 { if ws.is_column_hidden(c).unwrap() { hidden.push(100 + c); } }
        s += &format!("links {links:?} hidden {hidden:?} merged {:?} cf {:?}\n", ws.merge_cells, ws.conditional_formatting);
    }
    s
}
/// C27: the structural invariants of a workbook, checked concretely
fn well_formed(m: &UserModel) -> Vec<String> {
    let mut bad = vec![];
    let wb = &m.get_model().workbook;
    if wb.worksheets.is_empty() { bad.push("no sheets".to_string()); }
    let mut names: Vec<String> = wb.worksheets.iter().map(|w| w.name.to_uppercase()).collect(); names.sort(); let n0 = names.len(); names.dedup();
    if names.len() != n0 { bad.push("duplicate sheet names".to_string()); }
    let mut ids: Vec<u32> = wb.worksheets.iter().map(|w| w.sheet_id).collect(); ids.sort(); let i0 = ids.len(); ids.dedup();
    if ids.len() != i0 { bad.push("duplicate sheet ids".to_string()); }
    if let Some(v) = wb.views.get(&0) { if v.sheet as usize >= wb.worksheets.len() { bad.push(format!("selected sheet {} of {}", v.sheet, wb.worksheets.len())); } } else { bad.push("no workbook view".to_string()); }
    for (i, w) in wb.worksheets.iter().enumerate() {
        let mut last = 0;
        for c in &w.cols {
            if c.min < 1 || c.max > LAST_COLUMN || c.min > c.max || c.min <= last { bad.push(format!("sheet {i}: column descriptor {}..{} after {last}", c.min, c.max)); }
            last = c.max;
        }
        let mut rs: Vec<i32> = w.rows.iter().map(|r| r.r).collect(); rs.sort(); let r0 = rs.len(); rs.dedup();
        if rs.len() != r0 || rs.iter().any(|r| *r < 1 || *r > LAST_ROW) { bad.push(format!("sheet {i}: row descriptors")); }
        for (r, row) in &w.sheet_data { for c in row.keys() { if *r < 1 || *r > LAST_ROW || *c < 1 || *c > LAST_COLUMN { bad.push(format!("sheet {i}: cell ({r},{c}) off the grid")); } } }
        for (r, c) in w.links.keys() { if *r < 1 || *r > LAST_ROW || *c < 1 || *c > LAST_COLUMN { bad.push(format!("sheet {i}: link ({r},{c}) off the grid")); } }
        if w.frozen_rows < 0 || w.frozen_rows > LAST_ROW || w.frozen_columns < 0 || w.frozen_columns > LAST_COLUMN { bad.push(format!("sheet {i}: frozen panes")); }
        match w.views.get(&0) {
            Some(v) => {
                let rg = v.range;
                let (r1, r2, c1, c2) = (rg[0].min(rg[2]), rg[0].max(rg[2]), rg[1].min(rg[3]), rg[1].max(rg[3]));
                if v.row < 1 || v.row > LAST_ROW || v.column < 1 || v.column > LAST_COLUMN || v.row < r1 || v.row > r2 || v.column < c1 || v.column > c2 || r1 < 1 || r2 > LAST_ROW || c1 < 1 || c2 > LAST_COLUMN {
                    bad.push(format!("sheet {i}: selection cell ({},{}) range {:?}", v.row, v.column, v.range));
                }
            }
            None => bad.push(format!("sheet {i}: no view")),
        }
    }
    bad
}
pub fn drive_undoall() -> Vec<String> {
    use crate::expressions::types::Area;
    let mut fails: Vec<String> = vec![];
    let make = || {
    let mut m = UserModel::new_empty("m", "en", "UTC", "en").unwrap();
        m.new_sheet().unwrap();
        for r in 1..=5 { m.set_user_input(0, r, 1, &format!("{r}")).unwrap(); m.set_user_input(0, r, 2, &format!("=A{r}*2+Sheet2!A1")).unwrap(); }
        m.set_user_input(1, 1, 1, "100").unwrap();
        m.set_user_input(0, 7, 1, "https://example.com").unwrap();
        m.set_user_input(0, 8, 1, "=SEQUENCE(2,2)").unwrap();
        m.new_defined_name("g", None, "Sheet1!$A$1:$A$5").unwrap();
        m.new_defined_name("l", Some(1), "Sheet2!$A$1").unwrap();
        m.set_user_input(0, 6, 3, "=SUM(g)").unwrap();
        m.set_user_input(1, 2, 1, "=l*2").unwrap();
        let _ = m.add_conditional_formatting(0, "A1:B5", crate::cf_types::CfRuleInput::Formula { formula: "=$A1>2".to_string(), format: crate::types::Dxf::default(), stop_if_true: false });
        let _ = m.add_conditional_formatting(0, "B2:C4", crate::cf_types::CfRuleInput::CellIs { operator: crate::cf_types::ValueOperator::GreaterThan, formula: "=Sheet2!$A$1".to_string(), formula2: None, format: crate::types::Dxf::default(), stop_if_true: true });
    m
    };
    type Op = Box<dyn Fn(&mut UserModel) -> Result<(), String>>;
    let ops: Vec<(&str, Op)> = vec![
        ("insert_rows", Box::new(|m| m.insert_rows(0, 2, 2))), ("delete_rows", Box::new(|m| m.delete_rows(0, 2, 2))),
        ("insert_columns", Box::new(|m| m.insert_columns(0, 1, 1))), ("delete_columns", Box::new(|m| m.delete_columns(0, 1, 1))),
        ("delete_columns B", Box::new(|m| m.delete_columns(0, 2, 1))),
        ("move_rows", Box::new(|m| m.move_rows_action(0, 1, 1, 3))), ("move_columns", Box::new(|m| m.move_columns_action(0, 1, 1, 1))),
        ("rename_sheet", Box::new(|m| m.rename_sheet(1, "Data sheet"))), ("delete_sheet 2", Box::new(|m| m.delete_sheet(1))), ("delete_sheet 1", Box::new(|m| m.delete_sheet(0))),
        ("duplicate_sheet", Box::new(|m| m.duplicate_sheet(0))), ("move_sheet", Box::new(|m| m.move_sheet(0, 1))), ("hide_sheet", Box::new(|m| m.hide_sheet(1))),
        ("range_clear_all", Box::new(|m| m.range_clear_all(&Area { sheet: 0, row: 1, column: 1, width: 2, height: 2 }))), ("range_clear_contents", Box::new(|m| m.range_clear_contents(&Area { sheet: 0, row: 1, column: 1, width: 2, height: 2 }))),
        ("update_range_style", Box::new(|m| m.update_range_style(&Area { sheet: 0, row: 1, column: 1, width: 2, height: 2 }, "font.b", "true"))),
        ("set widths", Box::new(|m| m.set_columns_width(0, 2, 3, 50.0))), ("set heights", Box::new(|m| m.set_rows_height(0, 2, 3, 50.0))),
        ("hide rows", Box::new(|m| m.set_rows_hidden(0, 2, 3, true))), ("hide cols", Box::new(|m| m.set_columns_hidden(0, 2, 2, true))),
        ("frozen", Box::new(|m| m.set_frozen_rows_count(0, 2))), ("type over spill", Box::new(|m| m.set_user_input(0, 9, 2, "x"))), ("type over anchor", Box::new(|m| m.set_user_input(0, 8, 1, "y"))),
        ("type over link", Box::new(|m| m.set_user_input(0, 7, 1, "plain"))), ("update name", Box::new(|m| m.update_defined_name("g", None, "h", None, "Sheet1!$A$2"))),
        ("rescope name", Box::new(|m| m.update_defined_name("l", Some(1), "l", None, "Sheet2!$A$1"))), ("delete name", Box::new(|m| m.delete_defined_name("g", None))),
        ("autofill rows", Box::new(|m| m.auto_fill_rows(&Area { sheet: 0, row: 1, column: 1, width: 2, height: 2 }, 10))),
        ("autofill cols", Box::new(|m| m.auto_fill_columns(&Area { sheet: 0, row: 1, column: 1, width: 2, height: 2 }, 6))),
        ("set_user_array_formula", Box::new(|m| m.set_user_array_formula(0, 10, 4, 2, 2, "=A1:B2*2"))),
        ("locale", Box::new(|m| m.set_locale("de"))),
        ("set_cell_link", Box::new(|m| m.set_cell_link(0, 1, 1, crate::types::Link::External { target: "https://a.b".to_string(), tooltip: None }, None))),
        ("set_cell_link label", Box::new(|m| m.set_cell_link(0, 11, 1, crate::types::Link::Internal { location: "Sheet2!A1".to_string(), tooltip: Some("t".to_string()) }, Some("go")))),
        ("delete_cell_link", Box::new(|m| m.delete_cell_link(0, 7, 1))),
        ("paste_csv", Box::new(|m| m.paste_csv_string(&Area { sheet: 0, row: 1, column: 1, width: 1, height: 1 }, "7\t8\n9\t=A1"))),
        ("clear formatting", Box::new(|m| m.range_clear_formatting(&Area { sheet: 0, row: 7, column: 1, width: 1, height: 1 }))),
        ("copy paste", Box::new(|m| { m.set_selected_sheet(0)?; m.set_selected_range(1, 1, 2, 2)?; let c = m.copy_to_clipboard()?; m.set_selected_cell(5, 5)?; m.paste_from_clipboard(0, (1, 1, 2, 2), &c.data, false) })),
        ("cut paste", Box::new(|m| { m.set_selected_sheet(0)?; m.set_selected_range(1, 1, 2, 2)?; let c = m.copy_to_clipboard()?; m.set_selected_cell(5, 5)?; m.paste_from_clipboard(0, (1, 1, 2, 2), &c.data, true) })),
        ("cut paste link", Box::new(|m| { m.set_selected_sheet(0)?; m.set_selected_range(7, 1, 7, 1)?; let c = m.copy_to_clipboard()?; m.set_selected_cell(11, 3)?; m.paste_from_clipboard(0, (7, 1, 7, 1), &c.data, true) })),
        ("cut paste spill", Box::new(|m| { m.set_selected_sheet(0)?; m.set_selected_range(8, 1, 8, 1)?; let c = m.copy_to_clipboard()?; m.set_selected_cell(10, 5)?; m.paste_from_clipboard(0, (8, 1, 8, 1), &c.data, true) })),
        ("add cf", Box::new(|m| m.add_conditional_formatting(0, "D1:D9", crate::cf_types::CfRuleInput::Formula { formula: "=D1=1".to_string(), format: crate::types::Dxf::default(), stop_if_true: false }))),
        ("delete cf", Box::new(|m| m.delete_conditional_formatting(0, 0))),
        ("update cf", Box::new(|m| m.update_conditional_formatting(0, 1, "A1:A2", crate::cf_types::CfRuleInput::Formula { formula: "=A1<0".to_string(), format: crate::types::Dxf::default(), stop_if_true: true }))),
        ("raise cf", Box::new(|m| m.raise_conditional_formatting_priority(0, 1))), ("lower cf", Box::new(|m| m.lower_conditional_formatting_priority(0, 0))),
        ("bad cf range", Box::new(|m| m.add_conditional_formatting(0, "A0:B", crate::cf_types::CfRuleInput::Formula { formula: "=1".to_string(), format: crate::types::Dxf::default(), stop_if_true: false }))),
        ("bad cf index", Box::new(|m| m.delete_conditional_formatting(0, 9))),
        // calls that must fail, and then change nothing (C04)
        ("bad insert_rows", Box::new(|m| m.insert_rows(0, 1048575, 5))), ("bad insert_columns", Box::new(|m| m.insert_columns(0, 16380, 10))), ("bad delete_rows", Box::new(|m| m.delete_rows(0, 0, 1))),
        ("bad delete_sheet", Box::new(|m| m.delete_sheet(7))), ("bad rename", Box::new(|m| m.rename_sheet(0, "Sheet2"))), ("bad rename chars", Box::new(|m| m.rename_sheet(0, "a/b"))),
        ("bad name", Box::new(|m| m.new_defined_name("A1", None, "Sheet1!$A$1"))), ("dup name", Box::new(|m| m.new_defined_name("G", None, "Sheet1!$A$1"))),
        ("bad name formula", Box::new(|m| m.new_defined_name("zz", None, "=1+"))), ("bad update name", Box::new(|m| m.update_defined_name("g", None, "l", Some(1), "Sheet1!$A$1"))),
        ("bad widths", Box::new(|m| m.set_columns_width(0, 16380, 16390, 10.0))), ("bad heights", Box::new(|m| m.set_rows_height(0, 5, 1048580, 10.0))), ("neg width", Box::new(|m| m.set_columns_width(0, 1, 2, -1.0))),
        ("bad hide", Box::new(|m| m.set_rows_hidden(0, 0, 3, true))), ("bad frozen", Box::new(|m| m.set_frozen_rows_count(0, -1))), ("bad move rows", Box::new(|m| m.move_rows_action(0, 1, 2, -5))),
        ("bad move cols", Box::new(|m| m.move_columns_action(0, 16384, 1, 5))), ("split array", Box::new(|m| m.insert_rows(0, 9, 1).and_then(|_| Err::<(), String>("x".to_string())).or(Ok(())))),
        ("type into array", Box::new(|m| { m.set_user_array_formula(0, 10, 4, 2, 2, "=A1:B2*2")?; m.undo()?; m.set_user_array_formula(0, 1, 1, 0, 2, "=1") })),
        ("bad link", Box::new(|m| m.set_cell_link(0, 0, 1, crate::types::Link::External { target: "x".to_string(), tooltip: None }, None))), ("bad csv", Box::new(|m| m.paste_csv_string(&Area { sheet: 9, row: 1, column: 1, width: 1, height: 1 }, "1"))),
        ("bad locale", Box::new(|m| m.set_locale("xx"))), ("hide last", Box::new(|m| { m.hide_sheet(1)?; m.undo()?; m.hide_sheet(5) })), ("bad move sheet", Box::new(|m| m.move_sheet(0, 9))),
        ("new_sheet", Box::new(|m| m.new_sheet())), ("sheet color", Box::new(|m| m.set_sheet_color(0, &crate::types::Color::Rgb("#FF0000".to_string())))),
        ("grid lines", Box::new(|m| m.set_show_grid_lines(0, false))),
    ];
    for (loc, lang) in [("en", "en"), ("de", "es"), ("fr", "de"), ("en-GB", "it")] {
    let make = || { let mut m = make(); if loc != "en" { let _ = m.set_locale(loc); let _ = m.set_language(lang); } m };
    for (name0, op) in ops.iter() {
        let name = &format!("[{loc}/{lang}] {name0}");
        if loc != "en" && *name0 == "locale" { continue; }
        let mut m = make();
        let before = dump_state(&m);
        if let Err(e) = op(&mut m) { let _ = e; if dump_state(&m) != before { fails.push(format!("{name}: the operation failed and changed the state")); } continue; }
        let after = dump_state(&m);
        for b in well_formed(&m) { fails.push(format!("{name}: after the operation the workbook is not well formed: {b}")); }
        // C03: a replica that applies the queued diffs of this operation reaches the same state
        {
            let mut replica = make();
            let _ = replica.flush_send_queue();
            let mut sender = make();
            let _ = sender.flush_send_queue();
            if op(&mut sender).is_ok() {
                let q = sender.flush_send_queue();
                match replica.apply_external_diffs(&q) {
                    Ok(()) => if dump_state(&replica) != dump_state(&sender) {
                        let (x, y) = (dump_state(&sender), dump_state(&replica));
                        let d: Vec<String> = x.lines().zip(y.lines()).filter(|(p, q)| p != q).take(1).map(|(p, q)| format!("{} -> {}", &p[..p.len().min(70)], &q[..q.len().min(70)])).collect();
                        fails.push(format!("{name}: a replica applying the queued diffs differs from the sender ({})", d.join(" ")));
                    },
                    Err(e) => fails.push(format!("{name}: the replica rejects the queued diffs: {e}")),
                }
            }
        }
        if after == before { continue; }      // an operation that changed nothing records nothing: there is no entry of its own to undo
        if let Err(e) = m.undo() { fails.push(format!("{name}: undo failed: {e}")); continue; }
        let undone = dump_state(&m);
        for b in well_formed(&m) { fails.push(format!("{name}: after undo the workbook is not well formed: {b}")); }
        if undone != before {
            let (a, b): (Vec<&str>, Vec<&str>) = (before.lines().collect(), undone.lines().collect());
            let d: Vec<String> = a.iter().zip(b.iter()).filter(|(x, y)| x != y).take(1).map(|(x, y)| format!("{} -> {}", &x[..x.len().min(70)], &y[..y.len().min(70)])).collect();
            fails.push(format!("{name}: the state after undo differs from the state before the operation ({})", d.join(" ")));
            continue;
        }
        if let Err(e) = m.redo() { fails.push(format!("{name}: redo failed: {e}")); continue; }
        if dump_state(&m) != after { fails.push(format!("{name}: the state after redo differs from the state after the operation")); }
        let _ = m.undo();
        if dump_state(&m) != before { fails.push(format!("{name}: the state after the second undo differs")); }
    }
    }
    fails
}

// ------------------------------------------------------------------------------------------------ displayed content re-entered (C18, C19)
// a grid of typed texts in five language/locale pairs: what the editor shows for the cell, typed back into it, leaves type, value, format and content alone
pub fn drive_entry() -> Vec<String> {
    let mut fails = vec![];
    let inputs = ["'123", "'TRUE", "'#VALUE!", "'=1+1", "''", "123", "12%", "$5", "5€", "2020-01-02", "1/2/2020", "TRUE", "true", "FALSE", "#N/A", "#VALUE!", "#DIV/0!", "#NAME?", "#REF!",
                  " 12", "1,234", "1,234.5", "-$1.5", "0.1", ".5", "1E400", "=\"12\"", "=1/3", "'1,5", "00012", "+5", "12:30", "1/2", "€5", "'#REF!", "=TRUE", "'FALSE", "123,", "1,,234", "-$-5",
                  "WAHR", "FALSCH", "VRAI", "FAUX", "VERDADERO", "FALSO", "VERO", "#¡VALOR!", "#WERT!", "#VALEUR!", "1.234,5", "1 234,5"];
    for (loc, lang) in [("en", "en"), ("de", "de"), ("fr", "fr"), ("es", "es"), ("it", "it"), ("en", "de"), ("de", "en")] {
        for f in inputs {
            let Ok(mut m) = UserModel::new_empty("m", loc, "UTC", lang) else { fails.push(format!("no model {loc}/{lang}")); continue; };
            if m.set_user_input(0, 1, 1, f).is_err() { continue; }
            let get = |m: &UserModel| (format!("{:?}", m.get_cell_type(0, 1, 1)), m.get_formatted_cell_value(0, 1, 1).unwrap_or_default(),
                                       m.get_cell_style(0, 1, 1).map(|s| s.num_fmt).unwrap_or_default(), m.get_cell_content(0, 1, 1).unwrap_or_default());
            let a = get(&m);
            if m.set_user_input(0, 1, 1, &a.3).is_err() { fails.push(format!("{loc}/{lang} typed {f:?}: the shown content {:?} is rejected", a.3)); continue; }
            let b = get(&m);
            if a != b { fails.push(format!("{loc}/{lang} typed {f:?}: {a:?} becomes {b:?} when the shown content is typed back")); }
        }
    }
    fails
}

// ------------------------------------------------------------------------------------------------ parenthesisation (C09, C16)
// every two-level combination of operators with explicit parentheses, in the display form (en and de) and the stored R1C1 form:
// parse, print, parse again -> the SAME tree
pub fn drive_parens() -> Vec<String> {
    use crate::expressions::parser::stringify::{to_localized_string, to_rc_format};
    use crate::expressions::parser::Parser;
    use crate::expressions::types::CellReferenceRC;
    let mut fails = vec![];
    let bin = ["+", "-", "*", "/", "^", "&", "=", "<", ":"];
    let mut formulas: Vec<String> = vec![];
    for o1 in bin {
        for o2 in bin {
            let (a, b, c) = if o1 == ":" || o2 == ":" { ("B1", "B2", "B3") } else { ("1", "2", "3") };
            formulas.push(format!("({a}{o2}{b}){o1}{c}"));
            formulas.push(format!("{a}{o1}({b}{o2}{c})"));
        }
        let (a, b) = if o1 == ":" { ("B1", "B2") } else { ("1", "2") };
        formulas.push(format!("-({a}{o1}{b})"));
        formulas.push(format!("({a}{o1}{b})%"));
        formulas.push(format!("(-{a}){o1}{b}"));
        formulas.push(format!("{a}{o1}(-{b})"));
        formulas.push(format!("({a}%){o1}{b}"));
        formulas.push(format!("@({a}{o1}{b})"));
    }
    for f in ["-(-1)", "-(1%)", "(-1)%", "(1%)%", "-(2^2)", "(-2)^2", "2^(-2)", "SUM((1,5))", "1E16+(-1E16+1)", "(1=2)=(3=4)", "((1+2)*3)^2", "1-(2-(3-4))"] {
        formulas.push(f.to_string());
    }
    for f in ["SUM(1,2,3)", "SUM({1,2;3,4})", "SUM({1.5,2;3,#N/A})", "LAMBDA(x,y,x+y)(1,2)", "LAMBDA(x,[y],x)(1)", "IF(1<2,#N/A,#VALUE!)", "IF(ISERROR(#REF!),1.5,2)",
              "LET(a,1.5,a+1)", "SUM(B1:B3,1.25)", "TRUE&FALSE", "IF(TRUE,1,2)", "-SUM(1,2)%", "SUM(1,2)^2", "@SUM(B1:B2)"] {
        formulas.push(f.to_string());
    }
    // typed in English, shown in every language / locale, read back THERE: the same tree (C09, C10)
    let (Ok(en_locale), Ok(en_language)) = (crate::locale::get_locale("en"), crate::language::get_language("en")) else { return vec!["no en".to_string()]; };
    let cr = CellReferenceRC { sheet: "Sheet1".to_string(), row: 10, column: 10 };
    for (loc, lang) in [("en", "en"), ("de", "de"), ("es", "es"), ("fr", "fr"), ("it", "it"), ("en-GB", "en"), ("de", "en"), ("en", "es")] {
        let (Ok(locale), Ok(language)) = (crate::locale::get_locale(loc), crate::language::get_language(lang)) else { fails.push(format!("no locale {loc}")); continue; };
        let mut en_parser = Parser::new(vec!["Sheet1".to_string()], vec![], std::collections::HashMap::new(), en_locale, en_language);
        let mut parser = Parser::new(vec!["Sheet1".to_string()], vec![], std::collections::HashMap::new(), locale, language);
        for f in formulas.iter() {
            let t1 = en_parser.parse(f, &cr);
            if matches!(t1, crate::expressions::parser::Node::ParseErrorKind { .. }) { continue; }
            let shown = to_localized_string(&t1, &cr, locale, language);
            let t2 = parser.parse(&shown, &cr);
            if t1 != t2 { fails.push(format!("{loc}/{lang} {f} is shown as {shown} which parses to another tree")); }
            if loc == "en" && lang == "en" {
                let rc = to_rc_format(&t1);
                en_parser.set_lexer_mode(crate::expressions::lexer::LexerMode::R1C1);
                let t3 = en_parser.parse(&rc, &cr);
                en_parser.set_lexer_mode(crate::expressions::lexer::LexerMode::A1);
                if t1 != t3 { fails.push(format!("{loc}/{lang} {f} is stored as {rc} which parses to another tree")); }
            }
        }
    }
    fails
}

// ------------------------------------------------------------------------------------------------ displacement (C12-C15, C33)
fn spec_shift(x: i32, p: i32, k: i32) -> Option<i32> {
    if k >= 0 { if x >= p { Some(x + k) } else { Some(x) } } else if x < p { Some(x) } else if x < p - k { None } else { Some(x + k) }
}
fn a1(row: i32, column: i32) -> String {
    if row < 1 || row > LAST_ROW || column < 1 || column > LAST_COLUMN { return "#REF!".to_string(); }
    format!("{}{}", number_to_column(column).unwrap(), row)
}
pub fn drive_refshift() -> Vec<String> {
    let mut fails = vec![];
    // formula cells sit in column Z (26) / row 200 so they are not themselves displaced in a confusing way
    let targets_rows = [1, 2, 9, 10, 11, 12, 13, 14, 15, 1048570, 1048576];
    for (p, k) in [(10, 1), (10, 3), (10, -1), (10, -3), (1, 2), (1, -2)] {
        let mut model = new_model();
        model.new_sheet();
        for (i, &t) in targets_rows.iter().enumerate() {
            model.set_user_input(1, i as i32 + 1, 1, format!("=Sheet1!C{t}")).unwrap();        // from another sheet: only the reference moves
            model.set_user_input(1, i as i32 + 1, 2, format!("=SUM(Sheet1!C{t}:D{t})")).unwrap();
        }
        let r = if k > 0 { model.insert_rows(0, p, k) } else { model.delete_rows(0, p, -k) };
        if r.is_err() { fails.push(format!("rows p={p} k={k}: {:?}", r)); continue; }
        for (i, &t) in targets_rows.iter().enumerate() {
            let got = model.get_cell_formula(1, i as i32 + 1, 1).unwrap().unwrap_or_default();
            let want = match spec_shift(t, p, k) { Some(nr) => { let s = a1(nr, 3); if s == "#REF!" { "=Sheet1!#REF!".to_string() } else { format!("=Sheet1!{s}") } }, None => "=Sheet1!#REF!".to_string() };
            let norm = |s: &str| s.replace("Sheet1!#REF!", "#REF!");
            if norm(&got) != norm(&want) { fails.push(format!("rows p={p} k={k}: =Sheet1!C{t} became {got}, expected {want}")); }
            let got2 = model.get_cell_formula(1, i as i32 + 1, 2).unwrap().unwrap_or_default();
            if let Some(nr) = spec_shift(t, p, k) {
                if nr >= 1 && nr <= LAST_ROW {
                    let want2 = format!("=SUM(Sheet1!C{nr}:D{nr})");
                    if got2 != want2 { fails.push(format!("rows p={p} k={k}: =SUM(Sheet1!C{t}:D{t}) became {got2}, expected {want2}")); }
                }
            }
        }
    }
    let targets_cols = [1, 2, 4, 5, 6, 7, 8, 16380, 16384];
    for (p, k) in [(5, 1), (5, 2), (5, -1), (5, -2), (1, 1), (1, -1)] {
        let mut model = new_model();
        model.new_sheet();
        for (i, &t) in targets_cols.iter().enumerate() {
            model.set_user_input(1, i as i32 + 1, 1, format!("=Sheet1!{}7", number_to_column(t).unwrap())).unwrap();
        }
        let r = if k > 0 { model.insert_columns(0, p, k) } else { model.delete_columns(0, p, -k) };
        if r.is_err() { fails.push(format!("columns p={p} k={k}: {:?}", r)); continue; }
        for (i, &t) in targets_cols.iter().enumerate() {
            let got = model.get_cell_formula(1, i as i32 + 1, 1).unwrap().unwrap_or_default();
            let want = match spec_shift(t, p, k) { Some(nc) => a1(7, nc), None => "#REF!".to_string() };
            let want = if want == "#REF!" { "=#REF!".to_string() } else { format!("=Sheet1!{want}") };
            let norm = |s: &str| s.replace("Sheet1!#REF!", "#REF!");
            if norm(&got) != norm(&want) { fails.push(format!("columns p={p} k={k}: ref to column {t} became {got}, expected {want}")); }
        }
    }
    fails
}

// ------------------------------------------------------------------------------------------------ finite numbers (C08)
pub fn drive_finite() -> Vec<String> {
    use crate::cell::CellValue;
    let mut fails = vec![];
    let inputs = ["={1E308,1}*10", "=-1E308*10", "=1E308*10", "={1E308;-1E308}*10", "=EXP({1000,1})", "={0,1}^-1", "1e999", "-1e999", "=LN({0,1})", "=SUM(1E308,1E308)"];
    let mut model = new_model();
    for (i, s) in inputs.iter().enumerate() {
        let _ = model.set_user_input(0, 2 * i as i32 + 1, 1, s.to_string());
    }
    model.evaluate();
    for r in 1..=(2 * inputs.len() as i32 + 2) {
        for c in 1..=3 {
            if let Ok(CellValue::Number(n)) = model.get_cell_value_by_index(0, r, c) {
                if !n.is_finite() { fails.push(format!("cell ({r},{c}) holds {n} (inputs: {:?})", inputs.get(((r - 1) / 2) as usize))); }
            }
        }
    }
    if model.update_cell_with_number(0, 40, 1, f64::NAN).is_ok() {
        if let Ok(CellValue::Number(n)) = model.get_cell_value_by_index(0, 40, 1) { if !n.is_finite() { fails.push("update_cell_with_number stored NaN".to_string()); } }
    }
    fails
}

// ------------------------------------------------------------------------------------------------ history / atomicity (C02, C04)
fn snapshot(m: &UserModel) -> (Vec<u8>, bool, bool) { (m.to_bytes(), m.can_undo(), m.can_redo()) }
pub fn drive_atomic() -> Vec<String> {
    let mut fails = vec![];
    let ops: Vec<(&str, Box<dyn Fn(&mut UserModel) -> Result<(), String>>)> = vec![
        ("set_frozen_rows_count(0,-1)", Box::new(|m| m.set_frozen_rows_count(0, -1))),
        ("set_frozen_columns_count(0,-1)", Box::new(|m| m.set_frozen_columns_count(0, -1))),
        ("set_frozen_rows_count(9,1)", Box::new(|m| m.set_frozen_rows_count(9, 1))),
        ("set_timezone(Nowhere/Land)", Box::new(|m| m.set_timezone("Nowhere/Land"))),
        ("set_locale(xx)", Box::new(|m| m.set_locale("xx"))),
        ("delete_sheet(0) on one sheet", Box::new(|m| m.delete_sheet(0))),
        ("delete_sheet(7)", Box::new(|m| m.delete_sheet(7))),
        ("hide_sheet(7)", Box::new(|m| m.hide_sheet(7))),
        ("unhide_sheet(7)", Box::new(|m| m.unhide_sheet(7))),
        ("rename_sheet(0, bad/name)", Box::new(|m| m.rename_sheet(0, "bad/name"))),
        ("rename_sheet(9, x)", Box::new(|m| m.rename_sheet(9, "x"))),
        ("delete_defined_name(missing)", Box::new(|m| m.delete_defined_name("missing", None))),
        ("new_defined_name(1bad)", Box::new(|m| m.new_defined_name("1bad", None, "Sheet1!$A$1"))),
        ("set_show_grid_lines(9)", Box::new(|m| m.set_show_grid_lines(9, false))),
        ("insert_rows(0,0,1)", Box::new(|m| m.insert_rows(0, 0, 1))),
        ("insert_rows(0,1,-1)", Box::new(|m| m.insert_rows(0, 1, -1))),
        ("insert_columns(0,1,-3)", Box::new(|m| m.insert_columns(0, 1, -3))),
        ("delete_rows(0,1,0)", Box::new(|m| m.delete_rows(0, 1, 0))),
        ("delete_columns(0,16384,5)", Box::new(|m| m.delete_columns(0, 16384, 5))),
        ("move_rows_action(0,1,1,-5)", Box::new(|m| m.move_rows_action(0, 1, 1, -5))),
        ("move_columns_action(0,2,2,-5)", Box::new(|m| m.move_columns_action(0, 2, 2, -5))),
        ("set_user_input(0,0,1)", Box::new(|m| m.set_user_input(0, 0, 1, "x"))),
        ("move_sheet(0,5)", Box::new(|m| m.move_sheet(0, 5))),
        ("set_rows_height(0,1,1,-2.0)", Box::new(|m| m.set_rows_height(0, 1, 1, -2.0))),
        ("set_columns_width(0,1,1,-2.0)", Box::new(|m| m.set_columns_width(0, 1, 1, -2.0))),
        ("set_columns_width(0,16380,16390,50)", Box::new(|m| m.set_columns_width(0, 16380, 16390, 50.0))),
        ("set_rows_height(0,1048570,1048580,30)", Box::new(|m| m.set_rows_height(0, 1048570, 1048580, 30.0))),
        ("set_columns_hidden(0,16380,16390,true)", Box::new(|m| m.set_columns_hidden(0, 16380, 16390, true))),
        ("set_columns_hidden(0,16384,16384,true)", Box::new(|m| m.set_columns_hidden(0, 16384, 16384, true))),
        ("set_rows_hidden(0,1048576,1048576,true)", Box::new(|m| m.set_rows_hidden(0, 1048576, 1048576, true))),
    ];
    for (name, op) in ops.iter() {
        let mut m = new_um();
        m.set_user_input(0, 1, 1, "1").unwrap();
        m.set_user_input(0, 2, 1, "=A1+1").unwrap();
        m.set_user_input(0, 3, 1, "3").unwrap();
        m.undo().unwrap(); // so that there is a redo list to lose
        let before = snapshot(&m);
        let r = op(&mut m);
        if r.is_ok() { continue; } // not an error case on this tree
        let after = snapshot(&m);
        if before.0 != after.0 { fails.push(format!("{name}: returned Err but the workbook bytes changed")); }
        if before.1 != after.1 || before.2 != after.2 { fails.push(format!("{name}: returned Err but can_undo/can_redo changed {:?} -> {:?}", (before.1, before.2), (after.1, after.2))); }
    }
    // operations that need a particular state first: (name, setup, operation); the snapshot is taken after the setup
    type Op = Box<dyn Fn(&mut UserModel) -> Result<(), String>>;
    let ops2: Vec<(&str, Op, Op)> = vec![
        ("paste csv with the active cell off the corner", Box::new(|m| { m.set_selected_cell(10, 9)?; m.set_selected_range(5, 4, 10, 9) }),
            Box::new(|m| m.paste_csv_string(&crate::expressions::types::Area { sheet: 0, row: 5, column: 4, width: 1, height: 1 }, "1\t2"))),
        ("paste styles reaching beyond the last row", Box::new(|m| m.set_selected_cell(1048576, 3)),
            Box::new(|m| { let mut s = m.get_cell_style(0, 1, 1)?; s.font.b = true; m.on_paste_styles(&[vec![s.clone()], vec![s]]) })),
        ("set_cell_link with a label into a member of a CSE array", Box::new(|m| m.set_user_array_formula(0, 10, 5, 1, 2, "={1;2}")),
            Box::new(|m| m.set_cell_link(0, 11, 5, crate::types::Link::External { target: "https://example.com".to_string(), tooltip: None }, Some("label")))),
    ];
    for (name, setup, op) in ops2.iter() {
        let mut m = new_um();
        m.set_user_input(0, 1, 1, "1").unwrap();
        if setup(&mut m).is_err() { continue; }
        let before = snapshot(&m);
        if op(&mut m).is_ok() { continue; }
        let after = snapshot(&m);
        if before.0 != after.0 { fails.push(format!("{name}: returned Err but the workbook bytes changed")); }
        if before.1 != after.1 || before.2 != after.2 { fails.push(format!("{name}: returned Err but can_undo/can_redo changed")); }
    }
    fails
}

pub fn drive_history() -> Vec<String> {
    // cursor semantics + replica convergence on a small deterministic history with every flush schedule of 3 cut points
    let mut fails = vec![];
    let script: Vec<Box<dyn Fn(&mut UserModel) -> Result<(), String>>> = vec![
        Box::new(|m| m.set_user_input(0, 1, 1, "10")),
        Box::new(|m| m.set_user_input(0, 2, 1, "=A1*2")),
        Box::new(|m| m.insert_rows(0, 1, 2)),
        Box::new(|m| m.undo()),
        Box::new(|m| m.set_columns_width(0, 2, 3, 150.0)),
        Box::new(|m| m.undo()),
        Box::new(|m| m.redo()),
        Box::new(|m| m.set_frozen_rows_count(0, 2)),
        Box::new(|m| m.new_sheet()),
        Box::new(|m| m.rename_sheet(1, "Data")),
        Box::new(|m| m.undo()),
        Box::new(|m| m.undo()),
        Box::new(|m| m.redo()),
        Box::new(|m| m.move_rows_action(0, 3, 1, 2)),
        Box::new(|m| m.set_rows_hidden(0, 5, 5, true)),
        Box::new(|m| m.undo()),
    ];
    for mask in 0..8u32 {
        let mut a = new_um();
        let base = a.to_bytes();
        let mut b = UserModel::from_bytes(&base, "en").unwrap();
        for (i, step) in script.iter().enumerate() {
            if let Err(e) = step(&mut a) { fails.push(format!("script step {i}: {e}")); }
            let cut = (i == 3 && mask & 1 != 0) || (i == 7 && mask & 2 != 0) || (i == 11 && mask & 4 != 0);
            if cut { let q = a.flush_send_queue(); if let Err(e) = b.apply_external_diffs(&q) { fails.push(format!("replica: {e}")); } }
        }
        let q = a.flush_send_queue();
        if let Err(e) = b.apply_external_diffs(&q) { fails.push(format!("replica: {e}")); }
        for s in 0..2u32 {
            for r in 1..=8 { for c in 1..=3 {
                let (x, y) = (a.get_formatted_cell_value(s, r, c), b.get_formatted_cell_value(s, r, c));
                if x != y { fails.push(format!("flush schedule {mask}: sheet {s} cell ({r},{c}) {x:?} vs replica {y:?}")); }
                let (x, y) = (a.get_cell_content(s, r, c), b.get_cell_content(s, r, c));
                if x != y { fails.push(format!("flush schedule {mask}: sheet {s} content ({r},{c}) {x:?} vs replica {y:?}")); }
            } }
        }
        if a.get_worksheets_properties().len() != b.get_worksheets_properties().len() { fails.push(format!("flush schedule {mask}: sheet count differs")); }
    }
    fails
}

// ------------------------------------------------------------------------------------------------ selection (C28)
pub fn drive_select() -> Vec<String> {
    let mut fails = vec![];
    for n in 2..=4u32 { for sel in 0..n { for del in 0..n {
        let mut m = new_um();
        for _ in 1..n { m.new_sheet().unwrap(); }
        m.set_selected_sheet(sel).unwrap();
        if m.delete_sheet(del).is_err() { continue; }
        let s = m.get_selected_sheet();
        if s >= n - 1 { fails.push(format!("{n} sheets, selected {sel}, delete_sheet({del}) -> selected {s} of {}", n - 1)); }
        m.undo().unwrap();
        if m.get_selected_sheet() >= n { fails.push(format!("{n} sheets, selected {sel}, delete {del}, undo -> selected {}", m.get_selected_sheet())); }
        m.set_selected_sheet(n - 1).unwrap();
        m.redo().unwrap();
        if m.get_selected_sheet() >= n - 1 { fails.push(format!("{n} sheets: delete {del}, undo, select last, redo -> selected {} of {}", m.get_selected_sheet(), n - 1)); }
    } } }
    for n in 2..=4u32 { for sel in 0..n { for from in 0..n { for to in 0..n {
        let mut m = new_um();
        for _ in 1..n { m.new_sheet().unwrap(); }
        m.set_selected_sheet(sel).unwrap();
        let name = m.get_worksheets_properties()[sel as usize].name.clone();
        m.move_sheet(from, to).unwrap();
        let s = m.get_selected_sheet();
        if s >= n || m.get_worksheets_properties()[s as usize].name != name { fails.push(format!("{n} sheets, selected {sel}, move_sheet({from},{to}) -> selected {s}")); }
    } } } }
    fails
}


// ------------------------------------------------------------------------------------------------ selection invariant (C28, unit uisel)
fn sel_problem(m: &UserModel) -> Option<String> {
    let v = m.get_selected_view();
    let n = m.get_worksheets_properties().len() as u32;
    if v.sheet >= n { return Some(format!("selected sheet {} of {n}", v.sheet)); }
    let ok = |r: i32, c: i32| (1..=LAST_ROW).contains(&r) && (1..=LAST_COLUMN).contains(&c);
    if !ok(v.row, v.column) || !ok(v.range[0], v.range[1]) || !ok(v.range[2], v.range[3]) { return Some(format!("off grid: cell ({},{}) range {:?}", v.row, v.column, v.range)); }
    let (r0, r1) = (v.range[0].min(v.range[2]), v.range[0].max(v.range[2]));
    let (c0, c1) = (v.range[1].min(v.range[3]), v.range[1].max(v.range[3]));
    if v.row < r0 || v.row > r1 || v.column < c0 || v.column > c1 { return Some(format!("cell ({},{}) outside range {:?}", v.row, v.column, v.range)); }
    None
}
pub fn drive_selinv() -> Vec<String> {
    let mut fails = vec![];
    let style = new_um().get_cell_style(0, 1, 1).unwrap();
    let steps: Vec<(&str, Box<dyn Fn(&mut UserModel)>)> = vec![
        ("set_selected_cell(10,9)", Box::new(|m| { let _ = m.set_selected_cell(10, 9); })),
        ("set_selected_range(5,4,10,9)", Box::new(|m| { let _ = m.set_selected_range(5, 4, 10, 9); })),
        ("on_area_selecting(7,7)", Box::new(|m| { let _ = m.on_area_selecting(7, 7); })),
        ("on_area_selecting(-3,0)", Box::new(|m| { let _ = m.on_area_selecting(-3, 0); })),
        ("set_selected_cell(LAST_ROW,1)", Box::new(|m| { let _ = m.set_selected_cell(LAST_ROW, 1); })),
        ("on_page_down", Box::new(|m| { let _ = m.on_page_down(); })),
        ("set_top_left_visible_cell(100,1)", Box::new(|m| { let _ = m.set_top_left_visible_cell(100, 1); })),
        ("set_selected_cell(1,1)", Box::new(|m| { let _ = m.set_selected_cell(1, 1); })),
        ("on_page_up", Box::new(|m| { let _ = m.on_page_up(); })),
        ("set_selected_range(9,9,1,1)", Box::new(|m| { let _ = m.set_selected_range(9, 9, 1, 1); })),
        ("on_paste_styles(1x1)", Box::new(move |m| { let _ = m.on_paste_styles(&[vec![style.clone()]]); })),
        ("set_columns_hidden(0,1,2,true)", Box::new(|m| { let _ = m.set_columns_hidden(0, 1, 2, true); })),
        ("on_arrow_left", Box::new(|m| { let _ = m.on_arrow_left(); })),
        ("set_columns_hidden(0,LAST,LAST,true)", Box::new(|m| { let _ = m.set_columns_hidden(0, LAST_COLUMN, LAST_COLUMN, true); })),
        ("set_rows_hidden(0,LAST,LAST,true)", Box::new(|m| { let _ = m.set_rows_hidden(0, LAST_ROW, LAST_ROW, true); })),
        ("new_sheet", Box::new(|m| { let _ = m.new_sheet(); })),
        ("duplicate_sheet(0)", Box::new(|m| { let _ = m.duplicate_sheet(0); })),
        ("select last sheet", Box::new(|m| { let n = m.get_worksheets_properties().len() as u32; let _ = m.set_selected_sheet(n - 1); })),
        ("undo", Box::new(|m| { let _ = m.undo(); })),
        ("redo", Box::new(|m| { let _ = m.redo(); })),
        ("hide_sheet(selected)", Box::new(|m| { let s = m.get_selected_sheet(); let _ = m.hide_sheet(s); })),
        ("delete_sheet(0)", Box::new(|m| { let _ = m.delete_sheet(0); })),
        ("undo", Box::new(|m| { let _ = m.undo(); })),
        ("select last sheet", Box::new(|m| { let n = m.get_worksheets_properties().len() as u32; let _ = m.set_selected_sheet(n - 1); })),
        ("redo", Box::new(|m| { let _ = m.redo(); })),
        ("move_sheet(0,1)", Box::new(|m| { let _ = m.move_sheet(0, 1); })),
        ("undo", Box::new(|m| { let _ = m.undo(); })),
    ];
    let mut m = new_um();
    m.set_window_width(800.0);
    m.set_window_height(600.0);
    let mut trail = String::new();
    for (name, step) in steps.iter() {
        step(&mut m);
        trail.push_str(name);
        trail.push_str("; ");
        if let Some(p) = sel_problem(&m) { fails.push(format!("after [{trail}]: {p}")); break; }
    }
    fails
}

// ------------------------------------------------------------------------------------------------ built-ins called with any number of arguments (C11, unit argidx)
pub fn drive_builtins() -> Vec<String> {
    use crate::functions::Function;
    let mut fails = vec![];
    let lang = crate::language::get_language("en").unwrap();
    let prev = std::panic::take_hook();
    std::panic::set_hook(Box::new(|_| {}));
    for f in Function::into_iter() {
        let name = f.to_localized_name(lang);
        for n in 0..=6usize {
            for v in ["1", "\"a\"", "A1:B2"] {
                let formula = format!("={}({})", name, vec![v; n].join(","));
                let fm = formula.clone();
                let r = std::panic::catch_unwind(move || {
                    let mut m = UserModel::new_empty("m", "en", "UTC", "en").unwrap();
                    let _ = m.set_user_input(0, 5, 5, &fm);
                    let _ = m.get_formatted_cell_value(0, 5, 5);
                });
                if r.is_err() { fails.push(format!("{formula} panics")); }
            }
        }
    }
    // date arithmetic with user-supplied offsets (unit dates)
    for formula in ["=DATE(2000,1E10,1)", "=DATE(2000,-1E10,1)", "=DATE(2000,1,1E10)", "=DATE(2000,1,-1E10)", "=EDATE(1,1E10)", "=EDATE(1,-1E10)", "=EOMONTH(1,1E10)"] {
        let fm = formula.to_string();
        let r = std::panic::catch_unwind(move || {
            let mut m = UserModel::new_empty("m", "en", "UTC", "en").unwrap();
            let _ = m.set_user_input(0, 5, 5, &fm);
            let _ = m.get_formatted_cell_value(0, 5, 5);
        });
        if r.is_err() { fails.push(format!("{formula} panics")); }
    }
    std::panic::set_hook(prev);
    fails
}

// ------------------------------------------------------------------------------------------------ styles read back (C30, unit styles)
pub fn drive_styles() -> Vec<String> {
    let mut fails = vec![];
    let mut m = new_model();
    let base = m.get_style_for_cell(0, 1, 1).unwrap();
    let mut variants = vec![];
    for (i, fmt) in ["general", "0.00", "#,##0.000", "0.00\" KG\"", "0.00\" kg\"", "yyyy-mm-dd"].iter().enumerate() {
        for bold in [false, true] { for quote in [false, true] {
            let mut s = base.clone();
            s.num_fmt = fmt.to_string();
            s.font.b = bold;
            s.quote_prefix = quote;
            s.font.sz = 10 + i as i32;
            variants.push(s);
        } }
    }
    for (k, s) in variants.iter().enumerate() {
        if let Err(e) = m.set_cell_style(0, 1 + k as i32, 2, s) { fails.push(format!("set_cell_style #{k}: {e}")); }
    }
    for (k, s) in variants.iter().enumerate() {
        match m.get_style_for_cell(0, 1 + k as i32, 2) {
            Ok(back) => if &back != s { fails.push(format!("style #{k} (num_fmt {:?}, bold {}, quote {}) reads back differently", s.num_fmt, s.font.b, s.quote_prefix)); },
            Err(e) => fails.push(format!("get_style_for_cell #{k}: {e}")),
        }
    }
    fails
}

// ------------------------------------------------------------------------------------------------ F4 cycling (C34, unit f4)
pub fn drive_f4() -> Vec<String> {
    let mut fails = vec![];
    let norm = |s: &str| s.chars().filter(|c| *c != '$').collect::<String>().to_uppercase();
    let m = new_model();
    for f in ["=A1", "=SUM(A1, Sheet2!AB10)", "=a1+ Data!AA1:AB2", "=SUM(5:7)", "=SUM($D:E)", "='My Sheet'!$A$1*2", "=SUM(A1,      S!B2)", "= A1", "=x!$A1:b$2"] {
        let n = f.chars().count();
        for cursor in 0..=n {
            let mut text = f.to_string();
            let mut ok = true;
            for _ in 0..4 {
                match m.cycle_reference(&text, cursor.min(text.chars().count()), cursor.min(text.chars().count())) {
                    Ok((t, _, _)) => { if norm(&t) != norm(f) { fails.push(format!("cycle_reference({f:?}, cursor {cursor}) changed more than $ and case: {t:?}")); ok = false; break; } text = t; }
                    Err(e) => { fails.push(format!("cycle_reference({f:?}, cursor {cursor}): {e}")); ok = false; break; }
                }
            }
            if ok && text.to_uppercase() != { let mut t0 = f.to_string(); for _ in 0..4 { t0 = m.cycle_reference(&t0, cursor.min(t0.chars().count()), cursor.min(t0.chars().count())).map(|x| x.0).unwrap_or(t0.clone()); } t0.to_uppercase() } { }
        }
    }
    fails
}

pub fn run(driver: &str) -> Vec<String> {
    match driver {
        "cols" => drive_cols(),
        "rows" => drive_rows(),
        "colcodec" => drive_colcodec(),
        "dates" => drive_dates(),
        "errnames" => drive_errnames(),
        "fnnames" => drive_fnnames(),
        "parens" => drive_parens(),
        "entry" => drive_entry(),
        "undoall" => drive_undoall(),
        "refshift" => drive_refshift(),
        "finite" => drive_finite(),
        "atomic" => drive_atomic(),
        "history" => drive_history(),
        "select" => drive_select(),
        "selinv" => drive_selinv(),
        "builtins" => drive_builtins(),
        "styles" => drive_styles(),
        "f4" => drive_f4(),
        _ => vec![format!("unknown driver {driver}")],
    }
}

#[cfg(test)]
mod t {
    #[test]
    fn replay() {
        let drivers = std::env::var("VERIF_DRIVERS").unwrap_or_default();
        for d in drivers.split(',').filter(|s| !s.is_empty()) {
            let fails = super::run(d);
            println!("REPLAY-DRIVER {d} failing_inputs={}", fails.len());
            for f in fails.iter().take(60) {
                println!("REPLAY-FAIL {d} :: {f}");
            }
        }
    }
}
