// Injected by /verif/vf/replay_drivers.py into a SCRATCH copy of the repository as xlsx/tests/verif_replay_xlsx.rs (never into /repo).
// Bounded, concrete cross-checks for C24 / C25 on the real crates; reports failing inputs, never counted as proof.
use ironcalc::export::save_xlsx_to_writer;
use ironcalc::import::{load_from_xlsx, load_from_xlsx_bytes};
use ironcalc_base::{Model, UserModel};
use std::io::Cursor;

// C25: unusual / malformed workbooks (built by tools/import_probe/make_files.py) must load or be rejected with an error, never panic
fn drive_importcrash() -> Vec<String> {
    let dir = std::env::var("VERIF_PROBE_DIR").unwrap_or_default();
    let mut fails = vec![];
    let mut names: Vec<String> = std::fs::read_dir(&dir).map(|d| d.filter_map(|e| e.ok()).map(|e| e.path().display().to_string()).filter(|p| p.ends_with(".xlsx")).collect()).unwrap_or_default();
    names.sort();
    if names.len() < 8 { fails.push(format!("probe files missing in {dir}")); }
    for f in names {
        let f2 = f.clone();
        let r = std::panic::catch_unwind(move || load_from_xlsx(&f2, "en", "UTC", "en").map(|_| ()));
        if r.is_err() { fails.push(format!("{} makes the import panic", f.rsplit('/').next().unwrap_or(&f))); }
    }
    fails
}

fn roundtrip(m: &Model, loc: &'static str, lang: &'static str) -> Result<Model<'static>, String> {
    let c = save_xlsx_to_writer(m, Cursor::new(Vec::new())).map_err(|e| format!("export: {e}"))?;
    let bytes = c.into_inner();
    let wb = load_from_xlsx_bytes(&bytes, "m", loc, "UTC").map_err(|e| format!("import: {e}"))?;
    Model::from_workbook(wb, lang).map_err(|e| format!("model: {e}"))
}

// C24: export then import keeps contents, values, types, names, sheet properties, sizes and hidden flags of a workbook with awkward texts
fn drive_roundtrip() -> Vec<String> {
    let mut all = vec![];
    for (loc, lang) in [("en", "en"), ("de", "es")] {
        for f in drive_roundtrip_in(loc, lang) { all.push(format!("[{loc}/{lang}] {f}")); }
    }
    all
}
fn drive_roundtrip_in(loc: &'static str, lang: &'static str) -> Vec<String> {
    let mut fails = vec![];
    let texts = ["a&b", "<tag>", "\"q\"", "it's", " lead", "trail ", "two  spaces", "line\nbreak", "tab\there", "_x0041_", "_x000A_", "\u{1}ctl", "é€😀", "1", "TRUE", "#N/A", "=notformula", "",
                 "  ", "a\r\nb", "x_x", "_x", "\u{7f}", "\u{ffff}", "\u{fffe}x", "]]>", "&amp;"];
    let Ok(mut um) = UserModel::new_empty("m", "en", "UTC", "en") else { return vec!["no model".to_string()]; };
    let _ = um.new_sheet(); let _ = um.rename_sheet(1, "A&B <x> 'q'"); let _ = um.new_sheet(); let _ = um.rename_sheet(2, "_x0041_");
    for (i, t) in texts.iter().enumerate() {
        let _ = um.set_user_input(0, i as i32 + 1, 1, &format!("'{t}"));
        let _ = um.set_user_input(0, i as i32 + 1, 2, &format!("=\"{}\"&\"\"", t.replace('"', "\"\"")));
    }
    let formulas = ["=1+1", "=SUM(A1:A3)", "=IF(1<2,\"a&b\",\"<\")", "=1<>2", "=A1&\"<x>\"", "=SUM({1,2;3,4})", "=-(1+2)%", "=(1&2)+10", "=TRUE=(2=2)", "=#N/A", "=LAMBDA(x,[y],x)(1)", "=LET(a,1,a+1)",
                    "='A&B <x> ''q'''!A1+1", "=_x0041_!A1", "=1/0"];
    for (i, f) in formulas.iter().enumerate() { let _ = um.set_user_input(0, i as i32 + 1, 4, f); }
    let _ = um.set_user_input(1, 1, 1, "5");
    let _ = um.new_defined_name("my_name", None, "Sheet1!$A$10");
    let _ = um.new_defined_name("local_n", Some(1), "'A&B <x> ''q'''!$A$1");
    let _ = um.set_user_input(1, 2, 1, "=local_n+my_name");
    let _ = um.set_columns_width(0, 6, 7, 33.0); let _ = um.set_rows_height(0, 40, 41, 44.0); let _ = um.set_rows_hidden(0, 42, 43, true); let _ = um.set_columns_hidden(0, 9, 9, true);
    let _ = um.set_frozen_rows_count(0, 2); let _ = um.set_frozen_columns_count(0, 1);
    let _ = um.set_sheet_color(1, &ironcalc_base::types::Color::Rgb("#00FF00".to_string())); let _ = um.hide_sheet(2); let _ = um.set_show_grid_lines(1, false);
    if loc != "en" { let _ = um.set_locale(loc); let _ = um.set_language(lang); }
    let m = um.get_model();
    let m2 = match roundtrip(m, loc, lang) { Ok(x) => x, Err(e) => return vec![format!("round trip failed: {e}")] };
    let (p1, p2) = (m.get_worksheets_properties(), m2.get_worksheets_properties());
    if format!("{p1:?}") != format!("{p2:?}") { fails.push(format!("sheet properties {p1:?} -> {p2:?}")); }
    if format!("{:?}", m.get_defined_name_list()) != format!("{:?}", m2.get_defined_name_list()) { fails.push("defined names differ".to_string()); }
    for s in 0..p1.len().min(p2.len()) as u32 {
        for r in 1..=45 { for c in 1..=9 {
            let a = (m.get_localized_cell_content(s, r, c).unwrap_or_default(), m.get_formatted_cell_value(s, r, c).unwrap_or_default(), format!("{:?}", m.get_cell_type(s, r, c)));
            let b = (m2.get_localized_cell_content(s, r, c).unwrap_or_default(), m2.get_formatted_cell_value(s, r, c).unwrap_or_default(), format!("{:?}", m2.get_cell_type(s, r, c)));
            if a != b { fails.push(format!("sheet {s} r{r}c{c}: {a:?} -> {b:?}")); }
        } }
        for c in 1..=9 {
            if (m.get_column_width(s, c).unwrap_or(0.0) - m2.get_column_width(s, c).unwrap_or(0.0)).abs() > 1e-9 { fails.push(format!("sheet {s} column {c} width")); }
            if m.workbook.worksheet(s).and_then(|w| w.is_column_hidden(c)).ok() != m2.workbook.worksheet(s).and_then(|w| w.is_column_hidden(c)).ok() { fails.push(format!("sheet {s} column {c} hidden")); }
        }
        for r in 1..=45 {
            if (m.get_row_height(s, r).unwrap_or(0.0) - m2.get_row_height(s, r).unwrap_or(0.0)).abs() > 1e-9 { fails.push(format!("sheet {s} row {r} height")); }
            if m.workbook.worksheet(s).and_then(|w| w.is_row_hidden(r)).ok() != m2.workbook.worksheet(s).and_then(|w| w.is_row_hidden(r)).ok() { fails.push(format!("sheet {s} row {r} hidden")); }
        }
        if m.get_frozen_rows_count(s).ok() != m2.get_frozen_rows_count(s).ok() || m.get_frozen_columns_count(s).ok() != m2.get_frozen_columns_count(s).ok() { fails.push(format!("sheet {s} frozen panes")); }
        if m.workbook.worksheet(s).map(|w| w.show_grid_lines).ok() != m2.workbook.worksheet(s).map(|w| w.show_grid_lines).ok() { fails.push(format!("sheet {s} grid lines")); }
    }
    fails
}

#[test]
fn replay() {
    let drivers = std::env::var("VERIF_DRIVERS").unwrap_or_default();
    for d in drivers.split(',').filter(|s| !s.is_empty()) {
        let fails = match d { "x:importcrash" => drive_importcrash(), "x:roundtrip" => drive_roundtrip(), _ => vec![format!("unknown driver {d}")] };
        println!("REPLAY-DRIVER {d} failing_inputs={}", fails.len());
        for f in fails.iter().take(60) { println!("REPLAY-FAIL {d} :: {f}"); }
    }
}
