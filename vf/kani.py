"""Kani harnesses on a scratch copy of the real crate (filled in later)."""


def run_harnesses(pid, harnesses, tier):
    return []
