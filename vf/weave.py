"""Template processor: builds one Verus file per unit from /repo's *current* working tree.

A unit template (units/<unit>.rs) is Verus source with `//@` directives.  Executable text of the
repository's functions is never written in a template: it is extracted on every run.

Top-level directives
  //@include <file under units/>
  //@stub <repo file> <[ImplHdr::]name>            external_body declaration generated from the REAL signature (R2);
                                                   lines up to //@end are its ASSUMED contract
  //@type <repo file> <Name>                       struct/enum/const/type; attributes+comments dropped (D1)
  //@fn <repo file> <[ImplHdr::]name>              whole function, verbatim
  //@fragment <repo file> <[ImplHdr::]name> `from` .. `to`     statement range (D2: rest of fn dropped); `..<` excludes `to`
  //@arm <repo file> <[ImplHdr::]name> `pattern start`         body of one match arm / closure (D3)
  ... sub-directives ...
  //@end

Sub-directives (inside fn/fragment/arm)
  //@attr                      following lines go before the item (ghost attributes only)
  //@spec                      following lines go between the signature and the body `{`
  //@loop <n> [ghostname]      following lines go between the n-th loop header and its `{`
  //@before[#k] `anchor`       following lines go before the k-th (default: only) occurrence
  //@after[#k] `anchor`        ... after it   (a trailing `?` as in //@before#4? makes the hint optional)
  //@afterstmt[#k] `anchor`    ... after the end (`;`) of the statement containing it
  //@rewrite[xN] `from` => `to`   exact textual rewrite, must match exactly N (default 1) times
"""
import hashlib
import os
import re

from . import rustlex as R
from .rustlex import ExtractError

REPO = os.environ.get("VERIF_REPO", "/repo")
UNITS = os.path.join(os.path.dirname(os.path.dirname(os.path.abspath(__file__))), "units")

_cache = {}


def repo_file(rel):
    if rel not in _cache:
        p = os.path.join(REPO, rel)
        if not os.path.exists(p):
            raise ExtractError(f"source file {rel} not found")
        src = open(p, encoding="utf-8").read()
        _cache[rel] = (src, R.mask(src))
    return _cache[rel]


def _ticks(s):
    """split a directive tail into backtick-quoted pieces"""
    return re.findall(r"`((?:[^`])*)`", s)


class Seg:
    __slots__ = ("text", "kind", "info")

    def __init__(self, text, kind, info=None):
        self.text, self.kind, self.info = text, kind, info or {}


def _find_occ(text, anchor, k, what):
    idxs = [m.start() for m in re.finditer(re.escape(anchor), text)]
    if k is None:
        if len(idxs) != 1:
            raise ExtractError(f"{what}: anchor `{anchor}` found {len(idxs)} times, expected 1")
        return idxs[0]
    if len(idxs) < k:
        raise ExtractError(f"{what}: anchor `{anchor}` occurrence #{k} not found ({len(idxs)} present)")
    return idxs[k - 1]


def _process_item(kind, head, sub, meta, occ=None):
    """kind in fn/fragment/arm; head = directive tail; sub = list of (directive, tail, lines)."""
    rel, _, rest = head.partition(" ")
    path = rest.split("`")[0].strip()   # the item path may contain spaces (`fmt::Display for Error::fmt`)
    src, m = repo_file(rel)
    f = R.find_fn(src, m, path)
    what = f"{rel}::{path}"
    if kind == "fn":
        a, b = f["start"], f["end"]
        text = src[a:b]
        body_open_rel = f["body_open"] - a
    elif kind == "fragment":
        t = _ticks(head)
        if len(t) != 2:
            raise ExtractError(f"{what}: fragment needs two anchors")
        body = src[f["body_open"]:f["end"]]
        i0 = _find_occ(body, t[0], occ, what)
        i1 = body.find(t[1], i0)
        if i1 < 0 or body.count(t[1], i0) < 1:
            raise ExtractError(f"{what}: fragment end anchor `{t[1]}` not found")
        a = f["body_open"] + i0
        b = f["body_open"] + i1 + len(t[1])
        exclusive = "..<" in head
        if exclusive:
            b = f["body_open"] + i1       # `from` ..< `to`: everything up to, not including, the end anchor
        # the end anchor may be a minimal prefix of the last statement: extend to the end of that statement (`;` at
        # depth 0), and close any block the fragment opened (so an edit that wraps the statement in an `if` is still extracted whole)
        if not exclusive and not src[a:b].rstrip().endswith((";", "}")):
            # scan forward to the `;` that ends the last statement.  Closers met at depth 0 close something opened inside the fragment:
            # `)` / `]` always belong to the expression; a `}` does when an expression continues after it (`})`, `},`, `};`, `}.`, `}?`),
            # otherwise it ends a block and the fragment's last statement is a tail expression: stop before it
            d = 0
            k = b
            while k < f["end"]:
                c = m[k]
                if c in "([{":
                    d += 1
                elif c in ")]}":
                    if d == 0:
                        if c == "}":
                            j2 = k + 1
                            while j2 < f["end"] and m[j2] in " \t\n":
                                j2 += 1
                            if j2 >= f["end"] or m[j2] not in "),;.?":
                                break
                    else:
                        d -= 1
                elif c == ";" and d == 0:
                    k += 1
                    break
                k += 1
            b = k
        depth = 0
        for c in m[a:b]:
            if c == "{":
                depth += 1
            elif c == "}":
                depth -= 1
        k = b
        closers = ""
        if exclusive and depth > 0:
            # `..<` inside a nested block: the statements from the end anchor on are DROPPED (D2) and the blocks the
            # fragment opened are closed synthetically
            closers = "\n" + "}" * depth
            depth = 0
        while depth > 0 and k < f["end"] - 1:
            c = m[k]
            if c == "{":
                depth += 1
            elif c == "}":
                depth -= 1
            k += 1
        if depth == 0:
            b = k
        text = src[a:b] + closers
        body_open_rel = None
    elif kind == "arm":
        t = _ticks(head)
        body = src[f["body_open"]:f["end"]]
        bm = m[f["body_open"]:f["end"]]
        i0 = _find_occ(body, t[0], occ, what)
        arrow = bm.find("=>", i0) if "|" not in t[0][:1] else -1
        if t[0].lstrip().startswith("|") or t[0].lstrip().startswith("move"):
            # closure: body starts at first `{` after the parameter list
            ob = bm.find("{", i0 + len(t[0]))
        else:
            if arrow < 0:
                raise ExtractError(f"{what}: no `=>` after arm pattern")
            k = arrow + 2
            while bm[k] in " \t\n":
                k += 1
            ob = k
        if bm[ob] == "{":
            cb = R.match_bracket(bm, ob)
        else:
            # expression arm: up to the `,` at depth 0 (exclusive)
            d = 0
            cb = ob
            while True:
                c = bm[cb]
                if c in "([{":
                    d += 1
                elif c in ")]}":
                    if d == 0:
                        break
                    d -= 1
                elif c == "," and d == 0:
                    break
                cb += 1
            cb -= 1
        a = f["body_open"] + ob
        b = f["body_open"] + cb + 1
        text = src[a:b]
        body_open_rel = None
    else:
        raise ExtractError(kind)
    line0 = src.count("\n", 0, a) + 1
    sha = hashlib.sha256(text.encode()).hexdigest()
    rec = dict(kind=kind, file=rel, item=path, byte_range=[a, b], line=line0, sha256=sha, rewrites=[], drops=[])
    if kind == "fragment":
        rec["drops"].append("D2: everything in the function outside the anchored statement range")
    if kind == "arm":
        rec["drops"].append("D3: surrounding function, loop and other arms")
    if kind == "fn":
        # D4: visibility qualifiers have no run-time meaning in a single-file build
        text2 = re.sub(r"^pub\s*\((crate|super)\)", "pub", text)
        if text2 != text:
            rec["drops"].append("D4: pub(crate)/pub(super) -> pub")
            text = text2
    # 0. R5 (generic, always on): an irrefutable array pattern `let [a, b, _, _] = E;` (Verus: "slice patterns" unsupported) is read as
    # `let __sp = E; let a = __sp[0]; let b = __sp[1];` — same values, same evaluation of E (once).  Only identifiers and `_` as elements.
    def _r5(mm):
        els = [e.strip() for e in mm.group(1).split(",")]
        if not all(re.fullmatch(r"_|[A-Za-z_]\w*", e) for e in els):
            return mm.group(0)
        rec["rewrites"].append(f"R5 slice pattern: `{' '.join(mm.group(0).split())}` read as indexed lets")
        outp = f"let __sp{mm.start()} = {mm.group(2)};"
        for k, e in enumerate(els):
            if e != "_":
                outp += f" let {e} = __sp{mm.start()}[{k}];"
        return outp
    text = re.sub(r"let\s*\[([^\]\[;=]+)\]\s*=\s*([^;{}]+);", _r5, text)
    # 1. rewrites on the raw text
    for (d, tail, lines) in sub:
        mm = re.match(r"rewrite(?:x(\d+)|(\*))?$", d)
        if mm:
            t = _ticks(tail)
            if len(t) != 2:
                raise ExtractError(f"{what}: bad rewrite directive")
            want = int(mm.group(1) or 1)
            got = text.count(t[0])
            if mm.group(2):
                # `rewrite*`: std-constant shim, applied wherever (if anywhere) the token occurs
                if got:
                    text = text.replace(t[0], t[1])
                    rec["rewrites"].append(f"`{t[0]}` => `{t[1]}` x{got} (shim)")
                continue
            if got != want:
                raise ExtractError(f"{what}: rewrite pattern `{t[0]}` found {got} times, expected {want}")
            text = text.replace(t[0], t[1])
            rec["rewrites"].append(f"`{t[0]}` => `{t[1]}` x{want}")
    # 1z. `//@dropstmt `anchor``: the statement containing the anchor (back to the previous `;`/`{`/`}` at the same depth, forward to its
    # `;`) is DROPPED (D2, listed) — for statements Verus cannot translate (closures passed to std adapters) that do not touch the
    # state the contract is about.  The anchor must occur exactly once.
    for (d, tail, lines) in sub:
        if d != "dropstmt":
            continue
        t = _ticks(tail)
        tm0 = R.mask(text)
        pos = _find_occ(tm0, t[0], None, what)
        k, dep = pos, 0
        while k > 0:
            c = tm0[k - 1]
            if c in ")]}":
                if dep == 0 and c == "}":
                    break
                dep += 1
            elif c in "([{":
                if dep == 0:
                    break
                dep -= 1
            elif c == ";" and dep == 0:
                break
            k -= 1
        e, dep = pos, 0
        while e < len(tm0):
            c = tm0[e]
            if c in "([{":
                dep += 1
            elif c in ")]}":
                dep -= 1
            elif c == ";" and dep == 0:
                e += 1
                break
            e += 1
        rec["drops"].append("D2 dropstmt: `" + " ".join(text[k:e].split())[:160] + "`")
        text = text[:k] + text[e:]
    # 1y. `//@loopbody <n> `replacement``: the BODY of the n-th loop is replaced by the given statement(s) — a stated abstraction (D6): what is
    # verified is the loop's traversal (which elements, in which order, how often), not what is done with each element.
    for (d, tail, lines) in sub:
        if d != "loopbody":
            continue
        nth = int(tail.split()[0])
        t = _ticks(tail)
        tm0 = R.mask(text)
        lo0 = R.next_open_brace(tm0, tm0.find("fn ")) if kind == "fn" else 0
        ls0 = R.loops(tm0, lo0, len(tm0))
        if len(ls0) < nth or len(t) != 1:
            raise ExtractError(f"{what}: loopbody: loop #{nth} not found / bad directive")
        ob = ls0[nth - 1]["body_open"]
        cb = R.match_bracket(tm0, ob)
        rec["drops"].append(f"D6 loopbody: the body of loop #{nth} ({text.count(chr(10), ob, cb)} lines) replaced by `{t[0]}`")
        text = text[:ob + 1] + "\n" + t[0] + "\n" + text[cb:]
    # 1a. `//@forwhile <n>` (R4, generic): the n-th loop, which must be `for X in A..B {` or `for X in A..=B {` over integers, is read as
    # `let mut __X = A; while __X < B { let X = __X; __X += 1;` (`<=` for the inclusive form).  Purely syntactic; whatever the bounds
    # are in the current tree is what gets verified (so an edited bound is decided, not a lost pattern).  Several loops: highest n first.
    fw = sorted([int(tail.split()[0]) for (d, tail, lines) in sub if d == "forwhile"], reverse=True)
    for nth in fw:
        tm0 = R.mask(text)
        lo0 = R.next_open_brace(tm0, tm0.find("fn ")) if kind == "fn" else 0
        ls0 = R.loops(tm0, lo0, len(tm0))
        if len(ls0) < nth:
            raise ExtractError(f"{what}: forwhile: loop #{nth} not found ({len(ls0)} loops)")
        lp0 = ls0[nth - 1]
        hdr = text[lp0["pos"]:lp0["body_open"]]
        me = re.match(r"for\s+\(\s*(\w+)\s*,\s*(\w+)\s*\)\s+in\s+(.*?)\.iter\(\)\.enumerate\(\)\s*$", hdr, re.S)
        if lp0["kw"] == "for" and me:
            # `for (i, x) in V.iter().enumerate() {` => index loop over V (Verus has no Enumerate); `continue` stays valid: the increment is at the top
            iv, xv, vec = me.group(1), me.group(2), me.group(3).strip()
            new_hdr = f"let mut __{iv}: usize = 0; while __{iv} < {vec}.len() "
            text = text[:lp0["pos"]] + new_hdr + "{" + f" let {iv} = __{iv}; let {xv} = &{vec}[__{iv}]; __{iv} += 1;" + text[lp0["body_open"] + 1:]
            rec["rewrites"].append(f"R4 forwhile loop #{nth}: `{hdr.strip()}` => `{new_hdr.strip()} {{ let {iv} = __{iv}; let {xv} = &{vec}[__{iv}]; __{iv} += 1;`")
            continue
        mh = re.match(r"for\s+(\w+)\s+in\s+(.*?)\.\.(=?)(.*?)\s*$", hdr, re.S)
        if lp0["kw"] != "for" or not mh or not mh.group(2).strip() or not mh.group(4).strip():
            raise ExtractError(f"{what}: forwhile: loop #{nth} is not `for x in a..b` / `for (i, x) in v.iter().enumerate()`")
        var, a0, incl, b0 = mh.group(1), mh.group(2).strip(), mh.group(3), mh.group(4).strip()
        op = "<=" if incl else "<"
        new_hdr = f"let mut __{var} = {a0}; while __{var} {op} {b0} "
        text = text[:lp0["pos"]] + new_hdr + "{" + f" let {var} = __{var}; __{var} += 1;" + text[lp0["body_open"] + 1:]
        rec["rewrites"].append(f"R4 forwhile loop #{nth}: `{hdr.strip()}` => `{new_hdr.strip()} {{ let {var} = __{var}; __{var} += 1;`")
    # 1b. `//@strslice NAME string|str`: every byte-range slice `NAME[a..b]` / `&NAME[a..]` / `NAME[..b]` of that text variable is
    # read as a call of the slicing shim (units/std_text.rs), whose precondition is that the offsets are char boundaries.  Applied to
    # whatever slices the current text has (zero or more), so that a NEW slice on the variable is decided, not a compile error.
    for (d, tail, lines) in sub:
        if d != "strslice":
            continue
        p2 = tail.split()
        name, ty = p2[0], (p2[1] if len(p2) > 1 else "str")
        arg = name if ty == "str" else name + ".as_str()"
        pat = re.compile(r"&?\s*\b" + re.escape(name) + r"\[([^\[\]]*?)\.\.(=?)([^\[\]]*?)\]")
        tm0 = R.mask(text)
        out, last, cnt = [], 0, 0
        for mm in pat.finditer(tm0):
            lo, incl, hi = text[mm.start(1):mm.end(1)].strip(), mm.group(2), text[mm.start(3):mm.end(3)].strip()
            if incl:
                hi = f"({hi}) + 1"
            if lo and hi:
                call = f"text_slice({arg}, {lo}, {hi})"
            elif lo:
                call = f"text_slice_from({arg}, {lo})"
            elif hi:
                call = f"text_slice_to({arg}, {hi})"
            else:
                continue
            out.append(text[last:mm.start()] + call)
            last = mm.end()
            cnt += 1
        if cnt:
            text = "".join(out) + text[last:]
            rec["rewrites"].append(f"strslice {name}: {cnt} byte-range slice(s) => text_slice*(..) shim calls")
    # 2. locate inserts in the rewritten text
    tm = R.mask(text)
    if kind == "fn":
        kwrel = tm.find("fn ")
        body_open_rel = R.next_open_brace(tm, kwrel)
    inserts = []  # (pos, order, text, label)
    order = 0
    for (d, tail, lines) in sub:
        order += 1
        ghost = "\n".join(lines)
        if d == "attr":
            inserts.append((0, order, ghost + "\n", "attr"))
        elif d == "spec":
            if kind != "fn":
                raise ExtractError(f"{what}: //@spec only valid in //@fn")
            inserts.append((body_open_rel, order, "\n" + ghost + "\n", "spec"))
        elif d == "loop":
            p = tail.split()
            n = int(p[0])
            lo = body_open_rel if body_open_rel is not None else 0
            ls = R.loops(tm, lo, len(tm))
            if len(ls) < n:
                raise ExtractError(f"{what}: loop #{n} not found ({len(ls)} loops)")
            lp = ls[n - 1]
            inserts.append((lp["body_open"], order, "\n" + ghost + "\n", f"loop{n}"))
            if len(p) > 1:
                if lp["kw"] != "for":
                    raise ExtractError(f"{what}: loop #{n} is not a for loop")
                mm = re.search(r"\bin\b", tm[lp["pos"]:lp["body_open"]])
                if not mm:
                    raise ExtractError(f"{what}: no `in` in for loop #{n}")
                inserts.append((lp["pos"] + mm.end(), order, f" {p[1]}:", f"loop{n}-ghostname"))
        elif re.match(r"(before|after|afterstmt)(#\d+)?\??$", d):
            mm = re.match(r"(before|after|afterstmt)(?:#(\d+))?(\?)?$", d)
            t = _ticks(tail)
            if len(t) != 1:
                raise ExtractError(f"{what}: bad anchor directive")
            k = int(mm.group(2)) if mm.group(2) else None
            try:
                pos = _find_occ(text, t[0], k, what)
            except ExtractError:
                if mm.group(3):
                    # optional hint: the statement it decorates is gone; the obligations it helped must now stand alone
                    rec.setdefault("skipped_hints", []).append(f"{d} `{t[0]}`")
                    continue
                raise
            if mm.group(1) == "after":
                pos += len(t[0])
            elif mm.group(1) == "afterstmt":
                # after the END of the statement that contains the anchor (the anchor can then be a minimal prefix)
                e, dep = pos, 0
                while e < len(tm):
                    c = tm[e]
                    if c in "([{":
                        dep += 1
                    elif c in ")]}":
                        dep -= 1
                    elif c == ";" and dep == 0:
                        e += 1
                        break
                    e += 1
                pos = e
            inserts.append((pos, order, "\n" + ghost + "\n", f"{mm.group(1)} `{t[0]}`"))
        elif d.startswith("rewrite") or d in ("strslice", "forwhile", "dropstmt", "loopbody"):
            pass
        else:
            raise ExtractError(f"{what}: unknown sub-directive {d}")
    inserts.sort(key=lambda x: (x[0], x[1]))
    segs = []
    last = 0
    for (pos, _o, g, label) in inserts:
        if pos > last:
            segs.append(Seg(text[last:pos], "code", dict(rec=rec, off=last)))
            last = pos
        segs.append(Seg(g, "ghost", dict(rec=rec, label=label)))
    segs.append(Seg(text[last:], "code", dict(rec=rec, off=last)))
    meta["extracted"].append(rec)
    return segs


def build(unit, canary=False):
    """Returns (generated_text, segs, meta).  Raises ExtractError when undecidable."""
    _cache.clear()
    meta = dict(unit=unit, extracted=[], types=[], includes=[])
    segs = _expand(os.path.join(UNITS, unit + ".rs"), meta)
    return "".join(s.text for s in segs), segs, meta


def _expand(path, meta):
    lines = open(path, encoding="utf-8").read().split("\n")
    segs = []
    i = 0
    n = len(lines)
    tname = os.path.basename(path)
    while i < n:
        ln = lines[i]
        s = ln.strip()
        if s.startswith("//@include "):
            inc = s.split()[1]
            meta["includes"].append(inc)
            segs += _expand(os.path.join(UNITS, inc), meta)
            i += 1
        elif s.startswith("//@type "):
            _, rel, name = s.split()[:3]
            src, m = repo_file(rel)
            t = R.find_type(src, m, name)
            raw = src[t["start"]:t["end"]]
            txt = R.strip_attrs_and_docs(raw)
            txt = re.sub(r"\bpub\s*\((crate|super)\)", "pub", txt)
            if t["kw"] == "struct":
                # D4: private items/fields become pub (visibility has no run-time meaning; single-file build)
                txt = re.sub(r"(?m)^(\s*)(?!pub\b)((?:r#)?[a-z_]\w*\s*:)", r"\1pub \2", txt)
            if t["kw"] in ("const", "static"):
                txt = re.sub(r":\s*&\s*str\b", ": &'static str", txt)   # Verus turns consts into functions: elided lifetime made explicit
            if not txt.lstrip().startswith("pub"):
                txt = "pub " + txt.lstrip()
            meta["types"].append(dict(file=rel, item=name, sha256=hashlib.sha256(raw.encode()).hexdigest(),
                                      drops=["D1: attributes and comments", "D4: pub(crate)/pub(super)/private -> pub"]))
            segs.append(Seg(txt + "\n", "code", dict(rec=dict(file=rel, item=name, line=src.count("\n", 0, t["start"]) + 1), off=0)))
            i += 1
        elif s.startswith("//@argslice "):
            # every function under <dir> that takes `args: &[Node]`, sliced with respect to argument indexing (vf/argslice.py)
            from . import argslice
            sub = s.split()[1]
            mode = s.split()[2] if len(s.split()) > 2 else "fn_"      # fn_ (entry points only) | all | local=<fn>
            root = os.path.join(REPO, sub)
            files = []
            if os.path.isfile(root):
                files.append(sub)
                sub = os.path.dirname(sub)
            for d, _ds, fs in (os.walk(root) if os.path.isdir(root) else []):
                if re.search(r"/(test|tests)(/|$)", d):
                    continue
                for fnm in sorted(fs):
                    if fnm.endswith(".rs") and not fnm.startswith("test"):
                        files.append(os.path.relpath(os.path.join(d, fnm), REPO))
            nfn = 0
            for rel in sorted(files):
                src, m = repo_file(rel)
                for mm in re.finditer(r"\bfn\s+(\w+)\s*(<[^>]*>)?\s*\(", m):
                    ob = mm.end() - 1
                    try:
                        cb = R.match_bracket(m, ob)
                    except ExtractError:
                        continue
                    params = m[ob:cb + 1]
                    local = mode.startswith("local=")
                    if local:
                        if mm.group(1) != mode[6:]:
                            continue
                    elif not re.search(r"\bargs\s*:\s*&(\s*mut)?\s*\[\s*Node\s*\]", params):
                        continue
                    k = cb + 1
                    while k < len(m) and m[k] not in "{;":
                        k += 1
                    if k >= len(m) or m[k] != "{":
                        continue
                    f = dict(start=mm.start(), body_open=k, end=R.match_bracket(m, k) + 1)
                    stem = re.sub(r"\W", "_", rel[len(sub):].strip("/")[:-3])
                    name = f"args_{stem}__{mm.group(1)}"
                    raw = src[f["start"]:f["end"]]
                    rec = dict(kind="argslice", file=rel, item=mm.group(1), byte_range=[f["start"], f["end"]], line=src.count("\n", 0, f["start"]) + 1,
                               sha256=hashlib.sha256(raw.encode()).hexdigest(), rewrites=[],
                               drops=["slice: everything except arity tests, control structure, `?`/return and `args[..]` accesses (vf/argslice.py)"])
                    if mode == "fn_" and not mm.group(1).startswith("fn_"):
                        # a helper that receives the caller's argument list: what it may index depends on its call sites (a call-site
                        # precondition would be needed); entry points are the `fn_*` functions the dispatcher calls with the full list
                        if re.search(r"\bargs\s*\[", m[f["body_open"]:f["end"]]):
                            rec["drops"].append("NOT SLICED (helper: indexes a list whose length its callers guarantee): not under contract")
                            meta["extracted"].append(rec)
                        continue
                    try:
                        txt, nacc = argslice.slice_function(src, m, f, name, local=local)
                    except (argslice.Unsliceable, ExtractError, IndexError) as e:
                        rec["drops"].append(f"NOT SLICED ({e}): not under contract")
                        meta["extracted"].append(rec)
                        continue
                    if nacc == 0:
                        continue          # the function never indexes `args`: nothing to prove, not listed
                    meta["extracted"].append(rec)
                    segs.append(Seg(txt, "code", dict(rec=rec, off=0)))
                    nfn += 1
            meta["argslice_functions"] = nfn
            i += 1
        elif s.startswith("//@fnpairs"):
            # D7: the two function-name tables of base/src/functions/mod.rs reduced to their (field, variant) IDENTIFIER pairs, in source order:
            #   lookup_rows  <- the rows `field => Variant` of impl_function_lookup! { .. }  (the macro turns each row into
            #                   `if self.field == key { return Some(Function::Variant); }`, tried top to bottom)
            #   name_rows    <- the arms `Function::Variant => functions.field.clone()` of Function::to_localized_name
            # fields are numbered by their position in `struct Functions` (language/mod.rs), variants by their position in `enum Function`.
            rel = "base/src/functions/mod.rs"
            src, m = repo_file(rel)
            lsrc, lm = repo_file("base/src/language/mod.rs")
            st = R.find_type(lsrc, lm, "Functions")
            fields = re.findall(r"\bpub\s+((?:r#)?\w+)\s*:\s*String", lm[st["start"]:st["end"]])
            en = R.find_type(src, m, "Function")
            body = m[en["start"]:en["end"]]
            variants = re.findall(r"^\s*(\w+)\s*,", body[body.index("{") + 1:], re.M)
            raw_id = lambda x: x[2:] if x.startswith("r#") else x      # `r#char` and `char` are the same identifier
            fields = [raw_id(x) for x in fields]
            fid = {f: i for i, f in enumerate(fields)}
            vid = {v: i for i, v in enumerate(variants)}
            mi = m.find("impl_function_lookup!", m.find("macro_rules! impl_function_lookup") + 40)
            ob = m.index("{", mi)
            cb = R.match_bracket(m, ob)
            rows = [(raw_id(x), y) for x, y in re.findall(r"((?:r#)?\w+)\s*=>\s*(\w+)\s*,", m[ob:cb])]
            f = R.find_fn(src, m, "Function::to_localized_name")
            arms = re.findall(r"Function::(\w+)\s*=>\s*functions\s*\.\s*((?:r#)?\w+)\s*\.\s*clone\s*\(\s*\)", m[f["body_open"]:f["end"]])
            arms = [(a, raw_id(b)) for a, b in arms]
            unknown = [x for (x, y) in rows if x not in fid] + [y for (x, y) in rows if y not in vid] + [a for (a, b) in arms if a not in vid] + [b for (a, b) in arms if b not in fid]
            if unknown:
                raise ExtractError(f"fnpairs: identifiers not found in struct Functions / enum Function: {unknown[:5]}")
            def chain(ps):
                return " else ".join(f"if x == {k} {{ {v} }}" for k, v in ps) + " else { -1 }"
            txt = (f"pub open spec fn n_fields() -> int {{ {len(fields)} }}\npub open spec fn n_variants() -> int {{ {len(variants)} }}\n"
                   "/// Functions::lookup as the macro expands it, `self.<field> == key` read as `x == <index of field>`: the variant index answered, -1 for None\n"
                   f"pub open spec fn lookup_variant(x: int) -> int {{ {chain([(fid[x], vid[y]) for x, y in rows])} }}\n"
                   "/// Function::to_localized_name: the index of the field whose content is printed for variant x, -1 if no arm\n"
                   f"pub open spec fn name_field(x: int) -> int {{ {chain([(vid[a], fid[b]) for a, b in arms])} }}\n")
            raw = src[ob:cb] + src[f["start"]:f["end"]]
            rec = dict(kind="fnpairs", file=rel, item="impl_function_lookup! rows + Function::to_localized_name arms", byte_range=[ob, f["end"]], line=src.count("\n", 0, ob) + 1,
                       sha256=hashlib.sha256(raw.encode()).hexdigest(), rewrites=[],
                       drops=[f"D7: {len(rows)} lookup rows and {len(arms)} name arms reduced to (field index, variant index) pairs; {len(fields)} fields, {len(variants)} variants"])
            meta["extracted"].append(rec)
            segs.append(Seg(txt, "code", dict(rec=rec, off=0)))
            i += 1
        elif s.startswith("//@stub "):
            # R2: opaque callee declared from its REAL signature; following lines (until //@end) are the ASSUMED contract
            _, rel, path = s.split()[:3]
            src, m = repo_file(rel)
            f = R.find_fn(src, m, path)
            sig = src[f["start"]:f["body_open"]].rstrip()
            sm = R.mask(sig)
            d = 0
            arrow = -1
            for k, c in enumerate(sm):
                if c in "([<":
                    d += 1 if c != "<" else 0
                elif c in ")]":
                    d -= 1
                elif c == "-" and sm[k:k + 2] == "->" and d == 0:
                    arrow = k
            if arrow >= 0:
                ret = sig[arrow + 2:].strip()
                wh = ""
                mw = re.search(r"\bwhere\b", ret)
                if mw:
                    wh = " " + ret[mw.start():]
                    ret = ret[:mw.start()].strip()
                sig = sig[:arrow] + "-> (r: " + ret + ")" + wh
            sig = re.sub(r"\bpub\s*\((crate|super)\)", "pub", sig)
            spec = []
            i += 1
            while i < n and lines[i].strip() != "//@end":
                spec.append(lines[i])
                i += 1
            i += 1
            meta.setdefault("stubs", []).append(dict(file=rel, item=path, signature_sha256=hashlib.sha256(sig.encode()).hexdigest()))
            segs.append(Seg("#[verifier::external_body]\n" + sig + "\n" + "\n".join(spec) + "\n{ unimplemented!() }\n", "tmpl", dict(file=tname, line=i)))
        elif re.match(r"//@(fn|fragment|arm)(#\d+)? ", s):
            mm = re.match(r"//@(fn|fragment|arm)(?:#(\d+))? (.*)$", s)
            kind, head = mm.group(1), mm.group(3)
            occ = int(mm.group(2)) if mm.group(2) else None
            sub = []
            i += 1
            cur = None
            while i < n and lines[i].strip() != "//@end":
                t = lines[i].strip()
                if t.startswith("//@"):
                    d, _, tail = t[3:].partition(" ")
                    cur = (d, tail, [])
                    sub.append(cur)
                elif cur is not None:
                    cur[2].append(lines[i])
                elif t:
                    raise ExtractError(f"{tname}:{i+1}: text outside a sub-directive")
                i += 1
            if i >= n:
                raise ExtractError(f"{tname}: missing //@end")
            i += 1
            segs += _process_item(kind, head, sub, meta, occ)
            segs.append(Seg("\n", "tmpl"))
        else:
            segs.append(Seg(ln + "\n", "tmpl", dict(file=tname, line=i + 1)))
            i += 1
    return segs
