"""Property registry (which units decide which property) and the evidence writer."""
import os

ROOT = os.path.dirname(os.path.dirname(os.path.abspath(__file__)))

COMMON_TRUST = [
    "Verus 0.2026.09.13 + Z3 (soundness of the verifier and its vstd axioms)",
    "vf/weave.py extractor: output hashed per item in coverage.units[].extracted; guarded by the `ensures false` canary per function",
    "machine integers checked as i32/u32/usize with overflow obligations on; f64 arithmetic results uninterpreted",
]

PROPS = {}


def prop(pid, **kw):
    kw.setdefault("scans", [])
    kw.setdefault("kani", [])
    kw.setdefault("assumptions", [])
    kw.setdefault("residual", "")
    PROPS[pid] = kw


prop("C02",
     units=["hist", "queue", "arms", "record", "cutcf", "order"],
     scans=["history-writers"],
     level="proof",
     claim="History::{push,undo,redo} implement the cursor-over-a-list semantics of the statement, for all stacks",
     assumptions=["A-clone: the derived Clone of Diff yields an equal value"],
     residual="fidelity of re-application for diffs replayed through text (set_user_input etc.) is outside")


prop("C29",
     units=["cols", "rows", "delegates"],
     level="proof",
     claim="column setters change exactly the named attribute of exactly that column, for any well-formed descriptor layout",
     assumptions=["A-itermut-drop (units/std_iter.rs)", "f64 `/`,`*`,`<`,`!=` are vstd's uninterpreted relations; their preconditions assumed (units/std_f64.rs)"],
     residual="row attributes pending; Model-level delegates")


prop("C22",
     units=["colcodec", "refarms", "quoting", "lexnum"],
     level="proof",
     claim="number_to_column / column_to_number are mutually inverse bijections between [1,16384] and the letter strings A..XFD (first sentence of the statement)",
     assumptions=["units/std_str.rs: char::is_ascii_uppercase, String::insert behave as documented", "vstd's model of str::chars / String views"],
     residual="printing of A1/R1C1 addresses (format!) and sheet-name quoting read back by the lexer are string code outside Verus' reach")

prop("C11",
     units=["colcodec", "fmtpanic", "lexpanic", "refparse", "fmtlex", "cursor", "f4", "dates", "argidx", "lexerr", "numparse", "lexnum"],
     scans=["chrono-panicking-ops"],
     level="proof",
     claim="no panic (overflow, index, unwrap, division) in the listed text-consuming functions for ANY input string",
     assumptions=["std string functions do not panic on valid &str (their vstd/assumed specs)"],
     residual="the recursive-descent parser, format_number and set_user_input as wholes are not under contract; of the typed-value reader parse_formatted_number only the "
              "character scanner parse_number (unit numparse, up to the final f64 parse) is")


prop("C03",
     units=["queue", "arms", "record", "cutcf", "order"],
     scans=["history-writers"],
     level="proof",
     claim="protocol part: the queue holds exactly the (tag, list) pairs in the order the sender applied them; flush returns enc(queue) and empties it; "
           "the replica applies, in order, spec_redo/spec_undo of each decoded entry; batching only re-brackets a concatenation (lemma_apply_seq_concat)",
     assumptions=["A-apply: apply_diff_list/apply_undo_diff_list are deterministic functions of (model view, list) and leave history and queue alone (frame re-checked by scan history-writers)",
                  "A-bitcode: decode(encode(q)) == q", "A-clone: derived Clone of Diff yields an equal value"],
     residual="that apply_diff_list(d) on the replica has the same effect as the user-level operation had on the sender (needs Model semantics)")


DISP_ASSUME = ["coordinates and displacement parameters lie within +-2^22 (call-site invariant of parsed references and grid positions; the parser is not under contract)",
               "string layout produced by format!/quote_name after the coordinates are fixed is not specified",
               "displace_links applies its map to every key; displace_cells/displace_cf_ranges visit every formula/range (not under contract)"]
prop("C12",
     units=["refshift", "refarms", "strenv", "dispsites", "movecols", "colshift"],
     level="proof",
     claim="on insertion every reference coordinate goes through shift(x,p,+k) (so it keeps pointing at the same cell; ranges over the insertion point grow), "
           "off-grid results (row or column) print #REF!, both corners of a range are displaced alike, and link keys / CF corners / the DisplaceData built by insert_rows/insert_columns are the same shift",
     assumptions=DISP_ASSUME,
     residual="cell content/type/style preservation goes through move_cell -> text re-entry (string semantics); array-formula footprints")
prop("C13",
     units=["refshift", "refarms", "strenv", "dispsites", "movecols", "colshift"],
     level="proof",
     claim="on deletion every reference coordinate goes through shift(x,p,-k): before the band untouched, inside the band => #REF! (None), after it shifted by -k; same for link keys, CF corners and the DisplaceData built by delete_rows/delete_columns",
     assumptions=DISP_ASSUME,
     residual="cell content/type/style preservation via text re-entry; column/row descriptor rebuild (planned unit delcols)")
prop("C14",
     units=["refshift", "dispsites", "colshift", "movecols"],
     level="proof",
     claim="lemma over the C12/C13 contracts: shift(shift(x,p,k),p,-k) == x for every coordinate when nothing is pushed off-grid, so formulas references, link keys and CF corners return to their values",
     assumptions=DISP_ASSUME,
     residual="cell contents via text re-entry; row/column descriptor sizes and styles (insert/delete fragments not yet under contract)")
prop("C15",
     units=["refshift", "refarms", "strenv", "dispsites", "movecols", "modelatomic", "colshift"],
     level="proof",
     claim="RowMove/ColumnMove arms of the reference rewriter, CF corner maps and link-key maps all equal move1, which has an inverse (lemma_move1_inverse): a single move is a permutation of the axis and references follow their cells",
     assumptions=DISP_ASSUME,
     residual="composition of single moves into a block move (move_rows_action loop), cell content re-entry, hidden-row handling")
prop("C33",
     units=["refshift", "dispsites", "cutcf", "cfshift", "record"],
     level="proof",
     claim="link-key maps, CF corner maps and the formula reference rewriter are proved equal to the SAME spec functions (lemma_metadata_agrees_with_formulas): deleted <=> None <=> #REF!, at every edge position",
     assumptions=DISP_ASSUME,
     residual="CF sqref string splitting/printing, the rewriting of one CF rule formula (parser), the write-back loop of displace_cf_ranges, cut/paste, clear+undo of links")


prop("C04",
     units=["atomic", "modelatomic", "renamesheet", "cols", "rows", "uisel", "styles", "record", "defnames"],
     scans=["history-writers"],
     level="proof",
     claim="each user-model operation under contract (list in coverage.functions_under_contract: 25 operations incl. the bulk width/height/hidden setters and the "
           "sheet operations) leaves engine state, undo/redo stacks and outgoing queue unchanged when it returns Err and records exactly one entry when it returns Ok; "
           "Worksheet column/row setters: Err => descriptors unchanged; on_paste_styles validates its area before the first cell is styled",
     assumptions=["A-atomic: every Model method called by those operations either succeeds or leaves the engine unchanged (each stub is listed as an assumed contract)",
                  "D5: Model/Workbook are context shells with the touched fields + an opaque rest"],
     residual="atomicity inside the big Model functions (insert_rows failing half-way, paste, move_columns_action); operations not yet under contract")


prop("C08",
     units=["finite"],
     scans=["number-writers"],
     level="proof",
     claim="every function in base/src that constructs a numeric cell value (array/spill converters, the scalar result guard, "
           "Worksheet::set_cell_with_number) and the xlsx importer's parse_cell_number yields a finite number, so no built-in function, formula or numeric <v> element of a file can leave NaN/inf in a cell; "
           "closed-world scan number-writers confirms these are all the construction sites",
     assumptions=["f64::is_nan / is_infinite behave as vstd's is_nan_spec / is_infinite_spec", "the literal 0.0 is finite (assume in two converters)",
                  "D5 shells: CalcResult/CellReferenceIndex/Cell/Worksheet around the guard fragments; update_cell/new_number stubs"],
     residual="numbers arriving through from_bytes (bitcode-serialized workbooks) and non-cell numbers of a file (column widths, CF thresholds) are outside the scan")


prop("C21",
     units=["dates"],
     scans=["date-offset-sites", "chrono-panicking-ops"],
     level="proof",
     claim="for EVERY serial s in [1, 2958465] from_excel_date(s) is the calendar day with day count s + EXCEL_DATE_BASE, "
           "date_to_serial_number(d,m,y) is civil_days(y,m,d) - EXCEL_DATE_BASE exactly when the date exists, EXCEL_DATE_BASE and both range ends "
           "agree with the Gregorian day count (by compute), so the two directions are mutually inverse on the whole range",
     assumptions=["A-chrono: NaiveDate::from_ymd_opt / num_days_from_ce / + Duration::days implement the proleptic Gregorian day count civil_days (external crate, shells in units/dates.rs)"],
     residual="WEEKDAY, the yyyy-mm-dd formatter/parser (string code), permissive DATE month/day wrapping (chrono Months/Days arithmetic)")
prop("C28",
     units=["select", "arms", "nav", "modelatomic", "uisel"],
     scans=["selection-writers"],
     level="proof",
     claim="invariant sel_inv (the selected sheet exists; in every worksheet view the selected cell and both range corners are on the grid and the cell lies "
           "between the corners) is preserved by every writer of the selection: set_selected_sheet/cell/range (whole functions), the write steps of the four arrow keys, "
           "page up/down, area selection, Ctrl+arrow, paste-styles; UserModel::delete_sheet, move_sheet, hide_sheet, new_sheet, duplicate_sheet, set_columns_hidden, "
           "set_rows_hidden (whole functions, against Model::delete_sheet/move_sheet/set_sheet_state verified in the same file); the selected-sheet index maps of "
           "move/delete follow the sheet by identity and are invertible; arrow-key targets stay on the grid; scan selection-writers: these are all the writers",
     assumptions=["std_hash.rs: HashMap::get_mut behaves as documented (assumed specification)", "Workbook::worksheet/worksheet_mut index the sheet vector (stubs)",
                  "fewer than 2^31 sheets; view_id == 0 (set by both constructors, never reassigned: scan)",
                  "Model::new_sheet / duplicate_sheet hand back a sheet with on-grid views at the stated index (assumed stubs: string-heavy engine code)",
                  "A-valid-ok for Model::set_column_hidden/set_row_hidden (proved one level down in cols/rows/delegates)",
                  "page up/down: view.top_row within +-2^22; the f64 scroll arithmetic in front of the write steps is dropped (D2)"],
     residual="on_expand_selected_range only through set_selected_range's contract; scroll position (top_row/left_column); undo/redo arms of NewSheet/DuplicateSheet beyond the fragments in unit arms")
prop("C34",
     units=["f4"],
     level="proof",
     claim="next_state follows exactly A1 -> $A$1 -> A$1 -> $A1 -> A1 and has period four (four_cycles composes the real function four times); "
           "cycle_endpoint, cycle_token_text and the public cycle_reference (whole functions, any text): the output equals the input once '$' markers are removed and letters "
           "upper-cased (norm(out) == norm(in)) — whitespace, quoted or unquoted sheet prefix and every endpoint included — and no index is out of range; "
           "the absolute/relative decision for row-only / column-only / complete endpoints",
     assumptions=["char::is_ascii_alphabetic / is_ascii_digit as documented; slice::to_vec copies; the two iterator-adapter expressions (upper-casing extend, position of '!') "
                  "are read as shims with their documented meaning; a [char] slice holds fewer than usize::MAX - 8 elements"],
     residual="the formula lexer's token spans (assumed: inside the text and ordered), the returned cursor positions, period four of the whole text (needs re-parsing the output), 'refers to the same cells' beyond the norm equality")


prop("C23",
     units=["errnames", "lexerr", "fntables", "errprint", "lexnum"],
     level="proof",
     claim="for EVERY built-in function (all rows, whatever their number) the field whose content Function::to_localized_name prints is, in Functions::lookup's first-match "
           "if-chain (the expansion of impl_function_lookup!), mapped back to that same function: lookup_variant(name_field(v)) == v, decided by Verus's `by (compute)` over "
           "the two tables re-extracted on every run; for each of the 12 error kinds the name printed by Display (the English and xlsx form) is parsed back to the same error by "
           "get_error_by_english_name, names are pairwise distinct, and nothing else is accepted; in EVERY language the formula lexer answers an error kind only where that "
           "kind's localized name stands in the text, and the token covers exactly the characters of the name (consume_error)",
     assumptions=["R6: write!(fmt, LIT) arms of Display::fmt are read as the literal they write (formatter plumbing dropped)",
                  "vstd's model of str equality and string literals",
                  "D7: the macro rows and match arms are reduced to (field index, variant index) pairs by the weaver (identifier positions in struct Functions / enum Function)",
                  "data (language.bin): within one language the function-name fields hold pairwise different upper-case names, so `self.<field> == key` is true for exactly the field the "
                  "key was printed from — checked exhaustively (5 languages x all functions) only by the replay driver fnnames in the thorough tier, which is a complete enumeration "
                  "of that finite table but is testing, not proof"],
     residual="the CONTENT of the name tables (localized error and function names, run-time decoded from language.bin) and the xlsx export names (string literals matched against "
              "the English table's content) are data, not a code contract")


prop("C01",
     units=["hist", "queue", "arms", "record", "cutcf", "order", "sheetrestore"],
     scans=["history-writers"],
     level="proof",
     claim="undo hands back exactly the most recent not-yet-undone list (History), UserModel::undo applies it through apply_undo_diff_list and queues it, and for the "
           "variants under contract each undo arm performs the inverse engine call of the recorded operation with the recorded OLD value / inverse position "
           "(setter class, insert<->delete rows/columns, move rows/columns back, defined names)",
     assumptions=["A-apply / A-clone as in C02", "A-functional: engine state is a function of the sequence of engine calls; A-setget: setting an attribute back to the value read before the operation restores it",
                  "unit order: the traversal (backwards for undo, forwards for redo, each diff once) is proved with the loop body abstracted to one logged call (D6)"],
     residual="diffs whose inverse is a re-execution through text (SetCellValue, paste, autofill, borders, named styles, CF, links, DeleteRows/Columns/Sheet data restore); the recording side of most operations")


prop("C27",
     units=["cols", "rows", "colshift", "spill", "modelatomic"],
     level="proof",
     claim="column descriptors stay sorted, non-overlapping and non-degenerate and row descriptors stay unique under every writer under contract: "
           "the Worksheet setters (cols, rows), the descriptor rebuilds of insert/delete columns and rows (colshift; deletion yields exactly the surviving "
           "descriptors, shifted), and fresh sheet ids exceed every existing id",
     assumptions=["A-itermut-drop, A-clone (derived Clone of Col/Row yields an equal value)", "coordinates within +-2^22; sheet ids below u32::MAX (otherwise get_new_sheet_id overflows)"],
     residual="sheet-name validity/uniqueness (case-insensitive string comparison), style/shared-string/formula index validity, spill anchoring (C31), defined names -> sheets; "
              "the undo arms that write rows/cols directly (DeleteRows/DeleteColumns/DeleteSheet restore)")


prop("C17",
     units=["rename", "renamesheet"],
     level="proof",
     claim="rename_sheet_in_node, arm by arm: a reference/range with an explicit sheet name into the renamed sheet gets the new name, every other "
           "reference (other sheet index, no explicit name, or a sheet that does not exist) keeps its name, and all 13 composite arms visit every child with "
           "the same sheet index and new name",
     assumptions=["str/String to_owned/to_uppercase as documented; String equality as vstd models it",
                  "the match in rename_sheet_in_node dispatches each node kind to the arm extracted for it (arms are extracted one by one)"],
     residual="value preservation after rename/move/duplicate (re-parse against the worksheet list, reset_parsed_structures, defined names, duplicate_sheet name handling)")


prop("C16",
     units=["movearms", "cutcf", "refshift", "separators", "errprint", "parensmoved", "fncall", "arrayprint"],
     level="proof",
     claim="the moved formula keeps its structure: every operator arm of to_string_moved wraps an operand whose operator binds looser than the grammar level the parser "
           "reads it at (unit parensmoved; one listed known finding: a+(b+c) is printed a+b+c); it is printed with the separators (arguments, LAMBDA parameters, array rows and elements) and the error names that the parser of the active "
           "locale / language reads back as the same tokens (units separators, errprint); cut: in a moved formula a reference whose target lies in the cut area is displaced by the move and a range only if BOTH corners lie inside it, "
           "everything else keeps its coordinates (and is qualified with the source sheet when the formula changes sheet); conditional-format ranges follow the same "
           "both-corners rule; copy: the copied formula is parsed in the source cell's context and printed in the target cell's context, so relative references shift by the "
           "paste offset and, by the contract of stringify_reference, print #REF! when they leave the grid",
     assumptions=["stringify_reference prints a function of its arguments (its own contract is unit refshift); parser.parse / to_localized_string are stubs whose only "
                  "contracted aspect is the cell context they are given", "coordinates within +-2^22"],
     residual="pasted contents/styles/links/values (clipboard.rs), external references into the cut area (get_external_formula_updates_for_cut string rewriting), "
              "the leaf arms of to_string_moved (strings, numbers, booleans)")


prop("C31",
     units=["spill"],
     level="proof",
     claim="slice: when the user types over a dynamic-array anchor or into its spill, every other cell of the old spill block is cleared "
           "(both clearing loops of prepare_cell_for_user_input cover the whole block except the anchor), so no spilled value survives outside a block",
     assumptions=["Worksheet::cell_clear_contents clears the cell it is given (stub with a ghost set of cleared cells)",
                  "R4: the inner `for c in a..b` with `continue` is normalised to a while loop (Verus for-loops do not support continue)"],
     residual="spill writing and blocking check (set_cells_with_result), clearing before re-evaluation, reset before structural edits, staleness across evaluation passes")


prop("C19",
     units=["numsign", "numparse", "entrystyle"],
     level="proof",
     claim="recognition slice (parse_number, the character scanner behind every typed number, verbatim up to the final str::parse): a text is accepted only if its group separators are "
           "correctly placed — each after at least one digit, followed by whole groups of three digits (at least one), never two in a row (well_grouped) — and only if the scan "
           "consumed the whole text; what is handed to str::parse::<f64> consists of digits, '.', 'e' and signs only, whatever the locale's separators are. Sign slice: every accepting path of the `-<currency><number>` case of parse_formatted_number stores the negated magnitude, and the "
           "`<currency><number>` case stores the magnitude as parsed",
     assumptions=["parse_number (decimal text -> f64) is a stub returning an opaque magnitude", "R: unary minus on f64 is read as a shim with an uninterpreted negation relation"],
     residual="the value of the digits (str::parse::<f64>), the sign multiplication, percent scaling, dates, the format chosen, currency prefixes other than the sign case")


prop("C30",
     units=["styles", "cols", "rows", "delegates"],
     level="proof",
     claim="the style table against the abstract view index |-> Style: the index get_style_index_or_create / create_new_style answers for a style reads back "
           "(Styles::get_style) as exactly that style — alignment, number format text, fill, font, border, quote prefix — and no call changes what any existing index "
           "reads back (keeps_views), so cells with different styles never come to share one and a style set on one cell cannot alter another; get_style_index only "
           "reuses anonymous formats; the quote-prefix variants answer the same style with only that flag changed; Model::set_cell_style stores an index that reads back "
           "as the style set; a style index assigned to a column or a row is what that column / row reads back and no other line's (whole-view contracts of units cols / rows, shared with C29); "
           "the representation invariant (component indices exist, custom number-format ids fresh and distinct) is preserved by every function under contract",
     assumptions=["A-eq / A-clone: derived PartialEq / Clone of Font, Fill, Border, Alignment, Style decide / preserve value equality (opaque components)",
                  "number_format.rs table functions (get_default_num_fmt_id, get_num_fmt, get_new_num_fmt_index) as specified in the unit (string tables; assumed stubs)",
                  "tables hold fewer than 2^31 - 65536 entries (indices are i32)", "Worksheet::set_cell_style stores the index it is given (stub with a ghost map)",
                  "R: `num_fmt.to_string()` on a &String read as `.clone()`; `String == &str` read as text equality (shim)"],
     residual="named styles (cell_style_xfs / cell_styles, update_named_style), row/column/sheet styles by name, Cell::set_style (or-pattern with &mut binding is "
              "outside Verus), the cell storage of the worksheet, what Font/Fill/Border contain, file round trips of styles (C24/C26)")


prop("C32",
     units=["renamedn", "defnames", "recorddn"],
     level="proof",
     claim="slice: renaming a defined name rewrites, in a formula tree, exactly the uses of THAT name — same scope, any letter case — to the new name and leaves every "
           "other name (other scope, other spelling) alone; every composite node (operators, function calls, comparisons, unary, implicit intersection, spill "
           "operator, LAMBDA definitions and calls) hands the same (name, scope, new name) to all its children, so no use is missed "
           "(rename_defined_name_in_node, arm by arm); Model::new_defined_name appends exactly one entry and Model::delete_defined_name removes exactly the entry "
           "with that name (any case) and scope: every other defined name keeps its name, scope and stored formula, and a failed call leaves the workbook as it was",
     assumptions=["str::to_lowercase is a function of the text (uninterpreted `lower`); String equality as vstd models it",
                  "the match in rename_defined_name_in_node dispatches each node kind to the arm extracted for it (arms are extracted one by one)"],
     residual="that Model::update_defined_name applies the traversal to every formula of every sheet and re-parses; values before/after; stability under sheet "
              "rename/move/delete, language/locale switches and both file round trips (string, parser and serialisation code)")


prop("C10",
     units=["langframe", "lexerr", "fntables", "separators", "errprint", "fncall", "arrayprint", "boolentry", "internalform", "renamesheet", "defnames"],
     level="proof",
     claim="slices. English storage / localized display: Model::user_formula_to_internal stores the ENGLISH printing of the tree parsed in the active language (or, failing that, in "
           "English); Model::parse_internal_formula parses with the English locale and language and restores the parser's own; Model::internal_formula_to_display prints, in the "
           "ACTIVE locale and language, the tree the English parser reads from the stored text (unit internalform, whole functions; parser and printers are stubs with "
           "uninterpreted results, so only the right call establishes the postcondition). Separators: at every site where the display printer (stringify) or the cut-and-paste printer (to_string_moved) chooses an argument / LAMBDA / array-element "
           "/ array-row separator, the chosen character is lexed by the real single-character arms of Lexer::next_token, in the same locale, as exactly the token "
           "Parser::get_argument_separator_token / get_column_separator_token asks for — for every locale, whatever its decimal symbol; the three arms that print an error "
           "literal return the localized name of the language they are given (errprint). Translation tables: in every language the lexer reads an error kind exactly where that kind's localized name stands and consumes exactly its characters "
           "(lexerr), and the function-name printer and the function-name lookup are the same relation (fntables), so a name shown in a language is read back as the "
           "function / error it was printed from. Frame conditions: Model::set_language changes NOTHING in the workbook — no stored formula, defined name, cell value or setting — for any "
           "language id (it only re-points the parser and the model at the language table); Model::set_locale and set_timezone write, in the workbook, only "
           "their own setting, and stored formulas and defined names are the same before and after; a rejected id leaves the whole model untouched",
     assumptions=["Model::evaluate writes values only — never stored formulas, defined names or settings (assumed stub: the evaluator is not under contract)",
                  "D5: Model/Workbook/Worksheet shells with the touched fields, the stored formulas / names, and an opaque rest"],
     residual="that a formula typed in one language, shown in another and re-entered is the same formula (printer/parser round trip: string code); which values may "
              "change with the locale; UserModel-level language switch")


prop("C09",
     units=["parens", "parensmoved", "parselevels", "separators", "errprint", "fncall", "arrayprint", "lexerr"],
     level="proof",
     claim="slice (the printer's side of the round trip, arm by arm, verbatim code): for every operator node — comparison, &, + -, * /, ^, unary minus, %, range ':', '@', '#' — the arm "
           "of stringify (display form in every language/locale, stored R1C1 form, xlsx form) and of to_string_moved (cut and paste) prints an operand in parentheses whenever "
           "the operand's outermost operator binds looser than the grammar level at which the parser reads an operand in that position (precedence(node) is proved equal to the "
           "level table; stringify_operand / to_string_moved_operand wrap exactly when precedence < level), so the text parses back to the same tree at that node; the separators "
           "between arguments / array rows / array elements are lexed as the tokens the parser expects (separators) and error literals are printed in the language given (errprint); "
           "a function call is printed name(arg1 SEP arg2 ..) with every argument in order and the locale's separator between any two (fncall: format_function and move_function whole), "
           "an array literal row by row, element by element, with exactly the element / row separators and one pair of braces (arrayprint: both ArrayKind arms). "
           "One listed known finding: a+(b+c) is printed a+b+c (required by the suite's test correct_parenthesis; =1E16+(-1E16+1) is 0 when typed, 1 after print and re-read)",
     assumptions=["the grammar levels (1 comparison .. 9 primary): unit parselevels proves, on the eight real functions parse_expr .. parse_implicit, which operator each level "
                  "consumes and which level's function reads each operand (right operands and the leftmost operand from the level above; '-' then a range-level operand then '%'s; "
                  "':' between an implicit-level and a primary operand) — the same table; NOT proved: that the two sides compose into parse(print(t)) == t (token-level "
                  "induction over the lexer state), and parse_primary",
                  "format! is read, per format string used by the arms, as a shim recording the structure of the text (local macro in the unit file); the characters printed for "
                  "an operator are not specified", "what a child prints is T::Of(child) (the recursive call is a stub)"],
     residual="the parser (that it implements the levels), leaves (numbers, strings with quotes, references: units refshift / colcodec / quoting under C22), function-call and LAMBDA/LET "
              "argument lists beyond their separators, arrays beyond their separators, RangeKind printed to the right of ':' (B1:(B2:B3), listed), the xlsx-specific prefixes")


prop("C25",
     units=["xlsxpanic", "finite"],
     scans=["import-panicking-ops"],
     level="proof",
     claim="slice (the importer's OWN code, xlsx/src/import; the zip and XML parsers are external crates): the two byte slices that drop the alpha byte of a colour value "
           "(theme::format_hex whole, the rgb branch of util::get_color_indexed) are at a character boundary for ANY attribute text; the number reader parse_cell_number never "
           "yields a non-finite value (unit finite); and a closed-world scan finds every operator of xlsx/src/import that can panic (unwrap, expect, panic-family macros, "
           "indexing / slicing, replace_range, split_at, remove, drain) and requires each to be under one of those contracts, dominated by a length test of the indexed vector, "
           "or on a reviewed list with its reason — a new one makes the run UNDECIDED",
     assumptions=["units/std_text.rs: `offset i is a char boundary` is uninterpreted and established only by documented std facts (here: in an ASCII text every offset up to the "
                  "length is a boundary; str::len of an ASCII text is its number of characters)",
                  "the reviewed list of the scan (10 sites, each with its reason in vf/scans.py) and the length-guard pattern are reviews, not proofs"],
     residual="roxmltree / zip / bitcode (external), arithmetic overflow in debug builds, allocation failure, stack depth on deeply nested XML, everything the importer hands to "
              "ironcalc_base (formula parsing of imported text is C11's subject), every importer function not listed")


prop("C18",
     units=["boolentry", "errprint", "entrystyle"],
     level="proof",
     claim="slice (booleans and error values, in every language): a boolean cell is displayed with the name of the display language (Boolean arm of Cell::get_localized_text) and "
           "Model::parse_boolean, the recogniser set_user_input calls, reads that name (any letter case) back as the same boolean and reads nothing as a boolean except the two "
           "localized and the two English names; an error cell is displayed by Error::to_localized_error_string (the localized name, unit errprint) and get_error_by_name answers "
           "an error kind only for that kind's localized name and answers some kind for every localized name; in set_user_input a value typed without a leading quote is stored — "
           "in the boolean, error-value and text branches alike — with the cell's style WITHOUT the quote prefix (unit entrystyle, fragments), so it is not shown with a quote",
     assumptions=["data (language.bin): the two boolean names of a language are different, upper-case, and the error names pairwise different — then the kind read back is the "
                  "kind displayed", "str::to_uppercase / to_lowercase are uninterpreted functions of the text; String::parse::<bool> accepts exactly \"true\" and \"false\""],
     residual="numbers in every shape (15-digit display vs. stored double), dates, percentages, currencies, strings that look like values (quote prefix), formulas, styles — the "
              "formatter / input-parser round trip is string and floating-point code; the call of parse_boolean / get_error_by_name inside set_user_input (position in the cascade)")


prop("C24",
     units=["xmlescape"],
     scans=["export-panicking-ops"],
     level="proof",
     claim="slice (export side, text escaping): needs_xlsx_escape(c) holds for exactly the characters that are NOT an XML 1.0 `Char` (production [2] of the recommendation, written "
           "out as the spec xml10_char — not the code's table); escape_char sends the five markup characters and CR / LF to entities; and the whole slow-path loop of escape_xml, "
           "verbatim, writes for ANY text only XML characters and never a raw '<' — so what the exporter passes through escape_xml (cell texts, formulas, sheet and defined names, "
           "format codes, link targets) can be read back by an XML parser",
     assumptions=["units/std_text.rs boundary predicate; `s[i..].chars().next().unwrap()` at a boundary i < len is read as a shim returning the character there and the next "
                  "boundary (std: UTF-8 decoding); format!(\"_x{:04X}_\", cp) is read as a shim producing printable ASCII; the borrowed fast path (no escaping needed) is not "
                  "under contract (it returns the text itself when its `any` test finds nothing, closure code)"],
     residual="everything else in C24: that every user text reaches escape_xml, the decoding on import (decode_xlsx_escapes, reviewed in scan import-panicking-ops only), styles, "
              "rows / columns / views, defined names, conditional formats, the zip container — export and import are format!-built XML and iterator glue; the round trip as a whole "
              "was only probed (tools/import_probe-style tests), which found five losses that were repaired (known_findings.txt)")


def evidence(pid, tier, seed, results, scan_results, kani_results, violations, known_hits, undecided, wall):
    P = PROPS[pid]
    obligations = 0
    discharged = 0
    samples = []
    units = []
    trusted = list(COMMON_TRUST)
    fns_under_contract = []
    smt_ms = 0
    cmds = []
    for r in results:
        obs = r.get("obligations", [])
        failed_ids = {f["id"] for f in r.get("failures", [])}
        failed_fns = {f.get("fn") for f in r.get("failures", [])}
        n = len(obs)
        known_ids = {f["id"] for (u, f, k) in known_hits if u == r["unit"]}
        if r["status"] == "failed" and failed_ids and failed_ids <= known_ids:
            # every refuted obligation of this unit is a LISTED known finding: those clauses are not claimed (they are reported under
            # coverage.known_findings), and Verus reports each refuted clause of a function separately (--multiple-errors), so the
            # function's other clauses were discharged
            n = sum(1 for o in obs if o["id"] not in failed_ids)
            d = n
        elif r["status"] == "ok":
            d = n
        elif r["status"] == "failed":
            # obligations of functions with any failure are not counted as discharged
            d = sum(1 for o in obs if o["fn"] not in failed_fns and o["id"] not in failed_ids)
        else:
            d = 0
        obligations += n
        discharged += d
        for o in obs[:3]:
            samples.append(dict(unit=r["unit"], obligation=o["id"], clause=o["text"][:300]))
        smt_ms += r.get("smt_ms", 0) or 0
        if r.get("cmd"):
            cmds.append(f"(cd work && {r['cmd']})")
        meta = r.get("meta", {})
        for e in meta.get("extracted", []):
            fns_under_contract.append(f"{e['file']}::{e['item']} [{e['kind']}]")
        for a in r.get("assumed", []):
            trusted.append(f"assumed contract ({r['unit']}): {a['fn']} {a['kind']} {a['text'][:200]}")
        units.append(dict(unit=r["unit"], status=r["status"], reason=r.get("reason"), verus_functions_verified=r.get("verified"),
                          explicit_obligations=n, discharged=d, smt_ms=r.get("smt_ms"), verus_total_ms=r.get("verus_total_ms"),
                          wall_s=round(r.get("wall", 0) or 0, 2), canary=r.get("canary"),
                          extracted=meta.get("extracted", []), types=meta.get("types", []),
                          trusted_scan=r.get("trusted_scan", []),
                          failures=[dict(id=f["id"], message=f["message"], text=f["text"][:300], where=f.get("where")) for f in r.get("failures", [])]))
    bounded = []
    for k in kani_results:
        entry = dict(harness=k["harness"], status=k["status"], label=k.get("label"), wall_s=k.get("wall"), detail=k.get("detail"))
        bounded.append(entry)
        if k["status"] == "ok" and k.get("label") == "complete":
            obligations += k.get("checks", 1)
            discharged += k.get("checks", 1)
            samples.append(dict(unit="kani", obligation=k["harness"], clause=k.get("claim", "")))
    for a in P.get("assumptions", []):
        trusted.append(a)
    level = P.get("level", "proof")
    cov = dict(
        obligations=obligations,
        discharged=discharged,
        checker_cmd="; ".join(cmds) or "verus <unit>.rs --output-json --time --error-format=json --multiple-errors 20",
        trusted_base=trusted,
        samples=samples or [dict(note="no obligations were generated")],
        functions_under_contract=sorted(set(fns_under_contract)),
        back_end="Verus/Z3" + (" + Kani/CBMC" if kani_results else ""),
        solver_time_ms=smt_ms,
        units=units,
        kani=bounded,
        closed_world_scans=scan_results,
        claim=P.get("claim"),
        residual_not_decided=P.get("residual"),
        explanation=("explicit obligations = ensures/invariant/decreases clauses and assert statements enumerated from the woven "
                     "Verus files of this run (trusted declarations excluded); Verus additionally checks implicit safety obligations "
                     "(overflow, index bounds, callee preconditions, termination) which are verified but not enumerated here"),
        known_findings=[dict(unit=u, obligation=f["id"], what=k["what"], note="refuted on this run; listed in known_findings.txt; not counted among the obligations claimed")
                        for (u, f, k) in known_hits],
        undecided=undecided,
    )
    if obligations == 0:
        level = "other"
    return dict(property_id=pid, tier=tier, seed=seed, level=level, coverage=cov,
                assumptions=trusted, wall_s=round(wall, 2), violations=len(violations))
