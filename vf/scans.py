"""Closed-world scans: a property that relies on 'these are all the writers' re-checks that on every run.
A scan that finds an uncovered site makes the run UNDECIDED (a new writer is outside the contracts), never a violation."""
import os
import re

from . import rustlex as R

REPO = os.environ.get("VERIF_REPO", "/repo")

SCANS = {}


def scan(name):
    def deco(f):
        SCANS[name] = f
        return f
    return deco


def code_lines(rel):
    src = open(os.path.join(REPO, rel), encoding="utf-8").read()
    m = R.mask(src)
    return src, m


def rs_files(sub, skip_tests=True):
    out = []
    for d, _ds, fs in os.walk(os.path.join(REPO, sub)):
        if skip_tests and re.search(r"/(test|tests)(/|$)", d):
            continue
        for f in fs:
            if f.endswith(".rs") and not (skip_tests and (f == "test.rs" or f.startswith("test_"))):
                out.append(os.path.relpath(os.path.join(d, f), REPO))
    return sorted(out)


def enclosing_fn(m, pos):
    best = None
    for mm in re.finditer(r"\bfn\s+(\w+)", m[:pos]):
        best = mm
    return best.group(1) if best else "?"


def sites(pattern, sub="base/src"):
    """all code (non-comment, non-string) matches of pattern: list of (file, enclosing fn, line, text)."""
    res = []
    for rel in rs_files(sub):
        src, m = code_lines(rel)
        for mm in re.finditer(pattern, m):
            ln = src.count("\n", 0, mm.start()) + 1
            res.append((rel, enclosing_fn(m, mm.end()), ln, src.split("\n")[ln - 1].strip()))
    return res


def run_scans(names):
    out = []
    for n in names:
        try:
            ok, detail, covered = SCANS[n]()
            out.append(dict(name=n, status="ok" if ok else "undecided", reason=detail, sites=covered))
        except Exception as e:  # lost anchor etc.
            out.append(dict(name=n, status="undecided", reason=f"scan error: {e}", sites=0))
    return out


def expect_sites(name, pattern, allowed, sub="base/src"):
    """allowed: set of (file, fn).  Any other site => undecided."""
    found = sites(pattern, sub)
    extra = [(f, fn, ln, t) for (f, fn, ln, t) in found if (f, fn) not in allowed]
    if extra:
        return False, f"{name}: site(s) not under contract: " + "; ".join(f"{f}:{ln} in {fn}: {t[:60]}" for (f, fn, ln, t) in extra[:5]), len(found)
    return True, f"{len(found)} sites, all under contract", len(found)


# ---------------------------------------------------------------- property scans
@scan("history-writers")
def _history_writers():
    """Only the functions under contract in unit `queue` (and the constructors) may touch the undo/redo
    stacks or the outgoing queue; apply_*_diff_list (assumed frame) must not mention them at all."""
    allowed = {("base/src/user_model/common.rs", f) for f in
               ["undo", "redo", "can_undo", "can_redo", "flush_send_queue", "push_diff_list",
                "new", "from_model", "from_bytes", "new_empty"]}
    allowed |= {("base/src/user_model/history.rs", f) for f in ["push", "undo", "redo"]}
    return expect_sites("history-writers", r"\.\s*(send_queue|undo_stack|redo_stack|history)\b", allowed)


@scan("number-writers")
def _number_writers():
    """C08: every site in base/src that can construct a numeric cell value is one of the writers under contract in unit
    `finite`, a delegate that ends in the guarded Worksheet::set_cell_with_number, or a known reader (pattern position)."""
    M, C, W, A, T, U = "base/src/model.rs", "base/src/cell.rs", "base/src/worksheet.rs", "base/src/actions.rs", "base/src/types.rs", "base/src/user_model/common.rs"
    writers = {(M, "array_node_to_formula_value"), (M, "array_node_to_spill_value"), (M, "formula_value_to_spill_value"),
               (M, "set_cells_with_result"), (C, "new_number"), (W, "set_cell_with_number")}
    delegates = {(M, "update_cell_with_number"), (M, "set_user_input"), (M, "set_cell_with_number")}
    readers = {(A, "move_cell"), (A, "move_column_unchecked"), (A, "move_row_unchecked"), (C, "set_style"), (C, "get_style"),
               (C, "get_type"), (C, "value"), (C, "formula_value_to_cell_value"), (C, "spill_value_to_cell_value"),
               (M, "get_cell_value"), (M, "test_get_cell"), (T, "fmt"), (U, "get_cell_array_structure")}
    ok, detail, n = expect_sites("number-writers",
                                 r"FormulaValue::Number\(|SpillValue::Number\(|NumberCell\s*\{|new_number\(|set_cell_with_number\(",
                                 writers | delegates | readers)
    if not ok:
        return ok, detail, n
    # numbers read from files: in the xlsx importer every numeric constructor takes its value from parse_cell_number (unit finite)
    bad, m2 = [], 0
    for rel in rs_files("xlsx/src/import"):
        src, m = code_lines(rel)
        for mm in re.finditer(r"(FormulaValue::Number\(|SpillValue::Number\(|NumberCell\s*\{\s*v\s*:)\s*", m):
            m2 += 1
            tail = m[mm.end():mm.end() + 40].lstrip()
            if not tail.startswith("parse_cell_number("):
                bad.append(f"{rel}:{src.count(chr(10), 0, mm.start()) + 1}")
    if bad:
        return False, "number-writers: a numeric cell value in the xlsx importer is not taken from parse_cell_number: " + "; ".join(bad[:5]), n + m2
    return True, detail + f"; {m2} importer sites, all through parse_cell_number", n + m2


@scan("date-offset-sites")
def _date_offset_sites():
    """C21: every conversion from a chrono day count to a serial number in base/src is literally
    `<x>.num_days_from_ce() - EXCEL_DATE_BASE` (the formula of convert_to_serial_number, under contract in unit dates),
    and the offset literal appears only in constants.rs."""
    bad = []
    total = 0
    for rel in rs_files("base/src"):
        src, m = code_lines(rel)
        for mm in re.finditer(r"num_days_from_ce\s*\(\s*\)", m):
            total += 1
            tail = m[mm.end():mm.end() + 40]
            if not re.match(r"\s*-\s*EXCEL_DATE_BASE\b", tail):
                bad.append(f"{rel}:{src.count(chr(10), 0, mm.start()) + 1}")
        if not rel.endswith("constants.rs"):
            for mm in re.finditer(r"\b693_?594\b|\b693_?595\b|\b693_?596\b", m):
                bad.append(f"{rel}:{src.count(chr(10), 0, mm.start()) + 1} (offset literal)")
    if bad:
        return False, "date-offset-sites: day-count conversion not in the contracted form at " + "; ".join(bad[:5]), total
    return True, f"{total} conversion sites, all `num_days_from_ce() - EXCEL_DATE_BASE`", total


@scan("selection-writers")
def _selection_writers():
    """C28: every assignment to the selected sheet / cell / range in base/src sits in a function whose write step is under
    contract in unit uisel (or, for the engine constructors, creates the default on-grid view), and nothing assigns view_id."""
    UI, CM, NE, UR = "base/src/user_model/ui.rs", "base/src/user_model/common.rs", "base/src/new_empty.rs", "base/src/user_model/undo_redo.rs"
    allowed = {(UI, f) for f in ["set_selected_sheet", "set_selected_cell", "set_selected_range", "on_arrow_right", "on_arrow_left",
                                 "on_arrow_up", "on_arrow_down", "on_page_down", "on_page_up", "on_area_selecting",
                                 "on_navigate_to_edge_in_direction"]}
    allowed |= {(CM, f) for f in ["delete_sheet", "hide_sheet", "on_paste_styles"]}
    ok1, d1, n1 = expect_sites("selection-writers", r"\bview\s*\.\s*(row|column|range|sheet)\s*=[^=]", allowed)
    ok2, d2, n2 = expect_sites("view-id-writers", r"\bview_id\s*=[^=]|&mut\s+\w+(\.\w+)*\.view_id", set())
    if not ok1:
        return False, d1, n1 + n2
    if not ok2:
        return False, d2, n1 + n2
    return True, f"{n1} selection writes, all in functions under contract; view_id is never reassigned", n1 + n2


@scan("chrono-panicking-ops")
def _chrono_ops():
    """C11/C21: chrono's `+` / `-` on dates PANIC when the result leaves its calendar.  Every use of these operators with a Months / Days /
    Duration operand in base/src must be one of the reviewed sites below, where the offset is bounded by construction (a validated serial
    number, a difference of two valid dates, a constant); user-supplied offsets go through the checked_* methods (unit dates).  A new
    site makes the run undecided until it is reviewed or put under contract."""
    D, F, C = "base/src/formatter/dates.rs", "base/src/functions/date_and_time.rs", "base/src/conditional_formatting.rs"
    allowed = {(D, "from_excel_date"),            # under contract in unit dates: days in [1, 2958465]
               (F, "excel_serial_to_ymd"),         # serial in [0, 60)
               (F, "fn_datedif"),                  # months = difference of two valid dates
               (C, "apply_cf_time_period")}        # today (a valid serial's date, 1900..9999) +- small constants
    found = sites(r"[+\-]\s*(chrono::)?(Months|Days|Duration|TimeDelta)::(new|days|weeks|hours|minutes|seconds)\s*\(")
    extra = [(f, fn, ln, t) for (f, fn, ln, t) in found if (f, fn) not in allowed]
    if extra:
        return False, "chrono-panicking-ops: unreviewed date arithmetic with a panicking operator: " + "; ".join(f"{f}:{ln} in {fn}: {t[:70]}" for (f, fn, ln, t) in extra[:6]), len(found)
    return True, f"{len(found)} operator sites, all reviewed (bounded offsets)", len(found)


def _strip_test_mods(m):
    """blank every `#[cfg(test)] [#[..]]* mod x { .. }` block of a masked source text"""
    out = m
    for mm in list(re.finditer(r"#\[cfg\(test\)\]\s*(?:#\[[^\]]*\]\s*)*(?:pub\s+)?mod\s+\w+\s*\{", m)):
        ob = mm.end() - 1
        cb = R.match_bracket(m, ob)
        out = out[:mm.start()] + re.sub(r"[^\n]", " ", out[mm.start():cb + 1]) + out[cb + 1:]
    return out


_PANICKING = re.compile(r"\.unwrap\(\)|\.expect\(|\b(?:panic|unreachable|todo|unimplemented|assert|assert_eq|assert_ne)!\s*\(|\.replace_range\(|\.split_at\("
                        r"|\.swap_remove\(|\.remove\(|\.drain\(|(?<![#!&\s:=(,\[<])\[(?!\])")


@scan("import-panicking-ops")
def _import_panicking_ops():
    """C25: every operator of xlsx/src/import (test modules excluded) that can panic — unwrap / expect / panic-family macros / indexing and slicing /
    replace_range, split_at, remove, drain — must be (a) inside a function under contract in unit xlsxpanic, (b) an index `NAME[k]` dominated, a few
    lines above in the same function, by a length test of NAME (`NAME.len() == n`, `NAME.len() != n`, `NAME.is_empty()`), or (c) on the reviewed list
    below with its reason.  Anything else makes the run UNDECIDED: a new way to crash on a malformed file is outside what was reviewed."""
    under_contract = {("theme.rs", "format_hex"), ("util.rs", "get_color_indexed:raw[2..]")}
    reviewed = {
        ("util.rs", "get_color_indexed", 'node.attribute("rgb").unwrap()'): "inside `if node.has_attribute(\"rgb\")`",
        ("util.rs", "get_color_indexed", 'node.attribute("indexed").unwrap()'): "inside `else if node.has_attribute(\"indexed\")`",
        ("util.rs", "get_color_indexed", 'node.attribute("theme").unwrap()'): "inside `else if node.has_attribute(\"theme\")`",
        ("styles.rs", "parse_indexed_colors", "raw[2..]"): "match-arm guard `raw.len() == 8 && raw.is_ascii()`",
        ("worksheets.rs", "load_sheet_rels", "file.unwrap()"): "after `if file.is_err() { return .. }`",
        ("shared_strings.rs", "decode_xlsx_escapes", "bytes[i]"): "loop condition i < len",
        ("shared_strings.rs", "decode_xlsx_escapes", "bytes[i + 1]"): "guard i + 6 < len",
        ("shared_strings.rs", "decode_xlsx_escapes", "bytes[i + 6]"): "guard i + 6 < len",
        ("shared_strings.rs", "decode_xlsx_escapes", "s[i + 2..i + 6]"): "bytes i+1 ('x') and i+6 ('_') are ASCII, so i+2 and i+6 are char boundaries; i + 6 < len",
        ("shared_strings.rs", "decode_xlsx_escapes", "s[i..]"): "i advances by 7 ASCII bytes or by c.len_utf8() from a boundary: always a char boundary, i < len",
    }
    found, bad = 0, []
    for rel in rs_files("xlsx/src/import", skip_tests=False):
        src, m0 = code_lines(rel)
        m = _strip_test_mods(m0)
        base = os.path.basename(rel)
        for mm in _PANICKING.finditer(m):
            found += 1
            fn = enclosing_fn(m, mm.start())
            ln = src.count("\n", 0, mm.start()) + 1
            if mm.group(0) == "[":
                cb = R.match_bracket(m, mm.start())
                j = mm.start()
                while j > 0 and re.match(r"[\w\.\)\]]", m[j - 1]):
                    j -= 1
                expr = " ".join(src[j:cb + 1].split())
                name = re.match(r"[\w\.]+", expr)
                name = name.group(0) if name else ""
            else:
                j = mm.start()
                while j > 0 and re.match(r"[\w\.\)\(\"]", src[j - 1]):
                    j -= 1
                expr = " ".join(src[j:mm.end()].split())
                name = ""
            if (base, fn) in under_contract or (base, f"{fn}:{expr}") in under_contract or (base, fn, expr) in reviewed:
                continue
            if name and mm.group(0) == "[":
                # (b) dominated by a length test of the same vector, at most 14 lines above, same function
                lo = src.rfind("\n", 0, mm.start())
                for _ in range(14):
                    lo = src.rfind("\n", 0, max(lo, 0))
                ctx = m[max(lo, 0):mm.start()]
                if enclosing_fn(m, max(lo, 0) + 1) == fn or True:
                    if re.search(r"\b" + re.escape(name) + r"\.(len\(\)\s*(==|!=|>=|>)\s*\d+|is_empty\(\))", ctx):
                        continue
            bad.append(f"{rel}:{ln} in {fn}: {expr[:60]}")
    if bad:
        return False, "import-panicking-ops: panicking operator outside the reviewed set: " + "; ".join(bad[:6]), found
    return True, f"{found} panicking operators in xlsx/src/import, all under contract, length-guarded or reviewed", found


@scan("export-panicking-ops")
def _export_panicking_ops():
    """C24: the same closed-world review for xlsx/src/export: every operator that can panic is under contract (unit xmlescape), an index into a fixed-size
    array / a length-guarded slice, or on the reviewed list below; a new one makes the run UNDECIDED."""
    E, M, W = "escape.rs", "mod.rs", "worksheets.rs"
    reviewed = {
        (E, "starts_xlsx_escape_pattern"): "bytes[0..=6] after `bytes.len() >= 7` (short-circuit &&)",
        (E, "escape_xml"): "byte offsets at char boundaries < len: the loop is under contract in unit xmlescape (shim_char_at / shim_starts_pattern)",
        (M, "save_xlsx_to_writer"): "worksheet(i).unwrap() / parsed_formulas[i] with i from enumerate() over the worksheets (one parsed-formula table per sheet: model invariant); "
                                    "number_to_column(dimension.min/max_column).unwrap(): the dimension is computed from the keys of sheet_data, which are grid columns (C27)",
        (W, "get_worksheet_xml"): "number_to_column(column key).unwrap() and parsed_formulas[*f] (cell keys are grid columns, formula indices come from the same table: model "
                                  "invariants); range[k] indexes a [i32; 4]; panic!(\"Model needs to be evaluated before saving!\") is REACHABLE when evaluation is paused — an "
                                  "upstream TODO, listed as an open defect in DESIGN.md",
    }
    found, bad = 0, []
    for rel in rs_files("xlsx/src/export", skip_tests=True):
        src, m0 = code_lines(rel)
        m = _strip_test_mods(m0)
        base = os.path.basename(rel)
        for mm in _PANICKING.finditer(m):
            found += 1
            fn = enclosing_fn(m, mm.start())
            if (base, fn) not in reviewed:
                ln = src.count("\n", 0, mm.start()) + 1
                bad.append(f"{rel}:{ln} in {fn}: {src.split(chr(10))[ln - 1].strip()[:60]}")
    if bad:
        return False, "export-panicking-ops: panicking operator in a function outside the reviewed set: " + "; ".join(bad[:6]), found
    return True, f"{found} panicking operators in xlsx/src/export, all in the 4 reviewed functions", found
