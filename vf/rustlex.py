"""Small Rust lexical helpers: a code mask (comments / string / char literal contents blanked),
bracket matching and item location.  Everything structural is searched in the mask and copied
from the original text, so extracted code is byte-for-byte the repository's text."""
import re


class ExtractError(Exception):
    """Raised when an anchor/item cannot be located exactly: the run is UNDECIDED (exit 2)."""


def mask(src: str, comments=None) -> str:
    out = list(src)
    n = len(src)
    i = 0

    def blank(a, b):
        for k in range(a, b):
            if out[k] != "\n":
                out[k] = " "

    while i < n:
        c = src[i]
        if c == "/" and i + 1 < n and src[i + 1] == "/":
            j = src.find("\n", i)
            j = n if j < 0 else j
            blank(i, j)
            if comments is not None:
                comments.append((i, j))
            i = j
        elif c == "/" and i + 1 < n and src[i + 1] == "*":
            depth = 1
            j = i + 2
            while j < n and depth > 0:
                if src.startswith("/*", j):
                    depth += 1
                    j += 2
                elif src.startswith("*/", j):
                    depth -= 1
                    j += 2
                else:
                    j += 1
            blank(i, j)
            if comments is not None:
                comments.append((i, j))
            i = j
        elif c == '"' or (
            c in "rb"
            and (i == 0 or not (src[i - 1].isalnum() or src[i - 1] == "_"))
            and re.match(r'(b?r#*"|b")', src[i:i + 12])
        ):
            m = re.match(r'(b?)(r?)(#*)"', src[i:i + 12])
            raw = m.group(2) == "r"
            hashes = m.group(3)
            j = i + m.end()
            if raw:
                end = src.find('"' + hashes, j)
                end = n if end < 0 else end
                blank(j, end)
                i = end + 1 + len(hashes)
            else:
                while j < n and src[j] != '"':
                    j += 2 if src[j] == "\\" else 1
                blank(i + m.end(), j)
                i = j + 1
        elif c == "'":
            # char literal or lifetime
            if i + 1 < n and src[i + 1] == "\\":
                j = src.find("'", i + 3)
                blank(i + 1, j)
                i = j + 1
            elif i + 2 < n and src[i + 2] == "'":
                blank(i + 1, i + 2)
                i += 3
            else:
                i += 1
        elif c == "b" and i + 1 < n and src[i + 1] == "'" and not (i > 0 and (src[i - 1].isalnum() or src[i - 1] == "_")):
            i += 1
        else:
            i += 1
    return "".join(out)


OPEN = {"{": "}", "(": ")", "[": "]"}


def match_bracket(m: str, i: int) -> int:
    """m: mask; i: index of an opening bracket; returns index of the matching closer."""
    stack = []
    n = len(m)
    k = i
    while k < n:
        c = m[k]
        if c in OPEN:
            stack.append(OPEN[c])
        elif c in ")]}":
            if not stack or stack[-1] != c:
                raise ExtractError(f"unbalanced bracket at {k}")
            stack.pop()
            if not stack:
                return k
        k += 1
    raise ExtractError("unterminated bracket")


def depth_at(m: str, lo: int, pos: int) -> int:
    d = 0
    for k in range(lo, pos):
        c = m[k]
        if c in "{([":
            d += 1
        elif c in "})]":
            d -= 1
    return d


def next_open_brace(m: str, i: int, stop_at_semicolon=True) -> int:
    """First `{` at paren/bracket depth 0 starting from i."""
    d = 0
    k = i
    n = len(m)
    while k < n:
        c = m[k]
        if c in "([":
            d += 1
        elif c in ")]":
            d -= 1
        elif c == "{" and d == 0:
            return k
        elif c == ";" and d == 0 and stop_at_semicolon:
            raise ExtractError("item has no body")
        k += 1
    raise ExtractError("no body brace found")


def norm_ws(s: str) -> str:
    return re.sub(r"\s+", " ", s).strip()


def impl_blocks(m: str, hdr: str):
    """Yield (body_open, body_close) of every `impl` block whose header contains hdr."""
    want = norm_ws(hdr)
    for mm in re.finditer(r"\bimpl\b", m):
        try:
            ob = next_open_brace(m, mm.end())
        except ExtractError:
            continue
        header = norm_ws(m[mm.end():ob])
        # strip leading generics
        h2 = re.sub(r"^<[^>]*>\s*", "", header)
        cands = {header, h2, re.sub(r"<[^>]*>", "", h2).strip()}
        if want in cands:
            yield ob, match_bracket(m, ob)


def item_start(m: str, src: str, kwpos: int) -> int:
    """Walk back from a keyword (`fn`, `struct`, ...) over visibility/qualifiers."""
    k = kwpos
    while True:
        j = k
        while j > 0 and m[j - 1] in " \t":
            j -= 1
        mm = re.search(r"(pub(\s*\([^)]*\))?|const|unsafe|async|default)$", m[max(0, j - 40):j])
        if mm:
            k = j - len(mm.group(0))
        else:
            return k


def find_fn(src: str, m: str, path: str):
    """path = 'name' or 'ImplHeader::name'.  Returns dict(start, sig_end(body `{`), end(after `}`))."""
    if "::" in path:
        hdr, name = path.rsplit("::", 1)
        regions = list(impl_blocks(m, hdr))
        if not regions:
            raise ExtractError(f"impl block '{hdr}' not found")
    else:
        name = path
        regions = [(-1, len(m))]
    hits = []
    for (lo, hi) in regions:
        for mm in re.finditer(r"\bfn\s+" + re.escape(name) + r"\b", m[lo + 1:hi]):
            p = lo + 1 + mm.start()
            if depth_at(m, lo + 1, p) == 0:
                hits.append(p)
    if len(hits) != 1:
        raise ExtractError(f"fn '{path}': expected exactly 1 definition, found {len(hits)}")
    p = hits[0]
    ob = next_open_brace(m, p)
    cb = match_bracket(m, ob)
    return dict(start=item_start(m, src, p), kw=p, body_open=ob, end=cb + 1, name=name)


def find_type(src: str, m: str, name: str):
    hits = []
    for mm in re.finditer(r"\b(struct|enum|const|static|type)\s+" + re.escape(name) + r"\b", m):
        if depth_at(m, 0, mm.start()) == 0:
            hits.append(mm)
    if len(hits) != 1:
        raise ExtractError(f"type '{name}': expected exactly 1 definition, found {len(hits)}")
    mm = hits[0]
    kw = mm.group(1)
    st = item_start(m, src, mm.start())
    if kw in ("struct", "enum"):
        # struct may be tuple/unit struct ending in ';'
        k = mm.end()
        while m[k] not in "{;(":
            k += 1
        if m[k] == "{":
            end = match_bracket(m, k) + 1
        elif m[k] == "(":
            e = match_bracket(m, k)
            end = m.index(";", e) + 1
        else:
            end = k + 1
    else:
        # up to ';' at depth 0
        k = mm.end()
        d = 0
        while True:
            c = m[k]
            if c in "{([":
                d += 1
            elif c in "})]":
                d -= 1
            elif c == ";" and d == 0:
                break
            k += 1
        end = k + 1
    return dict(start=st, end=end, kw=kw)


def drop_comments(text: str) -> str:
    cs = []
    mask(text, cs)
    out = []
    last = 0
    for (a, b) in cs:
        out.append(text[last:a])
        last = b
    out.append(text[last:])
    return "".join(out)


def strip_attrs_and_docs(text: str) -> str:
    """Drop D1: remove `#[...]` attributes and comments from a type definition."""
    text = drop_comments(text)
    m = mask(text)
    out = []
    i = 0
    n = len(text)
    while i < n:
        if m[i] == "#" and re.match(r"#!?\[", m[i:i + 3]):
            ob = m.index("[", i)
            i = match_bracket(m, ob) + 1
            continue
        out.append(text[i])
        i += 1
    return re.sub(r"\n[ \t]*(?=\n)", "", "".join(out))


def loops(m: str, lo: int, hi: int):
    """Loop keywords inside [lo,hi) in source order: list of dict(kw, pos, body_open)."""
    res = []
    for mm in re.finditer(r"\b(for|while|loop)\b", m[lo:hi]):
        p = lo + mm.start()
        # `for<'a>` HRTB or `impl X for Y` are not loops
        after = m[p + len(mm.group(1)):p + len(mm.group(1)) + 2]
        if mm.group(1) == "for" and after.lstrip().startswith("<"):
            continue
        try:
            ob = next_open_brace(m, p, stop_at_semicolon=False)
        except ExtractError:
            continue
        res.append(dict(kw=mm.group(1), pos=p, body_open=ob))
    return res
