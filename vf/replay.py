"""Replay: on a refuted obligation, try to exhibit a failing input on the real crate."""
import json
import os

ROOT = os.path.dirname(os.path.dirname(os.path.abspath(__file__)))


def report(pid, violations, tier):
    """returns [(path, found_input)] per violation"""
    out = []
    for (u, f) in violations:
        name = f"{pid}-{u.replace(':','_')}-{abs(hash(f['id'])) % 100000}.json"
        path = os.path.join(ROOT, "replay", name)
        found = None
        try:
            from . import replay_drivers
            if not u.startswith("replay:") and os.environ.get("VERIF_NO_REPLAY") != "1":
                found = replay_drivers.find_input(pid, u, f)
        except Exception as e:  # replay is best effort, never hides the violation
            found = None
            f = dict(f, replay_error=str(e))
        with open(path, "w") as fh:
            json.dump(dict(property=pid, unit=u, obligation=f["id"], message=f["message"], clause=f["text"],
                           where=f.get("where"), verifier_output=f.get("rendered", ""), failing_input=found,
                           counterexample=f.get("counterexample"), replay_error=f.get("replay_error")), fh, indent=1)
        out.append((path, bool(found) or bool(f.get("counterexample"))))
    return out


def rerun(pid, path):
    d = json.load(open(path))
    from . import replay_drivers
    r = replay_drivers.rerun(pid, d)
    print(json.dumps(r, indent=1))
    return 1 if r.get("still_fails") else 0
