"""Mechanical slice of a built-in function `fn fn_xxx(&mut self, args: &[Node], cell: ...)` with respect to ARGUMENT INDEXING.

What is kept, verbatim from the repository text:  `let <v> = args.len();`, every `if` / `else if` whose condition speaks only about the
argument count (count variables, `args.len()`, `args.is_empty()`, literals, comparisons, `(a..=b).contains(&v)`), the nesting of all other
`if` / `match` / loop constructs (their conditions replaced by a nondeterministic choice, so every branch stays reachable), integer `for`
ranges over the count, `return`, `?` (a possible return) and every access `args[<index>]`, `args.get(..)` being total is dropped.
What is DROPPED: every other statement and expression (evaluation of the arguments, the arithmetic of the function).
The skeleton therefore over-approximates the control flow of the function as far as the argument count can tell, and Verus proves that
no kept access can be out of range: `k < args.len()` at every `args[k]`, for every call."""
import re

from . import rustlex as R

CTRL = ("if", "match", "for", "while", "loop", "return", "else")


class Unsliceable(Exception):
    pass


def _tokens(m):
    """tokenise a masked body into (kind, text, start, end): ident/number/punct/group"""
    i, n = 0, len(m)
    out = []
    while i < n:
        c = m[i]
        if c.isspace():
            i += 1
        elif c.isalpha() or c == "_":
            j = i + 1
            while j < n and (m[j].isalnum() or m[j] == "_"):
                j += 1
            out.append(("id", m[i:j], i, j))
            i = j
        elif c.isdigit():
            j = i + 1
            while j < n and (m[j].isalnum() or m[j] in "._"):
                if m[j] == "." and j + 1 < n and m[j + 1] == ".":
                    break
                j += 1
            out.append(("num", m[i:j], i, j))
            i = j
        elif c in "([{":
            e = R.match_bracket(m, i)
            out.append(("grp", c, i, e + 1))
            i = e + 1
        else:
            # multi-char punctuation that matters
            for p in ("..=", "=>", "==", "!=", "<=", ">=", "&&", "||", "..", "::", "->"):
                if m.startswith(p, i):
                    out.append(("p", p, i, i + len(p)))
                    i += len(p)
                    break
            else:
                out.append(("p", c, i, i + 1))
                i += 1
    return out


class Slicer:
    def __init__(self, src, m):
        self.src, self.m = src, m
        self.counts = set()        # variables holding args.len()
        self.loopvars = set()      # integer loop variables of kept `for` ranges
        self.accesses = 0

    # ---- predicates -------------------------------------------------------------------------------------------------
    def pure_count_expr(self, a, b):
        """is src[a:b] an expression over the argument count only?"""
        toks = _tokens(self.m[a:b])
        if not toks:
            return False
        saw_count = False
        k = 0
        while k < len(toks):
            kind, t, s, e = toks[k]
            if kind == "id":
                if t in self.counts or t in self.loopvars:
                    saw_count = saw_count or t in self.counts
                elif t == "args":
                    # args.len() / args.is_empty()
                    if k + 3 < len(toks) and toks[k + 1][1] == "." and toks[k + 2][1] in ("len", "is_empty") and toks[k + 3][0] == "grp":
                        saw_count = True
                        k += 3
                    else:
                        return False
                elif t in ("contains", "true", "false", "usize", "as", "i32"):
                    pass
                else:
                    return False
            elif kind == "grp":
                if not self.pure_count_expr(a + s + 1, a + e - 1) and self.m[a + s + 1:a + e - 1].strip():
                    # a group with no count in it is fine if it is pure literals
                    inner = _tokens(self.m[a + s + 1:a + e - 1])
                    if any(x[0] == "id" and x[1] not in self.counts | self.loopvars | {"usize", "as", "i32"} for x in inner):
                        return False
                else:
                    inner_counts = any(x[0] == "id" and x[1] in self.counts for x in _tokens(self.m[a + s + 1:a + e - 1]))
                    saw_count = saw_count or inner_counts or "args" in self.m[a + s:a + e]
            elif kind == "p":
                if t not in ("==", "!=", "<", ">", "<=", ">=", "&&", "||", "!", "..=", "..", ".", "&", "+", "-", "*", "%", "/"):
                    return False
            k += 1
        return saw_count

    def _derived_let(self, toks, k, a, out=None, I=""):
        """`let [mut] v [: T] = <expression over the count only>;` defines another count variable: kept verbatim"""
        n = len(toks)
        j = k + 1
        if j < n and toks[j][1] == "mut":
            j += 1
        if not (j < n and toks[j][0] == "id"):
            return 0
        v = toks[j][1]
        j += 1
        if j < n and toks[j][1] == ":":
            j += 2
        if not (j < n and toks[j][1] == "="):
            return 0
        e = j + 1
        while e < n and toks[e][1] != ";":
            if toks[e][0] == "id" and toks[e][1] in CTRL:
                return 0
            e += 1
        if e >= n or e == j + 1:
            return 0
        ea, eb = a + toks[j + 1][2], a + toks[e - 1][3]
        if not self.pure_count_expr(ea, eb):
            return 0
        if out is None:
            return 1
        self.counts.add(v)
        out.append(f"{I}let {v} = {self.src[ea:eb].strip()};")
        return e + 1

    def _check_index(self, idx):
        idx = idx.replace("args.len()", "0")
        for w in re.findall(r"[A-Za-z_]\w*", idx):
            if w not in self.counts and w not in self.loopvars and w not in ("usize", "as"):
                raise Unsliceable(f"index `{idx}` uses `{w}`, which is not derived from the argument count")

    # ---- emission ---------------------------------------------------------------------------------------------------
    def slice_block(self, a, b, ind):
        """slice the token sequence of src[a:b] (contents of a block or expression)"""
        toks = _tokens(self.m[a:b])
        out = []
        k = 0
        n = len(toks)
        I = "    " * ind

        def find_block(k0):
            """index of the first `{` group at k0.. (the body of a control construct)"""
            kk = k0
            while kk < n:
                if toks[kk][0] == "grp" and toks[kk][1] == "{":
                    return kk
                kk += 1
            raise Unsliceable("control construct without a block")

        while k < n:
            kind, t, s, e = toks[k]
            if kind == "id" and t == "let" and k + 6 < n and toks[k + 1][0] == "id" and toks[k + 2][1] == "=" \
                    and toks[k + 3][1] == "args" and toks[k + 4][1] == "." and toks[k + 5][1] == "len" and toks[k + 6][0] == "grp" \
                    and k + 7 < n and toks[k + 7][1] == ";":
                v = toks[k + 1][1]
                self.counts.add(v)
                out.append(f"{I}let {v} = args.len();")
                k += 8
            elif kind == "id" and t == "let" and k + 2 < n and (toks[k + 1][1] == "args" or (toks[k + 1][1] == "mut" and toks[k + 2][1] == "args")):
                # a (re)binding of `args`: its length is unknown from here on
                j = k + 1
                while j < n and toks[j][1] != ";":
                    j += 1
                eq = k + 1
                while eq < j and toks[eq][1] != "=":
                    eq += 1
                if eq + 1 < j:
                    out.extend(self.slice_block(a + toks[eq + 1][2], a + toks[j - 1][3], ind))
                out.append(f"{I}let args = havoc_args();")
                k = j + 1
            elif kind == "id" and t == "let" and self._derived_let(toks, k, a):
                k = self._derived_let(toks, k, a, out, I)
            elif kind == "id" and t == "if":
                kb = find_block(k + 1)
                ca, cb = a + toks[k + 1][2], a + toks[kb][2]
                cond_src = self.src[ca:cb].strip()
                is_let = toks[k + 1][1] == "let"
                if not is_let and self.pure_count_expr(ca, cb):
                    cond = cond_src
                else:
                    out.extend(self.slice_block(ca, cb, ind))           # accesses inside the condition happen first
                    cond = "nondet()"
                body = self.slice_block(a + toks[kb][2] + 1, a + toks[kb][3] - 1, ind + 1)
                out.append(f"{I}if {cond} {{")
                out.extend(body)
                k = kb + 1
                # else chain
                while k < n and toks[k][1] == "else":
                    if k + 1 < n and toks[k + 1][1] == "if":
                        kb2 = find_block(k + 2)
                        ca, cb = a + toks[k + 2][2], a + toks[kb2][2]
                        is_let = toks[k + 2][1] == "let"
                        if not is_let and self.pure_count_expr(ca, cb):
                            cond = self.src[ca:cb].strip()
                            out.append(f"{I}}} else if {cond} {{")
                        else:
                            # accesses in an else-if condition: over-approximate by hoisting them into the branch and before it
                            out.append(f"{I}}} else if nondet() {{")
                            out.extend(self.slice_block(ca, cb, ind + 1))
                        out.extend(self.slice_block(a + toks[kb2][2] + 1, a + toks[kb2][3] - 1, ind + 1))
                        k = kb2 + 1
                    else:
                        kb2 = find_block(k + 1)
                        out.append(f"{I}}} else {{")
                        out.extend(self.slice_block(a + toks[kb2][2] + 1, a + toks[kb2][3] - 1, ind + 1))
                        k = kb2 + 1
                        break
                out.append(f"{I}}}")
            elif kind == "id" and t == "match":
                kb = find_block(k + 1)
                sa, sb = a + toks[k + 1][2], a + toks[kb][2]
                scrut_pure = self.pure_count_expr(sa, sb)
                scrut = self.src[sa:sb].strip()
                if not scrut_pure:
                    out.extend(self.slice_block(sa, sb, ind))      # the scrutinee
                # arms: split the block at top-level `=>`; each arm body is sliced under a nondeterministic guard
                ba, bb = a + toks[kb][2] + 1, a + toks[kb][3] - 1
                at = _tokens(self.m[ba:bb])
                j = 0
                pat_start = 0
                first = True
                while j < len(at):
                    if at[j][1] == "=>":
                        pat = self.src[ba + at[pat_start][2]:ba + at[j - 1][3]].strip() if j > pat_start else "_"
                        guard = "nondet()"
                        if scrut_pure:
                            # a match on the argument count with literal / range / wildcard patterns is an if-chain over the count
                            alts = [x.strip() for x in pat.split("|")]
                            conds = []
                            for alt in alts:
                                if re.fullmatch(r"\d+", alt):
                                    conds.append(f"({scrut}) == {alt}")
                                elif re.fullmatch(r"(\d+)\s*\.\.=\s*(\d+)", alt):
                                    lo_, hi_ = re.fullmatch(r"(\d+)\s*\.\.=\s*(\d+)", alt).groups()
                                    conds.append(f"({lo_} <= ({scrut}) && ({scrut}) <= {hi_})")
                                elif alt == "_" or re.fullmatch(r"[a-z_]\w*", alt):
                                    conds.append("true")
                                else:
                                    conds = None
                                    break
                            if conds:
                                guard = " || ".join(conds)
                        # body: a block group, or tokens up to the next top-level `,`
                        if j + 1 < len(at) and at[j + 1][0] == "grp" and at[j + 1][1] == "{":
                            xa, xb = ba + at[j + 1][2] + 1, ba + at[j + 1][3] - 1
                            j += 2
                        else:
                            j2 = j + 1
                            while j2 < len(at) and at[j2][1] != ",":
                                j2 += 1
                            xa = ba + at[j + 1][2] if j + 1 < len(at) else bb
                            xb = ba + at[j2 - 1][3] if j2 - 1 > j else xa
                            j = j2
                        body = self.slice_block(xa, xb, ind + 1)
                        if scrut_pure and guard != "nondet()":
                            # arms are tried in order: an if / else-if chain
                            out.append(f"{I}{'if' if first else '} else if'} {guard} {{")
                            out.extend(body)
                            first = False
                        elif body:
                            if scrut_pure and not first:
                                out.append(f"{I}}}")
                                first = True
                            out.append(f"{I}if nondet() {{")
                            out.extend(body)
                            out.append(f"{I}}}")
                        # skip the separating comma
                        if j < len(at) and at[j][1] == ",":
                            j += 1
                        pat_start = j
                    else:
                        j += 1
                if scrut_pure and not first:
                    out.append(f"{I}}}")
                k = kb + 1
            elif kind == "id" and t == "for":
                kb = find_block(k + 1)
                hdr = self.src[a + toks[k + 1][2]:a + toks[kb][2]].strip()
                mh = re.match(r"(\w+)\s+in\s+(.*?)\.\.(=?)(.*)$", hdr, re.S)
                kept = False
                if mh:
                    lo_a = a + toks[k + 1][2] + hdr.index(mh.group(2)) if mh.group(2) else None
                    lo, hi = mh.group(2).strip(), mh.group(4).strip()
                    def simple(x):
                        y = x.replace("args.len()", "0")
                        return re.fullmatch(r"[\w\s+\-*().]*", y) is not None and all(
                            w in self.counts or w in self.loopvars or w.isdigit() or w in ("usize", "as")
                            for w in re.findall(r"[A-Za-z_]\w*|\d+", y))
                    if lo and hi and simple(lo) and simple(hi):
                        v = mh.group(1)
                        self.loopvars.add(v)
                        out.append(f"{I}for {v} in {lo}..{mh.group(3)}{hi} {{")
                        out.extend(self.slice_block(a + toks[kb][2] + 1, a + toks[kb][3] - 1, ind + 1))
                        out.append(f"{I}}}")
                        kept = True
                if not kept:
                    out.extend(self.slice_block(a + toks[k + 1][2], a + toks[kb][2], ind))
                    body = self.slice_block(a + toks[kb][2] + 1, a + toks[kb][3] - 1, ind + 1)
                    if body:
                        out.append(f"{I}while nondet() {{")
                        out.extend(body)
                        out.append(f"{I}}}")
                k = kb + 1
            elif kind == "id" and t in ("while", "loop"):
                kb = find_block(k + 1)
                out.extend(self.slice_block(a + toks[k + 1][2], a + toks[kb][2], ind) if t == "while" else [])
                body = self.slice_block(a + toks[kb][2] + 1, a + toks[kb][3] - 1, ind + 1)
                if body:
                    out.append(f"{I}while nondet() {{")
                    out.extend(body)
                    out.append(f"{I}}}")
                k = kb + 1
            elif kind == "id" and t == "return":
                # accesses in the returned expression first
                j = k + 1
                while j < n and toks[j][1] != ";":
                    j += 1
                if j > k + 1:
                    out.extend(self.slice_block(a + toks[k + 1][2], a + toks[j - 1][3], ind))
                out.append(f"{I}return;")
                k = j + 1
            elif kind == "id" and t in ("break", "continue"):
                out.append(f"{I}{t};")
                k += 1
            elif kind == "id" and t == "args" and k + 1 < n and toks[k + 1][0] == "grp" and toks[k + 1][1] == "[":
                ia, ib = a + toks[k + 1][2] + 1, a + toks[k + 1][3] - 1
                idx = self.src[ia:ib].strip()
                self._check_index(idx)
                if ".." in idx:
                    # a sub-slice args[a..] / args[a..b]: both ends must be within the length
                    mm = re.fullmatch(r"(.*?)\.\.(=?)(.*)", idx, re.S)
                    lo, hi = mm.group(1).strip() or "0", mm.group(3).strip()
                    hi_expr = (f"({hi}) + 1" if mm.group(2) else hi) if hi else "args.len()"
                    out.append(f"{I}assert(({lo}) <= ({hi_expr}) && ({hi_expr}) <= args@.len());")
                else:
                    out.append(f"{I}assert(({idx}) < args@.len());")
                self.accesses += 1
                k += 2
            elif kind == "p" and t == "?":
                out.append(f"{I}if nondet() {{ return; }}")
                k += 1
            elif kind == "grp":
                out.extend(self.slice_block(a + s + 1, a + e - 1, ind))
                k += 1
            else:
                k += 1
        return out


def slice_function(src, m, f, name, local=False):
    """f: dict from rustlex.find_fn (start, end, body_open).  Returns (text, n_accesses).
    local=True: `args` is a local of the function (bound by `let args = ..`), not a parameter."""
    s = Slicer(src, m)
    bo = f["body_open"]
    be = R.match_bracket(m, bo)
    body = s.slice_block(bo + 1, be, 1)
    sig = f"pub fn {name}()" if local else f"pub fn {name}(args: &[Node])"
    if local:
        body = ["    let args = havoc_args();"] + body
    text = f"#[verifier::loop_isolation(false)]\n#[verifier::exec_allows_no_decreases_clause]\n{sig}\n{{\n" + "\n".join(body) + "\n}\n"
    return text, s.accesses
