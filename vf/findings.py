"""known_findings.txt: committed, never written at run time.
  known: property=<id> unit=<u> obligation=<id> :: <what fails>
  fixed: property=<id> <commit> <what failed>          (suppresses nothing)
"""
import os
import re

ROOT = os.path.dirname(os.path.dirname(os.path.abspath(__file__)))


def load():
    out = []
    p = os.path.join(ROOT, "known_findings.txt")
    if not os.path.exists(p):
        return out
    for ln in open(p):
        ln = ln.strip()
        m = re.match(r"known:\s+property=(\S+)\s+unit=(\S+)\s+obligation=(\S+)\s+(?:input~=(\S+)\s+)?::\s*(.*)$", ln)
        if m:
            out.append(dict(property=m.group(1), unit=m.group(2), obligation=m.group(3), input_re=m.group(4), what=m.group(5)))
    return out


def match(known, pid, unit, failure):
    for k in known:
        if k["property"] == pid and k["unit"] == unit and k["obligation"] == failure["id"] and not k.get("input_re"):
            return k
    return None


def split_grid(known, pid, driver, inputs):
    """concrete failing inputs of a replay driver: (known findings hit, inputs no `known:` line lists).  A line
    `known: property=<id> unit=replay:<driver> obligation=replay-grid/<driver> input~=<regex> :: ...` covers exactly the inputs its regex matches."""
    ks = [k for k in known if k["property"] == pid and k["unit"] == "replay:" + driver and k.get("input_re")]
    hits, new = [], []
    for i in inputs:
        for k in ks:
            if re.search(k["input_re"], i):
                hits.append((k, i))
                break
        else:
            new.append(i)
    return hits, new
