"""known_findings.txt: committed, never written at run time.
  known: property=<id> unit=<u> obligation=<id> :: <what fails>
  fixed: property=<id> <commit> <what failed>          (suppresses nothing)
"""
import os
import re

ROOT = os.path.dirname(os.path.dirname(os.path.abspath(__file__)))


def load():
    out = []
    p = os.path.join(ROOT, "known_findings.txt")
    if not os.path.exists(p):
        return out
    for ln in open(p):
        ln = ln.strip()
        m = re.match(r"known:\s+property=(\S+)\s+unit=(\S+)\s+obligation=(\S+)\s*::\s*(.*)$", ln)
        if m:
            out.append(dict(property=m.group(1), unit=m.group(2), obligation=m.group(3), what=m.group(4)))
    return out


def match(known, pid, unit, failure):
    for k in known:
        if k["property"] == pid and k["unit"] == unit and k["obligation"] == failure["id"]:
            return k
    return None
