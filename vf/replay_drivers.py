"""Concrete replay drivers (filled in per property)."""


def find_input(pid, unit, failure):
    return None


def rerun(pid, record):
    return dict(still_fails=False, note="no driver")
