"""Concrete replay on the REAL crate.

A scratch copy of /repo's current working tree is made under /verif/work/replay_src, the module
replay_src/verif_replay.rs is injected into the base crate of THAT COPY (never into /repo), and
`cargo test --offline -p ironcalc_base --lib verif_replay` runs the selected drivers.  The build output lives in
/verif/work/replay_target so that later runs are incremental."""
import json
import os
import re
import shutil
import subprocess
import time

ROOT = os.path.dirname(os.path.dirname(os.path.abspath(__file__)))
REPO = os.environ.get("VERIF_REPO", "/repo")
WORK = os.environ.get("VERIF_WORK") or os.path.join(ROOT, "work")

# which drivers exercise which unit / property
UNIT_DRIVERS = {
    "cols": ["cols"], "rows": ["rows"], "delegates": ["cols", "rows"], "colcodec": ["colcodec"], "dates": ["dates"],
    "errnames": ["errnames"], "fntables": ["fnnames"], "parens": ["parens"], "sheetrestore": ["undoall"], "xmlescape": ["x:roundtrip"], "xlsxpanic": ["x:importcrash"], "boolentry": ["entry"], "entrystyle": ["entry"], "refshift": ["refshift"], "refarms": ["refshift"], "strenv": ["refshift"], "dispsites": ["refshift"],
    "colshift": ["refshift"], "finite": ["finite"], "atomic": ["atomic"], "modelatomic": ["atomic"], "hist": ["history"],
    "queue": ["history"], "arms": ["history", "select"], "record": ["history"], "select": ["select"],
    "uisel": ["selinv", "atomic"], "nav": ["selinv"], "argidx": ["builtins"], "styles": ["styles"], "f4": ["f4"],
}
PROP_DRIVERS = {
    "C01": ["history", "undoall"], "C02": ["history", "undoall"], "C03": ["history", "undoall"], "C04": ["atomic"], "C08": ["finite"], "C09": ["parens"], "C18": ["entry"], "C24": ["x:roundtrip"], "C25": ["x:importcrash"], "C11": ["colcodec", "builtins", "f4"],
    "C12": ["refshift"], "C13": ["refshift"], "C14": ["refshift"], "C15": [], "C17": [], "C21": ["dates"], "C22": ["colcodec"],
    "C23": ["errnames", "fnnames"], "C27": ["cols", "rows", "undoall"], "C28": ["select", "selinv"], "C29": ["cols", "rows"], "C30": ["styles", "cols", "rows"], "C33": [], "C34": ["f4"],
}


def run_drivers(drivers, timeout=1500):
    """returns dict driver -> list of failing-input strings, or raises RuntimeError (build problem)"""
    drivers = sorted(set(drivers))
    if not drivers:
        return {}
    src = os.path.join(WORK, "replay_src")
    os.makedirs(src, exist_ok=True)
    r = subprocess.run(["rsync", "-a", "--delete", "--exclude", "target", "--exclude", ".git", "--exclude", "webapp", "--exclude", "bindings",
                        REPO + "/", src + "/"], capture_output=True, text=True)
    if r.returncode != 0:
        raise RuntimeError("rsync failed: " + r.stderr[-300:])
    shutil.copy(os.path.join(ROOT, "replay_src", "verif_replay.rs"), os.path.join(src, "base", "src", "verif_replay.rs"))
    lib = os.path.join(src, "base", "src", "lib.rs")
    s = open(lib).read()
    if "mod verif_replay;" not in s:
        open(lib, "w").write(s + "\n#[allow(missing_docs)]\npub mod verif_replay;\n")
    # the workspace lists members that were not copied: restrict it
    ct = os.path.join(src, "Cargo.toml")
    t = open(ct).read()
    t2 = re.sub(r"members\s*=\s*\[[^\]]*\]", 'members = ["base"]', t, flags=re.S)
    t2 = re.sub(r"exclude\s*=\s*\[[^\]]*\]", 'exclude = []', t2, flags=re.S)
    open(ct, "w").write(t2)
    xdrivers = [d for d in drivers if d.startswith("x:")]          # drivers that live in the xlsx crate (C24 / C25)
    bdrivers = [d for d in drivers if not d.startswith("x:")]
    env = dict(os.environ, CARGO_NET_OFFLINE="true", CARGO_TARGET_DIR=os.path.join(WORK, "replay_target"), VERIF_DRIVERS=",".join(bdrivers))
    t0 = time.time()
    out = ""
    if bdrivers:
        p = subprocess.run(["cargo", "test", "--offline", "-p", "ironcalc_base", "--lib", "verif_replay::t::replay", "--", "--nocapture", "--test-threads", "1"],
                           cwd=src, env=env, capture_output=True, text=True, timeout=timeout)
        out += p.stdout + "\n" + p.stderr
    if xdrivers:
        t3 = re.sub(r"members\s*=\s*\[[^\]]*\]", 'members = ["base", "xlsx"]', t2, flags=re.S)
        open(ct, "w").write(t3)
        shutil.copy(os.path.join(ROOT, "replay_src", "verif_replay_xlsx.rs"), os.path.join(src, "xlsx", "tests", "verif_replay_xlsx.rs"))
        probe = os.path.join(WORK, "import_probe")
        os.makedirs(probe, exist_ok=True)
        mk = subprocess.run(["python3", os.path.join(ROOT, "tools", "import_probe", "make_files.py"), probe, os.path.join(src, "xlsx", "tests", "example.xlsx")],
                            capture_output=True, text=True)
        if mk.returncode != 0:
            raise RuntimeError("import probe files could not be built: " + mk.stderr[-300:])
        env2 = dict(env, VERIF_DRIVERS=",".join(xdrivers), VERIF_PROBE_DIR=probe)
        p = subprocess.run(["cargo", "test", "--offline", "-p", "ironcalc", "--test", "verif_replay_xlsx", "--", "--nocapture", "--test-threads", "1"],
                           cwd=src, env=env2, capture_output=True, text=True, timeout=timeout)
        out += p.stdout + "\n" + p.stderr
    res = {}
    for d in drivers:
        m = re.search(r"REPLAY-DRIVER " + re.escape(d) + r" failing_inputs=(\d+)", out)
        if not m:
            if "panicked" in out or "error" in out:
                tail = out[-600:]
                raise RuntimeError(f"driver {d} did not report (build error or panic): {tail}")
            raise RuntimeError(f"driver {d} did not report")
        res[d] = re.findall(r"REPLAY-FAIL " + re.escape(d) + r" :: (.*)", out)
        if int(m.group(1)) and not res[d]:
            res[d] = [f"{m.group(1)} failing inputs (not printed)"]
    res["_wall_s"] = round(time.time() - t0, 1)
    return res


def find_input(pid, unit, failure):
    ds = UNIT_DRIVERS.get(unit.split(":")[0], []) or PROP_DRIVERS.get(pid, [])
    if not ds:
        return None
    res = run_drivers(ds)
    found = {d: v for d, v in res.items() if not d.startswith("_") and v}
    if not found:
        return None
    return dict(drivers=ds, failing_inputs=found, note="found by running the unit's replay driver on a scratch copy of the real crate; "
                "the inputs fail the same postcondition the refuted obligation states")


def rerun(pid, record):
    fi = record.get("failing_input") or {}
    ds = fi.get("drivers") or UNIT_DRIVERS.get(record.get("unit", ""), []) or PROP_DRIVERS.get(pid, [])
    if not ds:
        return dict(still_fails=False, note="no replay driver for this unit; re-run ./check to re-decide the obligation")
    res = run_drivers(ds)
    found = {d: v for d, v in res.items() if not d.startswith("_") and v}
    return dict(still_fails=bool(found), failing_inputs=found, drivers=ds)
