"""Run Verus on a generated unit, enumerate obligations, attribute failures, run the vacuity canary."""
import json
import os
import re
import subprocess
import time

from . import rustlex as R
from . import weave
from .rustlex import ExtractError

ROOT = os.path.dirname(os.path.dirname(os.path.abspath(__file__)))
WORK = os.environ.get("VERIF_WORK") or os.path.join(ROOT, "work")
CLAUSE_KW = r"requires|ensures|invariant_except_break|invariant|decreases|recommends|opens_invariants|no_unwind|returns"


class Fn:
    def __init__(self, name, kw, sig_end, end, mode, trusted, has_body):
        self.name, self.kw, self.sig_end, self.end = name, kw, sig_end, end
        self.mode, self.trusted, self.has_body = mode, trusted, has_body


def verus_ranges(m):
    out = []
    for mm in re.finditer(r"\bverus!\s*\{", m):
        ob = mm.end() - 1
        out.append((ob, R.match_bracket(m, ob)))
    return out


def functions(g, m):
    fns = []
    vr = verus_ranges(m)
    for mm in re.finditer(r"\bfn\s+(\w+)", m):
        kw = mm.start()
        if not any(a < kw < b for (a, b) in vr):
            continue   # plain Rust outside verus!{}: not verified, not an obligation
        # find end of signature: `{` at depth 0 or `;`
        d = 0
        k = mm.end()
        n = len(m)
        has_body = None
        while k < n:
            c = m[k]
            if c in "([":
                d += 1
            elif c in ")]":
                d -= 1
            elif c == "{" and d == 0:
                has_body = True
                break
            elif c == ";" and d == 0:
                has_body = False
                break
            k += 1
        if has_body is None:
            continue
        end = R.match_bracket(m, k) + 1 if has_body else k + 1
        pre = m[max(0, kw - 200):kw]
        # text between previous item end and the keyword
        cut = max(pre.rfind("}"), pre.rfind(";"))
        pre = pre[cut + 1:]
        mode = "spec" if re.search(r"\bspec\b", pre) else ("proof" if re.search(r"\bproof\b", pre) else "exec")
        trusted = ("external_body" in pre) or ("uninterp" in pre) or ("verifier::external" in pre) or (not has_body)
        fns.append(Fn(mm.group(1), kw, k, end, mode, trusted, has_body))
    return fns


def assume_spec_ranges(m):
    out = []
    for mm in re.finditer(r"\bassume_specification\b", m):
        d = 0
        k = mm.end()
        while k < len(m):
            c = m[k]
            if c in "([{":
                d += 1
            elif c in ")]}":
                d -= 1
            elif c == ";" and d == 0:
                break
            k += 1
        out.append((mm.start(), k + 1))
    return out


def split_clauses(g, m, start, stop):
    """split g[start:stop] at depth-0 commas, ignoring commas inside |binders|."""
    res = []
    d = 0
    k = start
    cur = start
    while k < stop:
        c = m[k]
        if c in "([{":
            d += 1
        elif c in ")]}":
            d -= 1
        elif c == "|" and d >= 0 and re.search(r"(forall|exists|choose)\s*$", m[max(0, k - 10):k]):
            k = m.index("|", k + 1)
        elif c == "," and d == 0:
            res.append((cur, k))
            cur = k + 1
        k += 1
    res.append((cur, stop))
    return [(a, b) for (a, b) in res if g[a:b].strip()]


def enumerate_obligations(g):
    """Explicit proof obligations written in the generated file, as (id, kind, fn, start, end, text);
    plus the list of assumed clauses (trusted declarations)."""
    m = R.mask(g)
    fns = functions(g, m)
    asr = assume_spec_ranges(m)
    obs, assumed = [], []

    def enclosing(pos):
        best = None
        for f in fns:
            if f.kw <= pos < f.end and (best is None or f.kw > best.kw):
                best = f
        return best

    counters = {}
    for mm in re.finditer(r"\b(" + CLAUSE_KW + r")\b", m):
        kw = mm.group(1)
        pos = mm.start()
        # region end: next clause keyword or `{` at depth 0 (or `;` for bodiless)
        d = 0
        k = mm.end()
        n = len(m)
        while k < n:
            c = m[k]
            if c in "([":
                d += 1
            elif c in ")]":
                d -= 1
            elif d == 0 and c in "{;":
                break
            elif d == 0 and re.match(r"\b(" + CLAUSE_KW + r")\b", m[k:k + 24]) and not (m[k - 1].isalnum() or m[k - 1] == "_"):
                break
            elif c == "{":
                d += 1
            elif c == "}":
                d -= 1
            k += 1
        in_as = any(a <= pos < b for (a, b) in asr)
        f = enclosing(pos)
        if f is None and not in_as:
            continue
        for (a, b) in split_clauses(g, m, mm.end(), k):
            text = R.norm_ws(R.drop_comments(g[a:b]))
            if in_as or (f and f.trusted):
                if kw in ("ensures", "requires", "returns"):
                    assumed.append(dict(fn=(f.name if f else "assume_specification"), kind=kw, text=text))
                continue
            if f.mode == "spec" and kw != "decreases":
                continue
            if kw in ("requires", "recommends", "opens_invariants", "no_unwind"):
                continue
            key = (f.name, kw)
            counters[key] = counters.get(key, 0) + 1
            obs.append(dict(id=f"{f.name}/{kw}#{counters[key]}", kind=kw, fn=f.name, start=a, end=b, text=text))
    # call-site obligations: every call (from verified code) of a function that has a `requires` clause
    with_req = set()
    for mm in re.finditer(r"\brequires\b", m):
        f = enclosing(mm.start())
        if f is not None and f.kw <= mm.start() < f.sig_end:
            with_req.add(f.name)
    for f in fns:
        if f.trusted or f.mode == "spec" or not f.has_body:
            continue
        for name in sorted(with_req):
            for cm in re.finditer(r"(?<![\w:])(?:self\.|[\w.]*\.)?" + re.escape(name) + r"\s*\(", m[f.sig_end:f.end]):
                pos = f.sig_end + cm.start()
                key = (f.name, "pre:" + name)
                counters[key] = counters.get(key, 0) + 1
                e = R.match_bracket(m, f.sig_end + cm.end() - 1) + 1
                obs.append(dict(id=f"{f.name}/precondition-of-{name}#{counters[key]}", kind="precondition", fn=f.name,
                                start=pos, end=e, text=R.norm_ws(g[pos:e])[:200]))
    for mm in re.finditer(r"\bassert\b\s*(\(|forall)", m):
        f = enclosing(mm.start())
        if f is None or f.trusted:
            continue
        if mm.group(1) == "(":
            e = R.match_bracket(m, mm.end() - 1) + 1
        else:
            e = m.index("by", mm.end())
        key = (f.name, "assert")
        counters[key] = counters.get(key, 0) + 1
        obs.append(dict(id=f"{f.name}/assert#{counters[key]}", kind="assert", fn=f.name, start=mm.start(), end=e,
                        text=R.norm_ws(g[mm.start():e])))
    return obs, assumed, fns


def canary_groups(g):
    """Partition the non-trusted exec/proof functions into groups with no caller/callee pair inside a group
    (an `ensures false` on a callee would legitimately let its caller prove false)."""
    m = R.mask(g)
    fns = [f for f in functions(g, m) if not (f.trusted or f.mode == "spec" or not f.has_body or f.name == "main")]
    names = {f.name for f in fns}
    calls = {}
    for f in fns:
        body = m[f.sig_end:f.end]
        calls[f.name] = {n for n in names if n != f.name and re.search(r"\b" + re.escape(n) + r"\s*(::<[^>]*>)?\s*\(", body)}
    groups = []
    for f in fns:
        for grp in groups:
            if all(f.name not in calls[o.name] and o.name not in calls[f.name] for o in grp):
                grp.append(f)
                break
        else:
            groups.append([f])
    return m, groups


def make_canary(g, m, group):
    """Every function of the group gets `ensures false`; each must then be refuted."""
    ins = []
    for f in group:
        sig = m[f.kw:f.sig_end]
        e = re.search(r"\bensures\b", sig)
        if e:
            ins.append((f.kw + e.end(), " false,"))
        else:
            dcr = re.search(r"\b(decreases|opens_invariants|no_unwind)\b", sig)
            at = f.kw + dcr.start() if dcr else f.sig_end
            ins.append((at, "\n ensures false,\n"))
    out = []
    last = 0
    for (p, t) in sorted(ins):
        out.append(g[last:p])
        out.append(t)
        last = p
    out.append(g[last:])
    return "".join(out)


def scan_trusted(g):
    m = R.mask(g)
    hits = []
    for pat in [r"\bassume\s*\(", r"\badmit\s*\(", r"external_body", r"\bassume_specification\b", r"verifier::external\b",
                r"\bunimplemented!", r"\buninterp\b", r"external_type_specification", r"\bexternal_fn_specification\b"]:
        for mm in re.finditer(pat, m):
            ln = g.count("\n", 0, mm.start()) + 1
            line = g.split("\n")[ln - 1].strip()
            hits.append(dict(pattern=pat.strip("\\b").replace("\\s*\\(", "("), line=ln, text=line[:160]))
    return hits


def run_verus(path, rlimit=None, extra=None, timeout=600):
    cmd = ["verus", os.path.basename(path), "--output-json", "--time", "--error-format=json", "--multiple-errors", "20"]
    if rlimit:
        cmd += ["--rlimit", str(rlimit)]
    if extra:
        cmd += extra
    t0 = time.time()
    try:
        p = subprocess.run(cmd, cwd=os.path.dirname(path), capture_output=True, text=True, timeout=timeout)
    except subprocess.TimeoutExpired:
        return dict(status="undecided", reason="verus timeout", cmd=" ".join(cmd), wall=time.time() - t0, diags=[], js={})
    wall = time.time() - t0
    try:
        js = json.loads(p.stdout)
    except Exception:
        js = {}
    diags = []
    for ln in p.stderr.split("\n"):
        ln = ln.strip()
        if ln.startswith("{"):
            try:
                d = json.loads(ln)
            except Exception:
                continue
            if d.get("level") == "error" and not d.get("message", "").startswith("aborting due to"):
                diags.append(d)
    vr = js.get("verification-results", {})
    res = dict(cmd=" ".join(cmd), wall=wall, js=js, diags=diags, verified=vr.get("verified", 0), errors=vr.get("errors", 0),
               stderr=p.stderr[-4000:] if not js else "")
    if vr.get("success") and p.returncode == 0:
        res["status"] = "ok"
    elif vr.get("errors", 0) > 0 and not vr.get("encountered-vir-error"):
        is_rl = lambda d: "rlimit" in d["message"].lower() or "resource limit" in d["message"].lower()
        res["rlimit_hits"] = sum(1 for d in diags if is_rl(d))
        res["diags"] = [d for d in diags if not is_rl(d)]
        if not res["diags"]:
            res["status"] = "undecided"
            res["reason"] = "solver resource limit"
        else:
            res["status"] = "failed"
    elif diags and all(d["message"].startswith("expression simplifies to false") for d in diags):
        # an `assert(..) by (compute)` whose closed expression Verus's interpreter evaluated to false: a refuted obligation (Verus reports it
        # before the SMT phase, as a VIR error), not a compile problem
        res["status"] = "failed"
    else:
        res["status"] = "undecided"
        msgs = [d["message"] for d in diags][:3]
        res["reason"] = "verus did not reach verification (compile/unsupported construct): " + "; ".join(msgs or [p.stderr[-300:]])
    return res


def byte_to_char(g, boff):
    return len(g.encode("utf-8")[:boff].decode("utf-8", errors="ignore"))


def attribute(g, segs, obs, fns, diag):
    """Name the failed obligation for one Verus diagnostic."""
    spans = diag.get("spans", [])
    prim = [s for s in spans if s.get("is_primary")] or spans
    if not prim:
        return dict(id="?", message=diag["message"], text="")
    sp = prim[0]
    pos = byte_to_char(g, sp["byte_start"])
    msg = diag["message"]
    for o in obs:
        if o["start"] <= pos < o["end"] + 1:
            return dict(id=o["id"], fn=o["fn"], message=msg, text=o["text"], where=locate(g, segs, pos))
    f = None
    for fn in fns:
        if fn.kw <= pos < fn.end and (f is None or fn.kw > f.kw):
            f = fn
    line = g.split("\n")[sp["line_start"] - 1].strip()
    secondary = [s for s in spans if not s.get("is_primary")]
    # precondition failures: the primary span is the callee's requires clause, the secondary the call site
    site = ""
    fn_name = f.name if f else "?"
    if secondary:
        s2 = secondary[0]
        p2 = byte_to_char(g, s2["byte_start"])
        for fn in fns:
            if fn.kw <= p2 < fn.end and not fn.trusted:
                fn_name = fn.name
        site = g.split("\n")[s2["line_start"] - 1].strip()
    slug = re.sub(r"[^a-z]+", "-", msg.lower()).strip("-")[:40]
    return dict(id=f"{fn_name}/{slug}", fn=fn_name, message=msg, text=(site + "  <<  " + line) if site else line,
                where=locate(g, segs, pos))


def locate(g, segs, pos):
    off = 0
    for s in segs:
        ln = len(s.text)
        if off <= pos < off + ln:
            if s.kind == "code":
                rec = s.info.get("rec", {})
                inner = s.info.get("off", 0) + (pos - off)
                # line inside the source file (approximate when rewrites changed line counts)
                return f"{rec.get('file')}:{rec.get('line', 0) + s.text.count(chr(10), 0, pos - off) + _nl_before(rec, s)} ({rec.get('item')})"
            if s.kind == "ghost":
                rec = s.info.get("rec", {})
                return f"contract on {rec.get('file')}::{rec.get('item')} [{s.info.get('label')}]"
            return f"units/{s.info.get('file')}:{s.info.get('line')}"
        off += ln
    return "?"


def _nl_before(rec, seg):
    return seg.info.get("nl_before", 0)


def verify_unit(unit, tier="quick", do_canary=True):
    """Full pipeline for one unit.  Returns a dict with status ok/failed/undecided."""
    os.makedirs(WORK, exist_ok=True)
    out = dict(unit=unit)
    try:
        g, segs, meta = weave.build(unit)
    except ExtractError as e:
        out.update(status="undecided", reason=f"extraction: {e}")
        return out
    # annotate code segs with newline offsets so locate() can compute source lines
    per_rec = {}
    for s in segs:
        if s.kind == "code":
            key = id(s.info.get("rec"))
            s.info["nl_before"] = per_rec.get(key, 0)
            per_rec[key] = per_rec.get(key, 0) + s.text.count("\n")
    path = os.path.join(WORK, unit + ".rs")
    open(path, "w", encoding="utf-8").write(g)
    try:
        obs, assumed, fns = enumerate_obligations(g)
    except ExtractError as e:
        out.update(status="undecided", reason=f"generated file is not well bracketed (an anchor now sits inside a block): {e}", gen_path=path)
        return out
    out.update(meta=meta, obligations=obs, assumed=assumed, trusted_scan=scan_trusted(g), gen_path=path,
               functions=[f.name for f in fns if not f.trusted and f.mode != "spec" and f.name != "main"])
    if not obs:
        out.update(status="undecided", reason="no obligations generated (vacuous unit)")
        return out
    rl = 400 if tier == "thorough" else 150
    r = run_verus(path, rlimit=rl)
    out.update(cmd=r["cmd"], wall=r["wall"], verified=r.get("verified", 0), errors=r.get("errors", 0))
    t = r.get("js", {}).get("times-ms", {})
    out["smt_ms"] = t.get("smt", {}).get("total", 0)
    out["verus_total_ms"] = t.get("total", 0)
    if r["status"] == "undecided":
        out.update(status="undecided", reason=r["reason"])
        return out
    if r["status"] == "failed":
        fails = []
        seen = set()
        for d in r["diags"]:
            a = attribute(g, segs, obs, fns, d)
            a["rendered"] = d.get("rendered", "")
            if (a["id"], a["text"]) in seen:
                continue
            seen.add((a["id"], a["text"]))
            fails.append(a)
        # Constructs Verus ACCEPTS but gives no meaning to: a failed obligation in a function whose extracted text uses one is not a refutation
        # of the code (a harmless rewrite into such a construct would otherwise be a false alarm) -> UNDECIDED, never an alarm.
        #   * string-literal patterns in `match` (`"." => ..`): the scrutinee's text is not related to the pattern by the verifier
        #   * `for i in a..=b` (not translated by //@forwhile): accepted, but no fact about i is available inside the loop
        m_g = R.mask(g)
        def _meaningless(fn_name):
            for f in fns:
                if f.name == fn_name:
                    body = g[f.kw:f.end]
                    if re.search(r'(?m)^\s*"(?:[^"\\]|\\.)*"\s*(?:\|\s*"(?:[^"\\]|\\.)*"\s*)*=>', body):
                        return "string-literal match pattern"
                    mb = R.mask(body)
                    for lm in re.finditer(r'\bfor\s+[\w(), ]+\s+in\s+[^{;]*\.\.=', mb):
                        ob = mb.find("{", lm.end())
                        # a loop the template gave an invariant to is a loop the unit reasons about; only an UNANNOTATED one is meaningless
                        if ob > 0 and "invariant" not in mb[lm.end():ob]:
                            return "for loop over an inclusive range without invariant (Verus derives no facts about its variable)"
            return None
        why = [(_meaningless(a.get("fn", "")), a) for a in fails]
        if fails and all(w for (w, _a) in why):
            out.update(status="undecided", reason="failed obligation(s) in code using a construct the verifier gives no meaning to (" + why[0][0] + "): "
                       + "; ".join(a["id"] for a in fails[:3]))
            return out
        out.update(status="failed", failures=fails)
        return out
    out["status"] = "ok"
    if do_canary:
        m0, groups = canary_groups(g)
        missing = []
        total = 0
        cwall = 0.0
        reason = ""
        def one(args):
            gi, grp = args
            cg = make_canary(g, m0, grp)
            cpath = os.path.join(WORK, f"{unit}_canary{gi}.rs")
            open(cpath, "w", encoding="utf-8").write(cg)
            cr = run_verus(cpath, rlimit=150)
            failed_fns = set()
            cm = R.mask(cg)
            cfns = functions(cg, cm)
            for d in cr["diags"]:
                for sp in d.get("spans", []):
                    pos = byte_to_char(cg, sp["byte_start"])
                    for f in cfns:
                        if f.kw <= pos < f.end:
                            failed_fns.add(f.name)
            return grp, failed_fns, cr
        from concurrent.futures import ThreadPoolExecutor
        with ThreadPoolExecutor(max_workers=4) as ex:
            rs = list(ex.map(one, list(enumerate(groups))))
        for grp, failed_fns, cr in rs:
            cwall += cr["wall"]
            total += len(grp)
            missing += [f.name for f in grp if f.name not in failed_fns]
            if cr["status"] == "undecided" and cr.get("reason", "").startswith("verus did not reach"):
                reason = cr["reason"]
        out["canary"] = dict(functions=total, refuted=total - len(missing), missing=missing, runs=len(groups), wall=round(cwall, 2))
        if missing:
            out.update(status="undecided",
                       reason=f"vacuity canary: `ensures false` was NOT refuted for {missing} ({reason})")
    return out
